#!/usr/bin/env python3
"""Import one whole seeding wave: stage /tmp/seed/<PID>/<subdir>/{patch,demo,meta}_k.* as seeded/<PID>-<tag>k, confirm all of them in
parallel (each in its own scratch worktree), then run the checks against each one serially through /repo (apply, check, undo).
usage: seed_import_wave.py <tag> <subdir> [PID…]      Maintenance tool, not a check."""
import concurrent.futures as cf, glob, json, os, shutil, sys
VERIF = os.path.dirname(os.path.dirname(os.path.abspath(__file__)))
sys.path.insert(0, os.path.join(VERIF, "tools"))
import seed_eval

tag, sub = sys.argv[1], sys.argv[2]
pids = sys.argv[3:] or sorted(os.path.basename(os.path.dirname(os.path.dirname(p))) for p in glob.glob(f"/tmp/seed/C*/{sub}/patch_1.diff"))
staged = []
for pid in pids:
    src = f"/tmp/seed/{pid}/{sub}"
    for k in (1, 2, 3, 4):
        p = os.path.join(src, f"patch_{k}.diff")
        d = os.path.join(VERIF, "seeded", f"{pid}-{tag}{k}")
        if not os.path.exists(p) or os.path.getsize(p) == 0 or os.path.exists(os.path.join(d, "meta.json")):
            continue
        os.makedirs(d, exist_ok=True)
        shutil.copy(p, os.path.join(d, "patch.diff"))
        shutil.copy(os.path.join(src, f"demo_{k}.py"), os.path.join(d, "demo.py"))
        meta = {}
        mp = os.path.join(src, f"meta_{k}.json")
        if os.path.exists(mp):
            try:
                meta = json.load(open(mp))
            except Exception:
                meta = {"raw": open(mp).read()}
        staged.append((pid, d, meta))
with cf.ThreadPoolExecutor(max_workers=6) as ex:
    confirmed = list(ex.map(lambda t: seed_eval.confirm(t[1]), staged))
for (pid, d, meta), c in zip(staged, confirmed):
    det = seed_eval.detect(d) if c.get("ok") else {"applied": False, "why": "not confirmed"}
    meta.update({"breaks_property": pid, "origin": "fresh sub-agent given only the property text and a scratch worktree",
                 "confirmed_here": c, "what_was_run": "tools/seed_eval.py confirm (scratch worktree: demo on original, demo with patch, 463 baseline tests with patch); "
                 "tools/seed_eval.py detect (git -C /repo apply; ./check --all --no-evidence; git -C /repo checkout -- .)",
                 "detected_by": det.get("fired", {}), "first_pass": det.get("fired", {})})
    json.dump(meta, open(os.path.join(d, "meta.json"), "w"), indent=1)
    print(f"{os.path.basename(d)}: confirmed={c.get('ok')} detected_by={det.get('fired')}  :: {meta.get('summary', '')[:110]}", flush=True)
    if not c.get("ok"):
        print("   ", c, flush=True)
