#!/usr/bin/env python3
"""Import behaviour-preserving refactorings made by a sub-agent (/tmp/seed/<PID>/_out/{patch,meta}_k.*) into
/verif/refactors/<PID>-r<k>/, confirm that the baseline suite still passes with each, and run every check against it.
Any VIOLATION here is a candidate FALSE ALARM (to be triaged by hand). Maintenance tool, not a check."""
import json, os, shutil, subprocess, sys, tempfile
VERIF = os.path.dirname(os.path.dirname(os.path.abspath(__file__)))
sys.path.insert(0, os.path.join(VERIF, "tools"))
import seed_eval

def suite_ok(patch):
    wt = tempfile.mkdtemp(prefix="refwt_", dir="/tmp"); os.rmdir(wt)
    try:
        r = seed_eval.sh(f"git -C /repo worktree add -q {wt} HEAD"); assert r.returncode == 0, r.stderr
        r = seed_eval.sh(f"git -C {wt} apply {patch}")
        if r.returncode != 0:
            return False, "patch does not apply: " + r.stderr[:200]
        s = subprocess.run(["/venv/bin/python", os.path.join(VERIF, "tools", "baseline_check.py"), wt], capture_output=True, text=True)
        return s.returncode == 0, (s.stdout.strip().splitlines() or [""])[-1]
    finally:
        seed_eval.sh(f"git -C /repo worktree remove --force {wt}"); shutil.rmtree(wt, ignore_errors=True)

pid = sys.argv[1]
sub = sys.argv[2] if len(sys.argv) > 2 else "_out"      # output directory of the sub-agent inside its worktree
offset = int(sys.argv[3]) if len(sys.argv) > 3 else 0    # numbering offset of the stored ids (second wave: 6)
src = f"/tmp/seed/{pid}/{sub}"
for k in range(1, 8):  # up to 7 per round
    p = os.path.join(src, f"patch_{k}.diff")
    if not os.path.exists(p) or os.path.getsize(p) == 0:
        continue
    d = os.path.join(VERIF, "refactors", f"{pid}-r{k + offset}")
    os.makedirs(d, exist_ok=True)
    shutil.copy(p, os.path.join(d, "patch.diff"))
    meta = {}
    mp = os.path.join(src, f"meta_{k}.json")
    if os.path.exists(mp):
        try: meta = json.load(open(mp))
        except Exception: meta = {"raw": open(mp).read()}
    ok, why = suite_ok(os.path.join(d, "patch.diff"))
    if ok:
        import refactor_eval
        _, alarms = refactor_eval.evaluate(os.path.basename(d))
        fired = {}
        for p_, r_, *_ in alarms:
            fired.setdefault(p_, [])
            if r_ not in fired[p_]:
                fired[p_].append(r_)
        det = {"fired": fired}
    else:
        det = {"applied": False}
    meta.update({"area": pid, "suite_ok": ok, "suite": why, "alarms_first_pass": det.get("fired", {}), "wave": (1 + offset // 6) if offset else 1})
    json.dump(meta, open(os.path.join(d, "meta.json"), "w"), indent=1)
    print(f"{pid}-r{k + offset}: suite_ok={ok} alarms={det.get('fired')} :: {meta.get('kind','')[:40]} :: {meta.get('summary','')[:100]}")
