#!/usr/bin/env python3
"""Run /repo's suite (or a scratch copy given as argv[1]) and verify every stable-pass
test of /root/.vp/BASELINE.json still passes.  Not a check; a maintenance tool used
when making `fix:` commits and when validating seeded changes."""
import json, subprocess, sys, tempfile, os, xml.etree.ElementTree as ET
repo = sys.argv[1] if len(sys.argv) > 1 else "/repo"
b = json.load(open("/root/.vp/BASELINE.json"))
fd, xml = tempfile.mkstemp(suffix=".xml"); os.close(fd)
env = dict(os.environ, PYTHONPATH=repo, PYTHONDONTWRITEBYTECODE="1")
subprocess.run(["/venv/bin/python", "-m", "pytest", "-q", "-p", "no:cacheprovider", "--timeout=900",
                "--continue-on-collection-errors", "-x" if "-x" in sys.argv else "-q", f"--junitxml={xml}"],
               cwd=repo, env=env, stdout=subprocess.DEVNULL, stderr=subprocess.DEVNULL)
passed = set()
for tc in ET.parse(xml).getroot().iter("testcase"):
    if not any(c.tag in ("failure", "error", "skipped") for c in tc):
        passed.add(f"{tc.get('classname')}::{tc.get('name')}")
os.unlink(xml)
missing = [t for t in b["stable_pass"] if t not in passed]
print(f"passed={len(passed)} stable_pass_missing={len(missing)}")
for t in missing[:20]:
    print("  MISSING", t)
sys.exit(1 if missing else 0)
