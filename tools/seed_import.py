#!/usr/bin/env python3
"""Import the deliverables of a seeding sub-agent (/tmp/seed/<PID>/_out/{patch,demo,meta}_k.*) into /verif/seeded/<PID>-<tag>k/,
confirm each (demo passes on original / fails with the patch / baseline suite passes) and run the checks against it.
Maintenance tool, not a check."""
import json, os, shutil, subprocess, sys
VERIF = os.path.dirname(os.path.dirname(os.path.abspath(__file__)))
sys.path.insert(0, os.path.join(VERIF, "tools"))
import seed_eval

pid = sys.argv[1]
tag = sys.argv[2] if len(sys.argv) > 2 else "s"
src = f"/tmp/seed/{pid}/" + (sys.argv[3] if len(sys.argv) > 3 else "_out")
for k in (1, 2, 3, 4):
    p = os.path.join(src, f"patch_{k}.diff")
    if not os.path.exists(p) or os.path.getsize(p) == 0:
        continue
    d = os.path.join(VERIF, "seeded", f"{pid}-{tag}{k}")
    os.makedirs(d, exist_ok=True)
    shutil.copy(p, os.path.join(d, "patch.diff"))
    shutil.copy(os.path.join(src, f"demo_{k}.py"), os.path.join(d, "demo.py"))
    meta = {}
    mp = os.path.join(src, f"meta_{k}.json")
    if os.path.exists(mp):
        try:
            meta = json.load(open(mp))
        except Exception:
            meta = {"raw": open(mp).read()}
    c = seed_eval.confirm(d)
    det = seed_eval.detect(d) if c.get("ok") else {"applied": False, "why": "not confirmed"}
    meta.update({"breaks_property": pid, "origin": "fresh sub-agent given only the property text and a scratch worktree",
                 "confirmed_here": c, "what_was_run": "tools/seed_eval.py confirm (scratch worktree: demo on original, demo with patch, 463 baseline tests with patch); "
                 "tools/seed_eval.py detect (git -C /repo apply; ./check --all --no-evidence; git -C /repo checkout -- .)",
                 "detected_by": det.get("fired", {})})
    json.dump(meta, open(os.path.join(d, "meta.json"), "w"), indent=1)
    print(f"{pid}-{tag}{k}: confirmed={c.get('ok')} detected_by={det.get('fired')}  :: {meta.get('summary', '')[:110]}")
    if not c.get("ok"):
        print("   ", c)
