#!/usr/bin/env python3
"""Apply a stored refactoring to /repo, run the named checks (or all that alarmed), print the violation text, undo."""
import json, os, subprocess, sys
VERIF = os.path.dirname(os.path.dirname(os.path.abspath(__file__)))
def sh(c, **k): return subprocess.run(c, shell=True, capture_output=True, text=True, **k)
for d in sys.argv[1:]:
    d = os.path.join(VERIF, "refactors", d) if not os.path.isabs(d) else d
    meta = json.load(open(os.path.join(d, "meta.json")))
    print("=" * 100); print(os.path.basename(d), "::", meta.get("summary", "")[:300])
    if "--diff" in os.environ.get("SHOW", "--diff"):
        print(open(os.path.join(d, "patch.diff")).read()[:int(os.environ.get("DIFFMAX", "2500"))])
    assert not sh("git -C /repo status --porcelain").stdout.strip()
    r = sh(f"git -C /repo apply {d}/patch.diff"); assert r.returncode == 0, r.stderr
    try:
        out = sh(f"{VERIF}/check --all --no-evidence", cwd=VERIF).stdout
    finally:
        sh("git -C /repo checkout -- .")
    keep = False
    for line in out.splitlines():
        if line.startswith(("VIOLATION", "ANALYSIS-ERROR")): keep = True
        elif line.startswith(("KNOWN-FINDING", "C")) and not line.startswith("C ") : keep = False
        if keep: print(line[:400])
