#!/usr/bin/env python3
"""Run every claimed check (quick tier, in-process, via an in-memory overlay) against every stored behaviour-preserving
refactoring under /verif/refactors and report the alarms (all of them are false alarms by construction).
  refactor_eval.py [-v] [ids...]      -v prints the violation text;  --write stores the result in meta.json"""
import json, os, subprocess, sys, multiprocessing
VERIF = os.path.dirname(os.path.dirname(os.path.abspath(__file__)))
sys.path.insert(0, VERIF)

def overlay_for(patch):
    files = [l[6:].strip() for l in open(patch) if l.startswith("+++ b/")]
    import tempfile, shutil
    d = tempfile.mkdtemp(prefix="ovl_", dir="/tmp")
    try:
        for f in files:
            os.makedirs(os.path.join(d, os.path.dirname(f)), exist_ok=True)
            if os.path.exists(os.path.join("/repo", f)):
                shutil.copy(os.path.join("/repo", f), os.path.join(d, f))
        r = subprocess.run(["patch", "-p1", "-s", "-d", d, "-i", patch], capture_output=True, text=True)
        if r.returncode != 0:
            raise RuntimeError(r.stdout + r.stderr)
        return {f: open(os.path.join(d, f)).read() for f in files}
    finally:
        shutil.rmtree(d, ignore_errors=True)

def evaluate(rid):
    from formulint.cli import run_property
    from formulint import rules as rules_pkg
    from formulint.core import AnalysisError
    from formulint.report import load_known, match_known
    d = os.path.join(VERIF, "refactors", rid)
    ov = overlay_for(os.path.join(d, "patch.diff"))
    known = load_known()
    alarms = []
    for prop in rules_pkg.CLAIMED:
        try:
            code, ctx = run_property(prop, "quick", "/repo", ov, write_evidence=False, quiet=True)
            for o in ctx.failures:
                if not match_known(prop, o, known):
                    alarms.append((prop, o.rule, o.instance, o.construct, o.message))
        except AnalysisError as e:
            alarms.append((prop, "ANALYSIS-ERROR", "", "", str(e)))
        except Exception as e:
            alarms.append((prop, "CRASH", "", "", repr(e)))
    return rid, alarms

if __name__ == "__main__":
    args = [a for a in sys.argv[1:] if not a.startswith("-")]
    verbose = "-v" in sys.argv
    ids = args or sorted(os.listdir(os.path.join(VERIF, "refactors")))
    with multiprocessing.Pool(14) as pool:
        res = pool.map(evaluate, ids)
    bad = 0
    for rid, alarms in res:
        if "--write" in sys.argv:
            mp = os.path.join(VERIF, "refactors", rid, "meta.json")
            m = json.load(open(mp))
            m["alarms_now"] = sorted({f"{p}:{r}" for p, r, *_ in alarms})
            json.dump(m, open(mp, "w"), indent=1)
        if alarms:
            bad += 1
            rules = sorted({r for _, r, *_ in alarms})
            print(rid, "ALARM", rules)
            if verbose:
                seen = set()
                for p, r, inst, cons, msg in alarms:
                    if (r, inst) in seen: continue
                    seen.add((r, inst))
                    print(f"    {p} {r} | {inst[:90]} | {msg[:230]}")
    print(f"{len(res) - bad} silent, {bad} with alarms, of {len(res)}")
