#!/usr/bin/env python3
"""seed_redetect_fast.py <id-prefix…>: recompute `detected_by` of stored seeds with in-memory overlays (all claimed checks), keeping
the previous value as `first_pass` if none is recorded yet.  Maintenance tool, not a check."""
import json, os, sys, multiprocessing
VERIF = os.path.dirname(os.path.dirname(os.path.abspath(__file__)))
sys.path.insert(0, VERIF); sys.path.insert(0, os.path.join(VERIF, "tools"))
from refactor_eval import overlay_for


def evaluate(sid):
    from formulint.cli import run_property
    from formulint import rules as rules_pkg
    from formulint.core import AnalysisError
    from formulint.report import load_known, match_known
    d = os.path.join(VERIF, "seeded", sid)
    ov = overlay_for(os.path.join(d, "patch.diff"))
    known = load_known()
    fired = {}
    for prop in rules_pkg.CLAIMED:
        try:
            code, ctx = run_property(prop, "quick", "/repo", ov, write_evidence=False, quiet=True)
            rs = sorted({o.rule for o in ctx.failures if not match_known(prop, o, known)})
            if rs:
                fired[prop] = rs
        except AnalysisError as e:
            fired.setdefault("ANALYSIS-ERROR", []).append(f"{prop}: {str(e)[:100]}")
    return sid, fired


if __name__ == "__main__":
    pref = sys.argv[1:]
    ids = sorted(x for x in os.listdir(os.path.join(VERIF, "seeded")) if any(x.startswith(p) or p in x for p in pref))
    with multiprocessing.Pool(14) as pool:
        res = pool.map(evaluate, ids)
    miss = 0
    for sid, fired in res:
        mp = os.path.join(VERIF, "seeded", sid, "meta.json")
        m = json.load(open(mp))
        if "first_pass" not in m:
            fp = m.get("detected_by", {})
            m["first_pass"] = "; ".join(f"{k}: {', '.join(v) if isinstance(v, list) else v}" for k, v in sorted(fp.items()) if k != "ANALYSIS-ERROR") or ("analysis error only" if fp else "missed")
        m["detected_by"] = fired
        json.dump(m, open(mp, "w"), indent=1)
        own = fired.get(m.get("breaks_property"), [])
        if not [k for k in fired if k != "ANALYSIS-ERROR"]:
            miss += 1
        print(sid, "own:", own, "| others:", sorted(k for k in fired if k != m.get("breaks_property")))
    print(f"{len(res) - miss} of {len(res)} reported by at least one check")
