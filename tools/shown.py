import sys, ast
sys.path.insert(0,'/verif')
from formulint.core import Project
from formulint.normalize import Normalizer, StatementNormalizer
import subprocess, tempfile, os, shutil
rid, qual = sys.argv[1], sys.argv[2]
overlay = {}
if rid != 'clean':
    d = '/verif/refactors/'+rid if os.path.isdir('/verif/refactors/'+rid) else '/verif/seeded/'+rid
    sys.path.insert(0,'/verif/tools')
    import refactor_eval
    overlay = refactor_eval.overlay_for(os.path.join(d,'patch.diff')) if hasattr(refactor_eval,'overlay_for') else {}
raw = Project('/repo', overlay=overlay)
nz = Normalizer(raw)
P = Project("/repo", overlay=overlay, normalizer=(StatementNormalizer(nz) if len(sys.argv) > 3 else nz))
f = P.functions[qual]
print(ast.unparse(f.node))
