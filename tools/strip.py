#!/usr/bin/env python3
"""Print a python file without docstrings/comments/blank lines (reading aid, not a check)."""
import ast, sys
src = open(sys.argv[1]).read()
tree = ast.parse(src)
for n in ast.walk(tree):
    if isinstance(n, (ast.FunctionDef, ast.ClassDef, ast.AsyncFunctionDef, ast.Module)) and n.body and isinstance(n.body[0], ast.Expr) and isinstance(n.body[0].value, ast.Constant) and isinstance(n.body[0].value.value, str):
        n.body = n.body[1:] or [ast.Pass()]
lo = int(sys.argv[2]) if len(sys.argv) > 2 else 0
hi = int(sys.argv[3]) if len(sys.argv) > 3 else 10**9
out = ast.unparse(tree).splitlines()
print("\n".join(out[lo:hi]))
