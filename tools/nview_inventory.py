#!/usr/bin/env python3
"""nview_inventory.py [PROP…]: obligations that fail on the CLEAN tree in the normalised views alone (excused by the raw view in a
real run).  Each line is a rule whose statement still depends on how the code is spelt.  Maintenance tool, not a check."""
import os, sys, multiprocessing
VERIF = os.path.dirname(os.path.dirname(os.path.abspath(__file__)))
sys.path.insert(0, VERIF)


def one(arg):
    prop, mode = arg
    for k in ("FORMULINT_RAW_ONLY", "FORMULINT_NORMALISED_ONLY", "FORMULINT_STATEMENTS_ONLY"):
        os.environ.pop(k, None)
    os.environ[mode] = "1"
    from formulint.cli import run_property
    from formulint import rules as rules_pkg
    from formulint.core import AnalysisError
    from formulint.report import load_known, match_known
    known = load_known()
    out = []
    mod = rules_pkg.load(prop)
    run_property  # noqa
    try:
        code, ctx = run_property(prop, "quick", "/repo", None, write_evidence=False, quiet=True)
        for o in ctx.failures:
            if not match_known(prop, o, known):
                out.append((prop, mode[10:13], o.rule, o.instance[:90], o.message[:160]))
    except AnalysisError as e:
        # find which rule: run rule by rule
        for rid, _ in mod.RULES:
            try:
                code, ctx = run_property(prop, "quick", "/repo", None, write_evidence=False, quiet=True, only_rule=rid)
                for o in ctx.failures:
                    if not match_known(prop, o, known):
                        out.append((prop, mode[10:13], o.rule, o.instance[:90], o.message[:160]))
            except AnalysisError as e2:
                out.append((prop, mode[10:13], rid, "ANALYSIS-ERROR", str(e2)[:200]))
    return out


if __name__ == "__main__":
    from formulint.rules import CLAIMED
    props = sys.argv[1:] or CLAIMED
    jobs = [(p, m) for p in props for m in ("FORMULINT_NORMALISED_ONLY", "FORMULINT_STATEMENTS_ONLY")]
    with multiprocessing.Pool(14) as pool:
        res = pool.map(one, jobs)
    n = 0
    seen = set()
    for r in res:
        for row in r:
            k = (row[0], row[2], row[3])
            print(" | ".join(row))
            if k not in seen:
                seen.add(k); n += 1
    print(f"{n} distinct (property, rule, instance) failing in a normalised view")
