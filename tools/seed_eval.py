#!/usr/bin/env python3
"""Evaluate seeded changes (maintenance tool, not a check).

  seed_eval.py confirm <dir>      # dir holds patch.diff + demo.py: in a scratch worktree confirm that the demo passes on the
                                  # original tree, fails with the patch, and that the baseline suite still passes with the patch
  seed_eval.py detect  <dir>...   # apply each patch.diff to /repo (git apply), run every claimed check (quick, no evidence),
                                  # undo (git checkout -- .), and print which properties / rules report a VIOLATION
"""
import json, os, re, shutil, subprocess, sys, tempfile

VERIF = os.path.dirname(os.path.dirname(os.path.abspath(__file__)))
REPO = "/repo"


def sh(cmd, **kw):
    return subprocess.run(cmd, shell=True, capture_output=True, text=True, **kw)


def confirm(d):
    wt = tempfile.mkdtemp(prefix="seedwt_", dir="/tmp")
    os.rmdir(wt)
    try:
        r = sh(f"git -C {REPO} worktree add -q {wt} HEAD")
        assert r.returncode == 0, r.stderr
        env = dict(os.environ, PYTHONPATH=wt, PYTHONDONTWRITEBYTECODE="1")
        demo = os.path.join(d, "demo.py")
        a = subprocess.run(["/venv/bin/python", demo], cwd="/tmp", env=env, capture_output=True, text=True)
        r = sh(f"git -C {wt} apply {os.path.join(d, 'patch.diff')}")
        if r.returncode != 0:
            return {"ok": False, "why": "patch does not apply: " + r.stderr[:200]}
        b = subprocess.run(["/venv/bin/python", demo], cwd="/tmp", env=env, capture_output=True, text=True)
        s = subprocess.run(["/venv/bin/python", os.path.join(VERIF, "tools", "baseline_check.py"), wt], capture_output=True, text=True)
        ok = a.returncode == 0 and b.returncode != 0 and s.returncode == 0
        return {"ok": ok, "demo_original_rc": a.returncode, "demo_patched_rc": b.returncode,
                "demo_patched_out": (b.stdout + b.stderr).strip().splitlines()[-1:] , "suite": s.stdout.strip().splitlines()[-1:] }
    finally:
        sh(f"git -C {REPO} worktree remove --force {wt}")
        shutil.rmtree(wt, ignore_errors=True)


def detect(d):
    patch = os.path.join(d, "patch.diff")
    st = sh(f"git -C {REPO} status --porcelain").stdout.strip()
    assert not st, f"/repo is not clean: {st}"
    r = sh(f"git -C {REPO} apply {patch}")
    if r.returncode != 0:
        return {"applied": False, "why": r.stderr[:200]}
    try:
        out = sh(f"{VERIF}/check --all --no-evidence", cwd=VERIF).stdout
    finally:
        sh(f"git -C {REPO} checkout -- .")
    fired = {}
    cur = None
    for line in out.splitlines():
        m = re.match(r"VIOLATION property=(\w+)", line)
        if m:
            cur = m.group(1)
        m2 = re.match(r"\s+rule\s+(\S+)", line)
        if m2 and cur:
            fired.setdefault(cur, [])
            if m2.group(1) not in fired[cur]:
                fired[cur].append(m2.group(1))
        if line.startswith("ANALYSIS-ERROR"):
            fired.setdefault("ANALYSIS-ERROR", []).append(line[:160])
    return {"applied": True, "fired": fired}


if __name__ == "__main__":
    mode, dirs = sys.argv[1], sys.argv[2:]
    for d in dirs:
        d = os.path.abspath(d)
        res = confirm(d) if mode == "confirm" else detect(d)
        if mode == "redetect":
            mp = os.path.join(d, "meta.json")
            meta = json.load(open(mp))
            meta["detected_by"] = res.get("fired", {})
            json.dump(meta, open(mp, "w"), indent=1)
            print(os.path.basename(d), meta.get("breaks_property"), "->", res.get("fired"))
        else:
            print(os.path.basename(d), json.dumps(res))
