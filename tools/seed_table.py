#!/usr/bin/env python3
"""Regenerate DESIGN.md §10.6 (which check catches which seeded change) from /verif/seeded/*/meta.json."""
import glob, json, os, re
V = os.path.dirname(os.path.dirname(os.path.abspath(__file__)))
rows = []
for d in sorted(glob.glob(os.path.join(V, "seeded", "*"))):
    m = json.load(open(os.path.join(d, "meta.json")))
    det = m.get("detected_by", {})
    own = ", ".join(det.get(m["breaks_property"], [])) or "—"
    others = "; ".join(f"{k}: {', '.join(v)}" for k, v in sorted(det.items()) if k != m["breaks_property"] and k != "ANALYSIS-ERROR") or ""
    first = m.get("first_pass", "")
    summ = re.sub(r"\s+", " ", m.get("summary", ""))[:150].replace("|", "\\|")
    rows.append(f"| {os.path.basename(d)} | {m['breaks_property']} | {summ} | {own} | {others} | {first} |")
table = "| seed | breaks | change (summary) | caught by the property's own check | also caught by | first pass (before strengthening) |\n|---|---|---|---|---|---|\n" + "\n".join(rows)
p = os.path.join(V, "DESIGN.md")
s = open(p).read()
a, b = "<!-- SEED-TABLE-BEGIN -->", "<!-- SEED-TABLE-END -->"
if a in s:
    s = s[:s.index(a) + len(a)] + "\n" + table + "\n" + s[s.index(b):]
else:
    s += f"\n### 10.6 Which check catches which seeded change\n\n{a}\n{table}\n{b}\n"
open(p, "w").write(s)
print(len(rows), "rows")
