#!/usr/bin/env python3
"""In-process re-detection of the stored seeded (property-breaking) changes: every seed must still be reported by a
check of its own property.  seed_fast.py [PROP-prefix ...]"""
import json, os, sys, multiprocessing
VERIF = os.path.dirname(os.path.dirname(os.path.abspath(__file__)))
sys.path.insert(0, VERIF); sys.path.insert(0, os.path.join(VERIF, "tools"))
from refactor_eval import overlay_for

def evaluate(sid):
    from formulint.cli import run_property
    from formulint.core import AnalysisError
    from formulint.report import load_known, match_known
    d = os.path.join(VERIF, "seeded", sid)
    meta = json.load(open(os.path.join(d, "meta.json")))
    prop = meta.get("breaks_property") or sid[:3]
    try:
        ov = overlay_for(os.path.join(d, "patch.diff"))
    except Exception as e:
        return sid, prop, ["PATCH-FAILED " + str(e)[:80]]
    known = load_known()
    try:
        code, ctx = run_property(prop, "quick", "/repo", ov, write_evidence=False, quiet=True)
        fired = sorted({o.rule for o in ctx.failures if not match_known(prop, o, known)})
    except AnalysisError as e:
        fired = ["ANALYSIS-ERROR"]
    except Exception as e:
        fired = ["CRASH " + repr(e)[:100]]
    return sid, prop, fired

if __name__ == "__main__":
    pref = sys.argv[1:]
    ids = sorted(x for x in os.listdir(os.path.join(VERIF, "seeded")) if not pref or any(x.startswith(p) for p in pref))
    with multiprocessing.Pool(14) as pool:
        res = pool.map(evaluate, ids)
    missed = 0
    for sid, prop, fired in res:
        if not fired or fired == ["ANALYSIS-ERROR"] or any(f.startswith(("CRASH", "PATCH")) for f in fired):
            missed += 1
            print(sid, prop, "MISSED" if not fired else fired)
    print(f"{len(res) - missed} detected by their own property's check, {missed} not, of {len(res)}")
