#!/usr/bin/env python3
"""Regenerate /verif/MANIFEST.json from the rule modules that exist (maintenance tool, not a check)."""
import importlib, json, os, sys
HERE = os.path.dirname(os.path.dirname(os.path.abspath(__file__)))
sys.path.insert(0, HERE)
props = [json.loads(l) for l in open(os.path.join(HERE, "properties.jsonl"))]
NA = {
    "C12": "every clause is about real-valued results over a continuum (B-spline / cardinal-spline values, partition of unity, zero training mean) or data-dependent knot selection; no sound static argument in reach bounds floating-point values. The one structural clause (recorded knots/bounds are read before the data is consulted) is decided under C04 (DESIGN §6).",
}
checks, na, served = [], [], []
for p in props:
    pid = p["id"]
    try:
        mod = importlib.import_module(f"formulint.rules.{pid.lower()}")
    except ModuleNotFoundError:
        mod = None
    if pid in NA:
        na.append({"property_id": pid, "reason": NA[pid]})
        continue
    if mod is None or not getattr(mod, "RULES", None):
        na.append({"property_id": pid, "reason": "check not built yet (implementation in progress; see DESIGN.md §8)"})
        continue
    served.append(pid)
    checks.append({
        "property_id": pid,
        "quick_cmd": f"./check {pid} --tier quick",
        "thorough_cmd": f"./check {pid} --tier thorough",
        "evidence_file": f"/verif/evidence/{pid}.json",
        "replay_cmd_template": "./check --replay {path}",
        "engine": "formulint",
        "level_claimed": {"category": "other", "text": getattr(mod, "LEVEL_TEXT", mod.EXPLANATION), "design_ref": f"DESIGN.md §4 {pid}"},
        "level_note": getattr(mod, "LEVEL_NOTE", "Decides structural necessary conditions of the property from the source (every path / every call site / every table row), not the behaviour itself; trusted base: CPython ast, the frozen semantic tables listed in the evidence file's assumptions, and the documented behaviour of numpy/pandas/scipy/narwhals."),
        "technique": getattr(mod, "TECHNIQUE", "static analysis: repository-specific AST/CFG/dataflow rules (formulint)"),
    })
m = {
    "version": 1,
    "setup_cmd": "./check --selfcheck",
    "hooks": {"guard": "FORMULAIC_VERIF", "enable": "none needed: the analysis reads /repo's source; nothing is compiled in and no hook commits exist",
              "baseline_off_cmd": "cd /repo && /venv/bin/python -m pytest -ra -q -p no:cacheprovider --timeout=900 --continue-on-collection-errors",
              "source_commits": [], "add_only": True},
    "engines": [{"name": "formulint", "path": "/verif/formulint", "serves_properties": served,
                 "kind_free_text": "repository-specific static analyser (stdlib ast; own loader/resolver, statement CFG with dominators and reaching definitions, small abstract domains); never imports or runs formulaic"}],
    "checks": checks,
    "notes": "All checks are static (source of /repo's working tree only). exit 0 = all rule instances hold (KNOWN-FINDING lines allowed), exit 1 = VIOLATION, exit 2 = ANALYSIS-ERROR (vanished anchor / checker failure). See DESIGN.md.",
    "not_applicable": na,
}
json.dump(m, open(os.path.join(HERE, "MANIFEST.json"), "w"), indent=1)
print("claimed:", served, "n/a:", [x["property_id"] for x in na])
