#!/usr/bin/env python3
"""why.py <refactor-or-seed id> <PROP>: failures of PROP's rules on that change, per view."""
import os, sys
VERIF = os.path.dirname(os.path.dirname(os.path.abspath(__file__)))
sys.path.insert(0, VERIF); sys.path.insert(0, os.path.join(VERIF, "tools"))
from refactor_eval import overlay_for
from formulint.cli import run_property
from formulint.core import AnalysisError
rid, prop = sys.argv[1], sys.argv[2]
d = os.path.join(VERIF, "refactors" if os.path.isdir(os.path.join(VERIF, "refactors", rid)) else "seeded", rid)
ov = overlay_for(os.path.join(d, "patch.diff")) if rid != "clean" else None
for mode in ("FORMULINT_RAW_ONLY", "FORMULINT_NORMALISED_ONLY", "FORMULINT_STATEMENTS_ONLY"):
    os.environ.pop("FORMULINT_RAW_ONLY", None); os.environ.pop("FORMULINT_NORMALISED_ONLY", None); os.environ.pop("FORMULINT_STATEMENTS_ONLY", None)
    os.environ[mode] = "1"
    print("=====", mode)
    from formulint import rules as rules_pkg
    mod = rules_pkg.load(prop)
    for rid, _ in mod.RULES:
        if len(sys.argv) > 3 and sys.argv[3] not in rid:
            continue
        try:
            code, ctx = run_property(prop, "quick", "/repo", ov, write_evidence=False, quiet=True, only_rule=rid)
            for o in ctx.failures:
                print(f"  {o.rule} | {o.instance[:100]} | {o.message[:400]}")
        except AnalysisError as e:
            print("  ANALYSIS-ERROR", rid, e)
