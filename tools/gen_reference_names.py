#!/usr/bin/env python3
"""Record, for every top-level function / method of /repo's current tree, the hash of its alpha-canonical normal form and
the names of its local variables in canonical order (formulint/normalize.py N10 uses them as a renaming hint).
Run after every change to /repo that the rules are updated for."""
import ast, hashlib, json, os, sys
VERIF = os.path.dirname(os.path.dirname(os.path.abspath(__file__)))
sys.path.insert(0, VERIF)
import formulint.normalize as nz
nz._REF_NAMES = {}  # generate without restoring
from formulint.core import Project
from formulint.util import canon_map
raw = Project("/repo")
N = Project("/repo", normalizer=nz.Normalizer(raw))
out = {}
for q, fi in sorted(N.functions.items()):
    if isinstance(fi.node, ast.Lambda) or fi.parent is not None:
        continue
    text, order = canon_map(fi.node)
    if order:
        out[q] = {"canon": hashlib.sha1(text.encode()).hexdigest(), "names": order}
json.dump(out, open(os.path.join(VERIF, "reference_names.json"), "w"), indent=0, sort_keys=True)
print(len(out), "functions recorded")
