import warnings; warnings.simplefilter("ignore")
import pandas as pd, numpy as np, traceback
from formulaic import Formula, model_matrix, ModelSpec
from formulaic.parser import DefaultFormulaParser
from formulaic.utils.structured import Structured
def run(label, f):
    try:
        r = f()
        print(f"[{label}] ->", r if not hasattr(r,'to_string') else "\n"+r.to_string())
    except Exception as e:
        print(f"[{label}] EXC {type(e).__name__}: {str(e)[:150]}")
p = DefaultFormulaParser(include_intercept=False)
run("1 dot no-intercept", lambda: p.get_terms("y ~ .", context={"__formulaic_variables_available__": ["x","y","z"]}))
run("1b dot intercept", lambda: DefaultFormulaParser().get_terms("y ~ .", context={"__formulaic_variables_available__": ["x","y","z"]}))
run("2 reqvars quoted", lambda: Formula("`a|b` + `c d`").required_variables)
run("2b reqvars", lambda: Formula("y ~ C(x) + log(z) + `a|b`").required_variables)
s = Structured(((1,2),3), b=4)
run("3 flatten", lambda: list(s._flatten()))
run("3 map", lambda: list(s._map(lambda x: x*10)._flatten()))
df = pd.DataFrame({"x":[1.,2.,3.,4.], "A":pd.Categorical(list("abab")), "a":[1.,2.,3.,4.]})
df2 = pd.DataFrame({"x":[10.,20.,30.,50.], "A":pd.Categorical(list("abab")), "a":[1.,2.,3.,4.]})
s0 = ModelSpec(formula=Formula("center(x)"))
run("4 fresh on df2", lambda: ModelSpec(formula=Formula("center(x)")).get_model_matrix(df2))
_ = s0.get_model_matrix(df)
run("4 s0 after df", lambda: s0.get_model_matrix(df2))
run("4 s0.transform_state", lambda: s0.transform_state)
# 5 non-unique index
d5 = pd.DataFrame({"x":[1.,np.nan,3.,4.]}, index=[0,1,1,2])
run("5 nonunique idx", lambda: model_matrix("x", d5))
# 6 drop_rows forwarding
d6 = pd.DataFrame({"y":[1.,2.,3.,4.],"x":[1.,np.nan,3.,4.]})
dr=set(); mm = model_matrix("y ~ x", d6, drop_rows=dr); print("6 two-sided dr:", dr)
dr=set(); mm = model_matrix("x", d6, drop_rows=dr); print("6 one-sided dr:", dr)
dr=set(); mm = ModelSpec(formula=Formula("x")).get_model_matrix(d6, drop_rows=dr, output="numpy"); print("6 overrides dr:", dr)
dr={0}; mm = model_matrix("y ~ x", d6, drop_rows=dr); print("6 two-sided dr {0}:", dr, mm.rhs.shape)
# 7 hashed
run("7 hashed with drop", lambda: model_matrix("hashed(x, levels=3) + y", pd.DataFrame({"x":["a","b","c","d"],"y":[1.,np.nan,3.,4.]})).shape)
# 8 kind guard
tr = pd.DataFrame({"A":pd.Categorical(list("abc")), "y":[1.,2.,3.]})
mm = model_matrix("A", tr)
run("8 kind", lambda: mm.model_spec.get_model_matrix(pd.DataFrame({"A":[5.,6.,7.]})))
# 9 B:A
d9 = pd.DataFrame({"B":[1.,2.,3.],"A":[2.,3.,4.]})
mm9 = model_matrix("0 + B:A", d9, ); 
print("9 terms", mm9.model_spec.terms, [repr(t) for t in mm9.model_spec.terms])
run("9 term_indices", lambda: mm9.model_spec.term_indices["B:A"])
run("9 get_slice", lambda: mm9.model_spec.get_slice("B:A"))
run("9 A:B", lambda: mm9.model_spec.get_slice("A:B"))
# 10
run("10 2.5:a noFR", lambda: model_matrix("0 + 2.5:a", df, ensure_full_rank=False))
run("10 2.5:a FR", lambda: model_matrix("0 + 2.5:a", df))
# 11
d11 = pd.DataFrame({"A":["a","b","c"]}); print(d11.dtypes)
run("11 string", lambda: model_matrix("A", d11))
