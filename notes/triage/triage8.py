import warnings; warnings.simplefilter("ignore")
from formulaic import Formula
for f in ["a**00", "a**0.0", "a**000", "(a+b)**00", "a**01", "a**True", "a**1j"]:
    try: print(repr(f), "OK", Formula(f))
    except Exception as e: print(repr(f), "EXC", type(e).__name__, str(e).split("\n")[0][:80])
