"""Hand-run confirmation (NOT a check) that each `fix:` commit corrects the failing input of DESIGN §5."""
import warnings, pickle
import numpy as np, pandas as pd
from formulaic import Formula, model_matrix, ModelSpec
from formulaic.parser import DefaultFormulaParser
from formulaic.errors import FormulaSyntaxError, FormulaParsingError
from formulaic.utils.structured import Structured
warnings.simplefilter("ignore")
def show(label, f):
    try: r = f()
    except Exception as e: r = f"{type(e).__name__}: {str(e).splitlines()[0][:70]}"
    print(f"{label:38s} -> {r}")
df = pd.DataFrame({"a":[1.,2,3,4],"b":[2.,3,4,5],"A":list("xyxy"),"y":[1.,2,3,4]})
show("1 a:--b", lambda: Formula("a:--b"))
show("1 noint a ~ --b", lambda: DefaultFormulaParser(include_intercept=False).get_terms("a ~ --b"))
show("2 a**(1+2)", lambda: Formula("a**(1+2)"))
show("4 2.5:a fullrank off", lambda: model_matrix("0+2.5:a", df, ensure_full_rank=False)["a"].tolist())
def f5():
    d = df.copy(); d.loc[1,"a"]=np.nan; s=set(); model_matrix("y ~ a", d, drop_rows=s); return s
show("5 drop_rows y~a", f5)
def f5b():
    d = df.copy(); d.loc[1,"a"]=np.nan; s=set(); ms=model_matrix("a", df).model_spec; ms.get_model_matrix(d, drop_rows=s, output="numpy"); return s
show("5 drop_rows overrides", f5b)
def f6():
    d = df.copy(); d.index=[0,0,1,1]; d.loc[d.index[0],"a"]=np.nan; d.iloc[1,0]=5.; d.iloc[0,0]=np.nan
    return model_matrix("a + C(A)", d).shape
show("6 nonunique index", f6)
def f7():
    d = df.copy(); d.loc[1,"y"]=np.nan; return model_matrix("hashed(A, levels=3) + y", d).shape
show("7 hashed + null", f7)
show("8 str dtype", lambda: list(model_matrix("A", df).columns))
for s in ["a**(0)","a**00","(a-a)/b","(a]","f(``)","a**1.5.2","a**01"]:
    show("9-13 "+s, lambda s=s: Formula(s))
show("11 noint y ~ .", lambda: DefaultFormulaParser(include_intercept=False).get_terms("y ~ .", context={"__formulaic_variables_available__":["y","a","b"]}))
def f15():
    mm = model_matrix("A", df); d2 = df.assign(A=[1.,2,3,4]); return mm.model_spec.get_model_matrix(d2)
show("15 kind change", f15)
show("17 exp10", lambda: model_matrix("0+exp10(a)", df).iloc[:,0].tolist())
show("18 required `a|b`", lambda: Formula("`a|b` + `c d`").required_variables)
def f19():
    s0 = ModelSpec(formula="center(a)"); m1 = s0.get_model_matrix(df); m2 = s0.get_model_matrix(df.assign(a=df.a+10)); return m2["center(a)"].tolist(), s0.transform_state
show("19 unfitted spec twice", f19)
show("20 flatten", lambda: list(Structured(((1,2),3))._flatten()))
def f22():
    import pyarrow as pa; return model_matrix("C(A)", pa.table({"A":["x","x","x"]})).shape
show("22 narwhals single-level C(A)", f22)
def f23():
    d = pd.DataFrame({"my var":[1.,2,3],"my_var":[5.,5,5]}); mm = model_matrix("center(`my var`)", d); return list(mm.model_spec.transform_state), mm.model_spec.get_model_matrix(d.assign(**{"my var":[11.,12,13]})).iloc[:,1].tolist()
show("23 alias suffix", f23)
