import warnings; warnings.simplefilter("ignore")
import pandas as pd, numpy as np, pyarrow as pa
from formulaic import model_matrix
df = pd.DataFrame({"b":[True,False,True], "x":[1.,2.,3.], "A": pd.Categorical(["u","v","u"]), "s": pd.Series(["p","q","p"], dtype=object)})
for m in ("pandas","narwhals"):
    try:
        print(m, "\n", model_matrix("b + x + A + s", df, materializer=m, output="pandas"))
    except Exception as e:
        print(m, "EXC", type(e).__name__, e)
try:
    t = pa.Table.from_pandas(df)
    print("arrow\n", model_matrix("b + x + A + s", t, output="pandas"))
except Exception as e:
    print("arrow EXC", type(e).__name__, str(e)[:200])
