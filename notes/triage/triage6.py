import warnings; warnings.simplefilter("ignore")
import pandas as pd, numpy as np, pyarrow as pa
from formulaic import model_matrix
df = pd.DataFrame({"A": ["u","u","u"], "B":["p","q","p"], "x":[1.,2.,3.]})
t = pa.Table.from_pandas(df)
for f in ["C(A)", "A", "C(B)", "B", "C(A) + x"]:
    for data, name in ((t,"arrow"),(df,"pandas")):
        try:
            r = model_matrix(f, data)
            print(name, f, type(r.__wrapped__).__name__, getattr(r,'shape',None), list(r.model_spec.column_names))
        except Exception as e:
            print(name, f, "EXC", type(e).__name__, str(e)[:120])
