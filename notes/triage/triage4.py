import warnings; warnings.simplefilter("ignore")
from formulaic import Formula
for f in ["a**1.5.2", "a**2.2.", "a**.", "a**..", "1..2:a", "a**1_0", "a**0x1", "a**1e3", "(a+b)**`2`", "a**{2}", "a**I(2)", "a**(2)", "a**(1+2)", "a**(2:1)", "a**(2:a)"]:
    try:
        print(repr(f), "OK", Formula(f))
    except Exception as e:
        print(repr(f), "EXC", type(e).__name__, str(e).split("\n")[0][:80])
