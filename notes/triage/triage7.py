import warnings; warnings.simplefilter("ignore")
import pandas as pd, numpy as np
from formulaic import model_matrix
df = pd.DataFrame({"my var":[1.,2.,3.], "my_var":[10.,20.,30.]})
mm = model_matrix("center(`my var`)", df)
print(mm.model_spec.transform_state)
df2 = pd.DataFrame({"my var":[100.,200.,300.], "my_var":[10.,20.,30.]})
mm2 = mm.model_spec.get_model_matrix(df2)
print(mm2)
print(mm2.model_spec.transform_state.keys())
