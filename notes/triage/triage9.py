import warnings; warnings.simplefilter("ignore")
import pandas as pd, numpy as np
from formulaic import Formula, ModelSpec, ModelSpecs
df = pd.DataFrame({"y":[1.,2.,3.,4.], "x":[1.,np.nan,3.,4.]})
specs = ModelSpecs(lhs=ModelSpec(formula=Formula("y").root if False else ["y"], materializer="pandas"), rhs=ModelSpec(formula=["x"], materializer="narwhals", output="pandas"))
mm = specs.get_model_matrix(df)
print(mm.lhs.shape, mm.rhs.shape)
specs2 = ModelSpecs(lhs=ModelSpec(formula=["y"]), rhs=ModelSpec(formula=["x"]))
mm2 = specs2.get_model_matrix(df); print(mm2.lhs.shape, mm2.rhs.shape)
