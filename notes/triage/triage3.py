import warnings; warnings.simplefilter("ignore")
from formulaic.parser import DefaultFormulaParser
p = DefaultFormulaParser(feature_flags={"all"} if False else DefaultFormulaParser.FeatureFlags.ALL)
for f in ["[a ~ b] + c", "[[a ~ b] ~ c]", "[a ~ b | c]", "[(a|b) ~ c]", "y ~ [a ~ b + c] + d", "(a | b) + c", "a | b ~ c", "~ a | b", "'x' + a", "a + 2", "3:a + 2:a", "a ~ b ~ c", "a | (b ~ c)", "`", "{", "a +", "+", "a b", "a:", "%in%", "a %in", "a %% b", "[a]", "a.b", ".", "a.", "1.5.2:a", "a**1.5", "a**-1", "a**'x'", "a**2.", "{a + }", "f(a +)", "a ++ ++ b", "- - a", "~", "~ ~ a", "a ~ ~ b", "|", "a | | b"]:
    try:
        r = p.get_terms(f)
        print(repr(f), "OK", str(r).replace("\n"," / ")[:80])
    except Exception as e:
        print(repr(f), "EXC", type(e).__mro__[1].__name__ + "<" + type(e).__name__, str(e).split("\n")[0][:70])
