import warnings; warnings.simplefilter("ignore")
import pandas as pd, numpy as np
from formulaic import Formula, model_matrix
from formulaic.parser import DefaultFormulaParser
def t(f):
    try:
        return Formula(f)
    except Exception as e:
        return f"{type(e).__name__}: {str(e)[:60]}"
for f in ["a:--b","a*++b","a:-b","a + -b", "a--b","a-+b", "a+-+b", "a**2**1", "(a+b)**1**2", "(a]","a**(0)","(a-a)/b","f(``)", "a**0", "a %in% b", "a/b/c", "a/(b+c)", "(a+b)/c", "-a", "+a", "a + (-b)", "a:(-b)", "a*(b-b)"]:
    print(repr(f), '->', repr(t(f)))
p = DefaultFormulaParser(include_intercept=False)
for f in ["a ~ --b", "a ~ -b", "a~+b", "a ~ b", "~ --b"]:
    try: print(repr(f), '->', p.get_terms(f))
    except Exception as e: print(repr(f), type(e).__name__, e)
