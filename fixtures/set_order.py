# Positive fixture for C18.R2: ordered consumers of a hash-ordered collection that the matcher must flag.
def a(names: set[str]):
    return [n.upper() for n in names]


def b(items):
    pool = set(items)
    out = []
    for x in pool:
        out.append(x)
    return out


def c(left: set[str], right: set[str]):
    return ":".join(v for v in left | right)
