# Positive fixture for C18.R5: sources of nondeterminism the matcher must recognise.
import random
import time

import numpy


def a(base):
    return base + "_" + "".join(numpy.random.choice(list("abc"), 10))


def b(x):
    return x + random.random()


def c(obj):
    return f"{id(obj)}_{time.time()}"
