# Positive fixture for C06.R2: label-based row-removal idioms the matcher must recognise on every run
# (the expected match count in /repo is zero, so the rule would otherwise pass vacuously).
def a(values, indices):
    return values.drop(index=values.index[indices])


def b(index, frame, drop_rows):
    return index.drop(frame.index[drop_rows])


def c(values, indices):
    return values.loc[values.index.difference(values.index[indices])]


def d(values, keep):
    return values.reindex(values.index[keep])
