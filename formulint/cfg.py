"""formulint.cfg — statement-level control-flow graph for one function body.

Nodes are ``ast.stmt`` objects (a compound statement's node stands for the
evaluation of its header: the ``if`` / ``while`` test, the ``for`` iterator step,
the ``with`` items, the ``try`` entry).  Two sentinels: ENTRY and EXIT.  Edges
carry a label: ``"T"`` / ``"F"`` out of a test, ``"loop"`` / ``"done"`` out of a
``for`` header, ``"exc"`` for a jump into an exception handler, ``"return"`` /
``"raise"`` into EXIT, ``""`` otherwise.

Only the statement kinds the analysed repository uses are modelled; anything
else raises AnalysisError.  Nested function / class definitions are single
nodes (their bodies have their own CFG).
"""
from __future__ import annotations

import ast
from typing import Callable, Dict, Iterable, List, Optional, Set, Tuple

from .core import AnalysisError

ENTRY = "<entry>"
EXIT = "<exit>"


class CFG:
    def __init__(self, fn: ast.AST, *, prune: Optional[Callable[[ast.expr], Optional[bool]]] = None):
        """``prune(test)`` may return True/False to fold a branch test (used for
        constant propagation of a partial environment), or None."""
        self.fn = fn
        self.prune = prune
        self.succ: Dict[object, List[Tuple[object, str]]] = {ENTRY: [], EXIT: []}
        self.pred: Dict[object, List[Tuple[object, str]]] = {ENTRY: [], EXIT: []}
        self.nodes: Dict[int, ast.stmt] = {}
        body = fn.body if isinstance(fn.body, list) else [ast.Return(value=fn.body, lineno=fn.lineno, col_offset=0)]
        frontier = self._block(body, [(ENTRY, "")], loop=None, handlers=[])
        for src, lab in frontier:
            self._edge(src, EXIT, "fallthrough")
        self._reach = self._reachable_from(ENTRY)
        self._dom: Optional[Dict[object, Set[object]]] = None
        self._pdom: Optional[Dict[object, Set[object]]] = None

    # ------------------------------------------------------------- construction
    def _key(self, st: ast.stmt):
        k = id(st)
        if k not in self.nodes:
            self.nodes[k] = st
            self.succ.setdefault(k, [])
            self.pred.setdefault(k, [])
        return k

    def _edge(self, a, b, label=""):
        if (b, label) not in self.succ[a]:
            self.succ[a].append((b, label))
            self.pred[b].append((a, label))

    def _connect(self, frontier, st) -> object:
        k = self._key(st)
        for src, lab in frontier:
            self._edge(src, k, lab)
        return k

    def _block(self, body, frontier, loop, handlers):
        for st in body:
            if not frontier:
                # unreachable code: still register nodes so lookups work, but no edges in
                frontier = []
            frontier = self._stmt(st, frontier, loop, handlers)
        return frontier

    def _fold(self, test) -> Optional[bool]:
        if self.prune is None:
            return None
        return self.prune(test)

    def _stmt(self, st, frontier, loop, handlers):
        k = self._connect(frontier, st)
        # any statement inside a try body may raise into the handlers
        for h in handlers[-1:] if handlers else []:
            for hk in h:
                self._edge(k, hk, "exc")
        if isinstance(st, ast.If):
            folded = self._fold(st.test)
            out = []
            if folded is not False:
                out += self._block(st.body, [(k, "T")], loop, handlers)
            if folded is not True:
                if st.orelse:
                    out += self._block(st.orelse, [(k, "F")], loop, handlers)
                else:
                    out.append((k, "F"))
            return out
        if isinstance(st, (ast.For, ast.AsyncFor)):
            brk: List[Tuple[object, str]] = []
            ctx = {"head": k, "breaks": brk}
            body_out = self._block(st.body, [(k, "loop")], ctx, handlers)
            for src, lab in body_out:
                self._edge(src, k, lab or "back")
            done = [(k, "done")]
            if st.orelse:
                done = self._block(st.orelse, done, loop, handlers)
            return done + brk
        if isinstance(st, ast.While):
            brk = []
            ctx = {"head": k, "breaks": brk}
            folded = self._fold(st.test)
            infinite = is_true_const(st.test) or folded is True
            body_out = self._block(st.body, [(k, "T")], ctx, handlers) if folded is not False else []
            for src, lab in body_out:
                self._edge(src, k, lab or "back")
            done = [] if infinite else [(k, "F")]
            if st.orelse and done:
                done = self._block(st.orelse, done, loop, handlers)
            return done + brk
        if isinstance(st, ast.Break):
            if loop is None:
                raise AnalysisError("break outside loop")
            loop["breaks"].append((k, "break"))
            return []
        if isinstance(st, ast.Continue):
            if loop is None:
                raise AnalysisError("continue outside loop")
            self._edge(k, loop["head"], "continue")
            return []
        if isinstance(st, ast.Return):
            self._edge(k, EXIT, "return")
            return []
        if isinstance(st, ast.Raise):
            if handlers:
                for hk in handlers[-1]:
                    self._edge(k, hk, "exc")
                # a raise may also escape if no handler matches; recorded as raise edge
            self._edge(k, EXIT, "raise")
            return []
        if isinstance(st, (ast.With, ast.AsyncWith)):
            return self._block(st.body, [(k, "")], loop, handlers)
        if isinstance(st, ast.Try) or st.__class__.__name__ == "TryStar":
            hkeys = [self._key(h_first(h)) for h in st.handlers]
            body_out = self._block(st.body, [(k, "")], loop, handlers + [hkeys] if hkeys else handlers)
            if st.orelse:
                body_out = self._block(st.orelse, body_out, loop, handlers)
            outs = list(body_out)
            for h, hk in zip(st.handlers, hkeys):
                # handler entry node is its first statement; edges into it were added as "exc"
                self._edge(k, hk, "exc")
                rest = self._block(h.body[1:], self._stmt_out(h.body[0], hk, loop, handlers), loop, handlers)
                outs += rest
            if st.finalbody:
                outs = self._block(st.finalbody, outs, loop, handlers)
            return outs
        if isinstance(st, ast.Match):  # pragma: no cover - not used by the repo
            raise AnalysisError("match statement not modelled")
        # simple statements, nested defs/classes
        return [(k, "")]

    def _stmt_out(self, st, k, loop, handlers):
        """Out-frontier of an already-connected statement node k (used for handler heads)."""
        # re-run _stmt logic without re-connecting predecessors
        return self._stmt(st, [], loop, handlers)

    # ------------------------------------------------------------- queries
    def _reachable_from(self, start) -> Set[object]:
        seen, todo = {start}, [start]
        while todo:
            n = todo.pop()
            for m, _ in self.succ.get(n, []):
                if m not in seen:
                    seen.add(m)
                    todo.append(m)
        return seen

    def reachable(self, st: ast.stmt) -> bool:
        return id(st) in self._reach

    def stmts(self) -> List[ast.stmt]:
        return [self.nodes[k] for k in self.nodes if k in self._reach]

    def _dominators(self, forward: bool) -> Dict[object, Set[object]]:
        start = ENTRY if forward else EXIT
        edges = self.pred if forward else self.succ
        allnodes = set(self._reach) | {EXIT}
        if not forward:
            # only nodes that can reach EXIT
            can = {EXIT}
            todo = [EXIT]
            while todo:
                n = todo.pop()
                for m, _ in self.pred.get(n, []):
                    if m not in can:
                        can.add(m)
                        todo.append(m)
            allnodes = can
        dom = {n: set(allnodes) for n in allnodes}
        dom[start] = {start}
        changed = True
        while changed:
            changed = False
            for n in allnodes:
                if n == start:
                    continue
                ps = [p for p, _ in edges.get(n, []) if p in allnodes]
                new = set.intersection(*(dom[p] for p in ps)) if ps else set()
                new = new | {n}
                if new != dom[n]:
                    dom[n] = new
                    changed = True
        return dom

    def dominates(self, a: ast.stmt, b: ast.stmt) -> bool:
        """Every path ENTRY -> b passes through a."""
        if self._dom is None:
            self._dom = self._dominators(True)
        return id(a) in self._dom.get(id(b), set())

    def postdominates(self, a: ast.stmt, b: ast.stmt) -> bool:
        """Every path b -> EXIT passes through a."""
        if self._pdom is None:
            self._pdom = self._dominators(False)
        return id(a) in self._pdom.get(id(b), set())

    def path_avoiding(self, src, is_target: Callable[[object, str], bool],
                      avoid: Callable[[object], bool], *, edge_ok: Optional[Callable[[object, object, str], bool]] = None
                      ) -> Optional[List[object]]:
        """A witness path from ``src`` (node key or ENTRY) to an edge (n -> m, label) with
        ``is_target(m, label)`` that never *enters* a node for which ``avoid`` holds; else None."""
        start = src if src in (ENTRY, EXIT) else (id(src) if not isinstance(src, int) else src)
        prev: Dict[object, object] = {start: None}
        todo = [start]
        while todo:
            n = todo.pop(0)
            for m, lab in self.succ.get(n, []):
                if edge_ok is not None and not edge_ok(n, m, lab):
                    continue
                if is_target(m, lab):
                    path = [m, n]
                    while prev[path[-1]] is not None:
                        path.append(prev[path[-1]])
                    return list(reversed(path))
                if m in prev or m == EXIT:
                    continue
                if m != EXIT and avoid(self.nodes[m] if m in self.nodes else m):
                    continue
                prev[m] = n
                todo.append(m)
        return None

    def describe(self, path: Iterable[object]) -> List[str]:
        out = []
        for p in path:
            if p in (ENTRY, EXIT):
                out.append(str(p))
            else:
                st = self.nodes[p]
                txt = ast.unparse(st).splitlines()[0]
                out.append(f"L{st.lineno}: {txt[:90]}")
        return out

    def must_pass(self, is_gate: Callable[[ast.stmt], bool], *, to_labels=("return", "fallthrough"),
                  src=ENTRY) -> Optional[List[str]]:
        """None if every path from src to EXIT via an edge labelled in ``to_labels`` passes
        through a gate statement; otherwise a witness path (described)."""
        p = self.path_avoiding(src, lambda m, lab: m == EXIT and lab in to_labels, is_gate)
        return None if p is None else self.describe(p)


def h_first(h: ast.ExceptHandler) -> ast.stmt:
    return h.body[0]


def is_true_const(e: ast.expr) -> bool:
    return isinstance(e, ast.Constant) and e.value is True


def _binds(st: ast.stmt, name: str) -> bool:
    """Does the CFG node of ``st`` (its header) bind ``name``?"""
    from .util import header_exprs
    if isinstance(st, (ast.Assign, ast.AnnAssign, ast.AugAssign, ast.Delete)):
        targets = st.targets if isinstance(st, (ast.Assign, ast.Delete)) else [st.target]
        for t in targets:
            for n in ast.walk(t):
                if isinstance(n, ast.Name) and n.id == name and isinstance(n.ctx, (ast.Store, ast.Del)):
                    return True
        # walrus inside value
    if isinstance(st, (ast.For, ast.AsyncFor)):
        for n in ast.walk(st.target):
            if isinstance(n, ast.Name) and n.id == name:
                return True
    if isinstance(st, (ast.With, ast.AsyncWith)):
        for i in st.items:
            if i.optional_vars is not None:
                for n in ast.walk(i.optional_vars):
                    if isinstance(n, ast.Name) and n.id == name:
                        return True
    if isinstance(st, (ast.FunctionDef, ast.AsyncFunctionDef, ast.ClassDef)) and st.name == name:
        return True
    if isinstance(st, (ast.Import, ast.ImportFrom)):
        for a in st.names:
            if (a.asname or a.name.split(".")[0]) == name:
                return True
    for e in header_exprs(st):
        for n in ast.walk(e):
            if isinstance(n, ast.NamedExpr) and isinstance(n.target, ast.Name) and n.target.id == name:
                return True
    return False


def reaching_defs(cfg: CFG, at: ast.stmt, name: str) -> List[object]:
    """Statements (or ENTRY for 'the parameter / free variable') whose binding of ``name``
    may reach the evaluation of ``at`` (not counting ``at`` itself unless via a loop)."""
    out: List[object] = []
    seen = set()
    todo = [p for p, _ in cfg.pred.get(id(at), [])]
    while todo:
        n = todo.pop()
        if n in seen:
            continue
        seen.add(n)
        if n == ENTRY:
            out.append(ENTRY)
            continue
        st = cfg.nodes[n]
        if _binds(st, name):
            out.append(st)
            continue
        todo.extend(p for p, _ in cfg.pred.get(n, []))
    return out
