"""formulint.expect — "this function still does these things, in this order, under these conditions".

``contains(project, fi, expected_src)`` compares the *normal form* of a function (formulint.normalize: temporaries,
guard style, conditional expressions, accumulate loops, extracted private helpers, keyword/positional arguments,
annotations) with the normal form of an expected skeleton written as ordinary Python.  The skeleton's statements must
occur in the function as an ordered sub-sequence, compound statements matching on their header with their bodies
matched recursively; additional statements anywhere are tolerated.  Names bound locally in the skeleton are
metavariables (consistent renaming of locals does not matter); a statement `...` in the skeleton stands for "other
statements may follow here" (it keeps the preceding statement from being the last of its block when the skeleton is
normalised); the function's own parameters, attributes, globals and
call targets are literal.  The text of messages in ``raise`` / ``warnings.warn`` is ignored.
"""
from __future__ import annotations

import ast
import copy
import textwrap
from typing import Dict, List, Optional, Tuple

from .core import FunctionInfo, Project, norm
from .sym import _PM


_NORMALIZERS: Dict[int, object] = {}


def _normalizer_for(P: Project):
    if P.normalizer is not None:
        return P.normalizer
    nz = _NORMALIZERS.get(id(P))
    if nz is None:
        from .normalize import Normalizer
        nz = _NORMALIZERS[id(P)] = Normalizer(P)
        if len(_NORMALIZERS) > 8:
            for k in list(_NORMALIZERS)[:-4]:
                _NORMALIZERS.pop(k, None)
    return nz


def _normalise_function(P: Project, fi: FunctionInfo, fn: ast.AST, already: bool) -> ast.AST:
    if already:
        return fn
    nz = _normalizer_for(P)
    mod = ast.Module(body=[copy.deepcopy(fn)], type_ignores=[])
    raw_mi = nz.P.modules.get(fi.module.name)
    saved = getattr(nz, "_mi", None)
    nz._mi = raw_mi
    try:
        out = nz._module(mod)
    finally:
        nz._mi = saved
    for n in out.body:
        if isinstance(n, (ast.FunctionDef, ast.AsyncFunctionDef)):
            return n
    return out.body[0]


class _Blank(ast.NodeTransformer):
    """Message texts do not matter."""

    def visit_Raise(self, n):
        self.generic_visit(n)
        if isinstance(n.exc, ast.Call):
            n.exc = ast.Call(func=n.exc.func, args=[], keywords=[])
        n.cause = None
        return n

    def visit_Call(self, n):
        self.generic_visit(n)
        if norm(n.func) in ("warnings.warn", "warn"):
            n.args = [a for a in n.args if not isinstance(a, (ast.Constant, ast.JoinedStr))]
        return n

    def visit_AnnAssign(self, n):
        self.generic_visit(n)
        if n.value is not None:
            return ast.copy_location(ast.Assign(targets=[n.target], value=n.value), n)
        return n


def _strip_doc(body: List[ast.stmt]) -> List[ast.stmt]:
    if body and isinstance(body[0], ast.Expr) and isinstance(body[0].value, ast.Constant) and isinstance(body[0].value.value, str):
        return body[1:]
    return body


def _locals_of(fn: ast.AST) -> set:
    names = set()
    own = set()
    if hasattr(fn, "args"):
        own = {x.arg for x in ast.walk(fn.args) if isinstance(x, ast.arg)}
    for n in ast.walk(fn):
        if isinstance(n, ast.Name) and isinstance(n.ctx, (ast.Store, ast.Del)):
            names.add(n.id)
        elif isinstance(n, ast.arg):
            names.add(n.arg)
        elif isinstance(n, (ast.FunctionDef, ast.AsyncFunctionDef)) and n is not fn:
            names.add(n.name)
        elif isinstance(n, ast.ExceptHandler) and n.name:
            names.add(n.name)
    return names - own


class _Meta(ast.NodeTransformer):
    def __init__(self, names):
        self.names = names

    def visit_Name(self, n):
        if n.id in self.names:
            n.id = "VAR_" + n.id
        return n

    def visit_arg(self, n):
        if n.arg in self.names:
            n.arg = "VAR_" + n.arg
        n.annotation = None
        return n

    def visit_FunctionDef(self, n):
        if n.name in self.names:
            n.name = "VAR_" + n.name
        n.returns = None
        n.decorator_list = []
        self.generic_visit(n)
        return n

    def visit_ExceptHandler(self, n):
        if n.name and n.name in self.names:
            n.name = "VAR_" + n.name
        self.generic_visit(n)
        return n


class _ScopeComprehensions(ast.NodeTransformer):
    """Comprehension variables live in their own scope: in the skeleton each comprehension's targets get names of their own,
    so they become metavariables independent of a like-named local of the function (`for node in [f(node) for node in xs]`
    matches `for node in [f(c) for c in xs]`)."""

    def __init__(self):
        self.k = 0

    def _comp(self, n):
        self.k += 1
        tag = f"__c{self.k}"
        bound = {x.id for g in n.generators for x in ast.walk(g.target) if isinstance(x, ast.Name)}

        class R(ast.NodeTransformer):
            def visit_Name(self, m):
                if m.id in bound:
                    m.id = m.id + tag
                return m
        r = R()
        first = n.generators[0].iter
        for field, val in ast.iter_fields(n):
            if field == "generators":
                for i, g in enumerate(val):
                    g.target = r.visit(g.target)
                    if i > 0:
                        g.iter = r.visit(g.iter)
                    g.ifs = [r.visit(x) for x in g.ifs]
            elif isinstance(val, ast.AST):
                setattr(n, field, r.visit(val))
        n.generators[0].iter = first
        self.generic_visit(n)
        return n

    visit_ListComp = visit_SetComp = visit_DictComp = visit_GeneratorExp = _comp


HEADER_FIELDS = {
    ast.If: ("test",), ast.While: ("test",), ast.For: ("target", "iter"), ast.AsyncFor: ("target", "iter"),
    ast.With: ("items",), ast.AsyncWith: ("items",), ast.Try: (), ast.FunctionDef: ("args",), ast.AsyncFunctionDef: ("args",),
}
BLOCK_FIELDS = ("body", "orelse", "finalbody")


def _match_header(m: _PM, p: ast.stmt, a: ast.stmt) -> bool:
    if type(p) is not type(a):
        return False
    if isinstance(p, (ast.FunctionDef, ast.AsyncFunctionDef)):
        if not (p.name.startswith("VAR_") and m._bind(p.name, ast.Name(id=a.name, ctx=ast.Load()))) and p.name != a.name:
            return False
    for f in HEADER_FIELDS[type(p)]:
        pv, av = getattr(p, f), getattr(a, f)
        if isinstance(pv, list):
            if len(pv) != len(av) or not all(m.match(x, y) for x, y in zip(pv, av)):
                return False
        elif not m.match(pv, av):
            return False
    return True


def _match_block(pats: List[ast.stmt], acts: List[ast.stmt], binds: Dict[str, str], budget: List[int]) -> Optional[Dict[str, str]]:
    """Ordered sub-sequence match with backtracking; returns the extended bindings or None."""
    pats = [p for p in pats if not (isinstance(p, ast.Expr) and isinstance(p.value, ast.Constant) and p.value.value is Ellipsis)]
    if not pats:
        return binds
    if budget[0] <= 0:
        return None
    p = pats[0]
    for j, a in enumerate(acts):
        budget[0] -= 1
        if budget[0] <= 0:
            return None
        m = _PM(binds)
        if type(p) in HEADER_FIELDS:
            if not _match_header(m, p, a):
                continue
            b = m.b
            ok = True
            for f in BLOCK_FIELDS:
                pb = getattr(p, f, None) or []
                if pb:
                    b = _match_block(list(pb), list(getattr(a, f, None) or []), b, budget)
                    if b is None:
                        ok = False
                        break
            if ok and isinstance(p, ast.Try):
                for ph in p.handlers:
                    hit = None
                    for ah in a.handlers:
                        mh = _PM(b)
                        if (ph.type is None or (ah.type is not None and mh.match(ph.type, ah.type))):
                            hb = _match_block(list(ph.body), list(ah.body), mh.b, budget)
                            if hb is not None:
                                hit = hb
                                break
                    if hit is None:
                        ok = False
                        break
                    b = hit
            if not ok:
                continue
        else:
            if not m.match(p, a):
                continue
            b = m.b
        rest = _match_block(pats[1:], acts[j + 1:], b, budget)
        if rest is not None:
            return rest
    return None


def _first_unmatched(pats: List[ast.stmt], acts: List[ast.stmt]) -> str:
    """For the message: the first skeleton statement that cannot be matched at all (ignoring order / bindings)."""
    flat_a = [n for s in acts for n in ast.walk(s) if isinstance(n, ast.stmt)]
    for p in [n for s in pats for n in ast.walk(s) if isinstance(n, ast.stmt)]:
        hit = False
        for a in flat_a:
            m = _PM({})
            if (type(p) in HEADER_FIELDS and _match_header(m, p, a)) or (type(p) not in HEADER_FIELDS and m.match(p, a)):
                hit = True
                break
        if not hit:
            t = norm(p)
            return t[:160].replace("VAR_", "")
    return "(every statement occurs somewhere, but not in this order / nesting / with consistent names)"


def contains(P: Project, fi: FunctionInfo, expected_src: str) -> Tuple[bool, str]:
    """(ok, explanation).  See the module docstring."""
    actual = _normalise_function(P, fi, fi.node, already=P.normalizer is not None)
    actual = _Blank().visit(copy.deepcopy(actual))
    exp_mod = ast.parse(textwrap.dedent(expected_src))
    exp_fn = exp_mod.body[0]
    exp_fn = _normalise_function(P, fi, exp_fn, already=False)
    exp_fn = _Blank().visit(copy.deepcopy(exp_fn))
    exp_fn = _ScopeComprehensions().visit(exp_fn)
    exp_fn = _Meta(_locals_of(exp_fn)).visit(exp_fn)
    ast.fix_missing_locations(exp_fn)
    ast.fix_missing_locations(actual)
    pats, acts = _strip_doc(list(exp_fn.body)), _strip_doc(list(actual.body))
    b = _match_block(pats, acts, {}, [20000])
    if b is not None:
        return True, ""
    return False, "no longer present (in normal form): `" + _first_unmatched(pats, acts) + "`"


def contains_any(P: Project, fi: FunctionInfo, alternatives) -> Tuple[bool, str]:
    """``contains`` for several equivalent spellings of the skeleton (e.g. a library call with a positional or a
    keyword argument); holds if any of them matches."""
    why = ""
    for src in alternatives:
        ok, w = contains(P, fi, src)
        if ok:
            return True, ""
        why = why or w
    return False, why
