"""Self-validation variants (see selftest.py).  ``edits`` = [(relpath, old_text, new_text)], each
old_text must occur exactly once in the current file.  ``expect`` = rule ids that must newly fire
(empty / absent = behaviour-preserving edit on which nothing new may fire).  Variants tagged
``origin: revert <commit>`` re-introduce a genuine defect that was repaired by that `fix:` commit."""

BASE = "formulaic/materializers/base.py"
PANDAS = "formulaic/materializers/pandas.py"
NARWHALS = "formulaic/materializers/narwhals.py"
SPEC = "formulaic/model_spec.py"
FORMULA = "formulaic/formula.py"
NULLS = "formulaic/utils/null_handling.py"
CONTRASTS = "formulaic/transforms/contrasts.py"
HASHED = "formulaic/transforms/hashed.py"
PARSER = "formulaic/parser/parser.py"
T2A = "formulaic/parser/algos/tokens_to_ast.py"
SUGAR = "formulaic/sugar.py"

VARIANTS = []


def V(id, prop, expect, edits, note="", **kw):
    VARIANTS.append(dict(id=id, prop=prop, expect=expect, edits=edits, note=note, **kw))


# ----------------------------------------------------------------------------------------- C06
V("C06-revert-overrides", "C06", ["C06.R1"], [(SPEC, """            return self.update(**attr_overrides).get_model_matrix(
                data, context=context, drop_rows=drop_rows
            )""", """            return self.update(**attr_overrides).get_model_matrix(data, context=context)""")],
  "origin: revert 6b81615 (ModelSpec.get_model_matrix with overrides dropped drop_rows)")
V("C06-revert-joint", "C06", ["C06.R1"], [(SPEC, ").get_model_matrix(self, drop_rows=drop_rows)", ").get_model_matrix(self)")],
  "origin: revert 6b81615 (joint ModelSpecs generation)")
V("C06-fallback-lambda", "C06", ["C06.R1"], [(SPEC, """                lambda model_spec: model_spec.get_model_matrix(
                    data, context=context, drop_rows=drop_rows
                ),""", """                lambda model_spec: model_spec.get_model_matrix(
                    data, context=context
                ),""")])
V("C06-copy-at-entry", "C06", ["C06.R1"], [(FORMULA, """        from .model_spec import ModelSpec

        return ModelSpec.from_spec(self, **spec_overrides).get_model_matrix(
            data, context=context, drop_rows=drop_rows
        )

    @property
    def required_variables(self) -> set[Variable]:
        \"\"\"
        The set of variables required in the data order to materialize this
        formula.

        Attempts are made to restrict these variables only to those expected in
        the data, and not, for example, those associated with transforms and/or
        values present in the evaluation namespace by default (e.g. `y ~ C(x)`
        would include only `y` and `x`). This may not always be possible for
        more advanced formulae that insert constants into the formula via the
        evaluation context rather than the data context.
        \"\"\"

        def factor_variables""", """        from .model_spec import ModelSpec

        return ModelSpec.from_spec(self, **spec_overrides).get_model_matrix(
            data, context=context, drop_rows=set(drop_rows or ())
        )

    @property
    def required_variables(self) -> set[Variable]:
        \"\"\"
        The set of variables required in the data order to materialize this
        formula.

        Attempts are made to restrict these variables only to those expected in
        the data, and not, for example, those associated with transforms and/or
        values present in the evaluation namespace by default (e.g. `y ~ C(x)`
        would include only `y` and `x`). This may not always be possible for
        more advanced formulae that insert constants into the formula via the
        evaluation context rather than the data context.
        \"\"\"

        def factor_variables""")], "a copy is forwarded: downstream drops are not reported back")
V("C06-sugar-positional-equiv", "C06", [], [(SUGAR, ").get_model_matrix(data, context=_context, drop_rows=drop_rows)",
                                             ").get_model_matrix(data, _context, drop_rows)")], "keyword -> positional")
V("C06-revert-series-label", "C06", ["C06.R2"], [(NULLS, "    return values.iloc[numpy.delete(numpy.arange(values.shape[0]), indices)]",
                                                  "    return values.drop(index=values.index[indices])")],
  "origin: revert 0f645a2")
V("C06-revert-C-label", "C06", ["C06.R2"], [(CONTRASTS, "        values = values.iloc[numpy.delete(numpy.arange(values.shape[0]), drop_rows)]",
                                             "        values = values.drop(index=values.index[drop_rows])")], "origin: revert 0f645a2")
V("C06-revert-combine-label", "C06", ["C06.R2"], [(PANDAS, "                pandas_index = pandas_index.delete(drop_rows)",
                                                   "                pandas_index = pandas_index.drop(\n                    cast(pandas.DataFrame, self.data_context).index[drop_rows]\n                )")],
  "origin: revert 0f645a2")
V("C06-list-polarity", "C06", ["C06.R2"], [(NULLS, "if i not in indices]", "if i in indices]")])
V("C06-ndarray-axis", "C06", ["C06.R2"], [(NULLS, "    return numpy.delete(values, indices, axis=0)", "    return numpy.delete(values, indices, axis=1)")])
V("C06-narwhals-polarity", "C06", ["C06.R2"], [(NULLS, ".filter(~nw.col(tmp_name).is_in(indices))", ".filter(nw.col(tmp_name).is_in(indices))")])
V("C06-sparse-mask", "C06", ["C06.R2"], [(NULLS, "    mask[indices] = False", "    mask[indices] = True")])
V("C06-sparse-mask-equiv", "C06", [], [(NULLS, "    mask = numpy.ones(values.shape[0], dtype=bool)\n    mask[indices] = False\n    masked = values[mask]",
                                         "    mask = numpy.zeros(values.shape[0], dtype=bool)\n    mask[indices] = True\n    masked = values[~mask]")])
V("C06-revert-hashed", "C06", ["C06.R3"], [(HASHED, "        values = np.delete(np.array(values), drop_rows, axis=0)", "        values = np.array(values)")],
  "origin: revert 0944175")
V("C06-pandas-numerical-nodrop", "C06", ["C06.R3"], [(PANDAS, """        if drop_rows:
            values = drop_nulls(values, indices=drop_rows)
        if spec.output == "sparse":""", """        if spec.output == "sparse":""")])
V("C06-narwhals-categorical-unused", "C06", ["C06.R3"], [(NARWHALS, """        if drop_rows:
            values = drop_nulls(values, indices=drop_rows)
        if nw.dependencies.is_narwhals_series(values):""", """        if drop_rows:
            dropped = drop_nulls(values, indices=drop_rows)
        if nw.dependencies.is_narwhals_series(values):""")])
V("C06-constant-rows", "C06", ["C06.R3", "C06.R8"], [(PANDAS, "        nrows = self.nrows - len(drop_rows)", "        nrows = self.nrows")])
V("C06-revert-empty-rows", "C06", ["C06.R8"], [(NARWHALS, "            values = numpy.empty((self.nrows - len(drop_rows), 0))",
                                                "            values = numpy.empty((self.data.shape[0], 0))")], "origin: revert 968b8df")
V("C06-policy-drop-noop", "C06", ["C06.R4"], [(BASE, "                drop_rows.update(null_indices)", "                pass")])
V("C06-policy-raise-inverted", "C06", ["C06.R4"], [(BASE, "                if null_indices:\n                    raise ValueError(f\"`{name}` contains",
                                                    "                if not null_indices:\n                    raise ValueError(f\"`{name}` contains")])
V("C06-policy-swap", "C06", ["C06.R4"], [(BASE, "            if na_action is NAAction.RAISE:", "            if na_action is NAAction.DROP:"),
                                         (BASE, "            elif na_action is NAAction.DROP:", "            elif na_action is NAAction.RAISE:")])
V("C06-policy-ignore-late", "C06", ["C06.R4"], [(BASE, "        if na_action is NAAction.IGNORE:\n            return\n\n        try:\n            null_indices = find_nulls(values)\n",
                                                 "        try:\n            null_indices = find_nulls(values)\n            if na_action is NAAction.IGNORE:\n                return\n")])
V("C06-policy-len-equiv", "C06", [], [(BASE, "                if null_indices:\n                    raise ValueError(f\"`{name}` contains",
                                       "                if len(null_indices) > 0:\n                    raise ValueError(f\"`{name}` contains")])
V("C06-nullcheck-after-cache", "C06", ["C06.R4"], [(BASE, """            self._check_for_nulls(factor.expr, value, spec.na_action, drop_rows)
            self.factor_cache[factor.expr] = EvaluatedFactor(
                factor=factor, values=value, variables=variables
            )""", """            self.factor_cache[factor.expr] = EvaluatedFactor(
                factor=factor, values=value, variables=variables
            )
            if factor.kind is not Factor.Kind.UNKNOWN:
                self._check_for_nulls(factor.expr, value, spec.na_action, drop_rows)""")])
V("C06-alias-or", "C06", ["C06.R5"], [(BASE, "        drop_rows: set[int] = drop_rows if drop_rows is not None else set()",
                                       "        drop_rows: set[int] = drop_rows or set()")], "an empty caller set is replaced by a fresh one")
V("C06-alias-copy", "C06", ["C06.R5"], [(BASE, "        drop_rows: set[int] = drop_rows if drop_rows is not None else set()",
                                         "        drop_rows: set[int] = set(drop_rows) if drop_rows is not None else set()")])
V("C06-alias-ifstmt-equiv", "C06", [], [(BASE, "        drop_rows: set[int] = drop_rows if drop_rows is not None else set()",
                                         "        if drop_rows is None:\n            drop_rows = set()")])
V("C06-sorted-early", "C06", ["C06.R5"], [(BASE, """        drop_rows: set[int] = drop_rows if drop_rows is not None else set()
        for factor in factors:
            self._evaluate_factor(factor, factor_evaluation_model_spec, drop_rows)
        drop_rows: Sequence[int] = sorted(drop_rows)
""", """        drop_rows: set[int] = drop_rows if drop_rows is not None else set()
        dropped: Sequence[int] = sorted(drop_rows)
        for factor in factors:
            self._evaluate_factor(factor, factor_evaluation_model_spec, drop_rows)
        drop_rows = dropped
""")], "", )
V("C06-registry-gap", "C06", ["C06.R6"], [(NULLS, "@find_nulls.register\ndef _(values: spsparse.spmatrix) -> set[int]:", "def _find_nulls_sparse(values: spsparse.spmatrix) -> set[int]:")])
V("C06-notnull", "C06", ["C06.R7"], [(NULLS, "    return set(numpy.flatnonzero(values.isnull().values))", "    return set(numpy.flatnonzero(values.notnull().values))")])
V("C06-negated-null", "C06", ["C06.R7"], [(NULLS, "        return set(numpy.flatnonzero(numpy.isnan(values)))", "        return set(numpy.flatnonzero(~numpy.isnan(values)))")])
V("C06-all-instead-of-any", "C06", ["C06.R7"], [(NULLS, "numpy.flatnonzero(numpy.any(numpy.isnan(values), axis=1))", "numpy.flatnonzero(numpy.all(numpy.isnan(values), axis=1))")])
V("C06-isna-equiv", "C06", [], [(NULLS, "    return set(numpy.flatnonzero(values.isnull().values))", "    nulls = values.isna()\n    return set(numpy.flatnonzero(nulls.values))")])

# ----------------------------------------------------------------------------------------- C01
V("C01-revert-signrun", "C01", ["C01.R3"], [(PARSER, """                symbol[: m.start(0)]
                + ("-" if len(m.group(0).replace("+", "")) % 2 else "+")
                + symbol[m.end(0) :]""", """                symbol[: m.start(0)] + "-"
                if len(m.group(0).replace("+", "")) % 2
                else "+" + symbol[m.end(0) :]""")], "origin: revert 0e5e1b9")
V("C01-signrun-parity-plus", "C01", ["C01.R3"], [(PARSER, '("-" if len(m.group(0).replace("+", "")) % 2 else "+")', '("-" if len(m.group(0).replace("-", "")) % 2 else "+")')],
  "parity of '+' count instead of '-' count")
V("C01-signrun-inverted", "C01", ["C01.R3"], [(PARSER, '("-" if len(m.group(0).replace("+", "")) % 2 else "+")', '("+" if len(m.group(0).replace("+", "")) % 2 else "-")')])
V("C01-signrun-count-equiv", "C01", [], [(PARSER, '("-" if len(m.group(0).replace("+", "")) % 2 else "+")', '("-" if m.group(0).count("-") % 2 == 1 else "+")')])
V("C01-signrun-pattern", "C01", ["C01.R3"], [(PARSER, 'm = re.search(r"[+\\-]{2,}", symbol)', 'm = re.search(r"[+\\-]{3,}", symbol)')])
V("C01-revert-power-multiterm", "C01", ["C01.R2"], [(PARSER, "exponent = parse_exponent(next(iter(power))) if len(power) == 1 else None", "exponent = parse_exponent(next(iter(power))) if power else None")],
  "origin: revert of the single-term part of the `**` fix (a**(1+2) read as a**1)")
V("C01-colon-precedence", "C01", ["C01.R1"], [(PARSER, """                ":",
                arity=2,
                precedence=300,""", """                ":",
                arity=2,
                precedence=150,""")])
V("C01-renumber-equiv", "C01", [], [(PARSER, "precedence=-100,\n                associativity=None,\n                to_terms=lambda lhs, rhs: Structured(lhs=lhs, rhs=rhs),", "precedence=-1000,\n                associativity=None,\n                to_terms=lambda lhs, rhs: Structured(lhs=lhs, rhs=rhs),"),
                                      (PARSER, "precedence=-100,\n                associativity=None,\n                fixity=\"prefix\",", "precedence=-1000,\n                associativity=None,\n                fixity=\"prefix\","),
                                      (PARSER, "precedence=-100,\n                associativity=None,\n                to_terms=multistage_formula,", "precedence=-1000,\n                associativity=None,\n                to_terms=multistage_formula,")],
  "order-preserving renumbering of the `~` precedence")
V("C01-minus-swapped", "C01", ["C01.R2"], [(PARSER, "to_terms=lambda left, right: left - right,", "to_terms=lambda left, right: right - left,")])
V("C01-plus-swapped", "C01", ["C01.R2"], [(PARSER, "to_terms=lambda lhs, rhs: lhs | rhs,", "to_terms=lambda lhs, rhs: rhs | lhs,")], "first-appearance order lost")
V("C01-unary-minus-identity", "C01", ["C01.R2"], [(PARSER, "to_terms=lambda terms: OrderedSet(),", "to_terms=lambda terms: terms,")])
V("C01-in-not-inverted", "C01", ["C01.R2"], [(PARSER, """                to_terms=lambda nested, parents: nested_product_expansion(
                    parents, nested
                ),""", """                to_terms=lambda nested, parents: nested_product_expansion(
                    nested, parents
                ),""")])
V("C01-star-no-main-effects", "C01", ["C01.R2"], [(PARSER, """                to_terms=lambda *term_sets: (
                    OrderedSet(itertools.chain(*term_sets))
                    | OrderedSet(""", """                to_terms=lambda *term_sets: (
                    OrderedSet()
                    | OrderedSet(""")])
V("C01-nested-no-parents", "C01", ["C01.R2"], [(PARSER, "OrderedSet, parents | OrderedSet(common * term for term in nested)", "OrderedSet, OrderedSet(common * term for term in nested)")])
V("C01-tilde-swapped", "C01", ["C01.R2"], [(PARSER, "to_terms=lambda lhs, rhs: Structured(lhs=lhs, rhs=rhs),", "to_terms=lambda lhs, rhs: Structured(lhs=rhs, rhs=lhs),")])
V("C01-lambda-rename-equiv", "C01", [], [(PARSER, "to_terms=lambda left, right: left - right,", "to_terms=lambda a, b: a - b,")])
V("C01-plus-right-assoc", "C01", ["C01.R1"], [(PARSER, """                "-",
                arity=2,
                precedence=100,
                associativity="left",""", """                "-",
                arity=2,
                precedence=100,
                associativity="right",""")], "a - b - c would parse as a - (b - c)")
V("C01-hat-not-alias", "C01", ["C01.R1"], [(PARSER, '"^", arity=2, precedence=500, associativity="right", to_terms=power', '"^", arity=2, precedence=400, associativity="right", to_terms=power')])
V("C01-colon-structural", "C01", ["C01.R1"], [(PARSER, """                to_terms=lambda *term_sets: OrderedSet(
                    functools.reduce(lambda x, y: x * y, term)
                    for term in itertools.product(*term_sets)
                ),
            ),""", """                to_terms=lambda *term_sets: OrderedSet(
                    functools.reduce(lambda x, y: x * y, term)
                    for term in itertools.product(*term_sets)
                ),
                structural=True,
            ),""")])
V("C01-zero-any-kind", "C01", ["C01.R4"], [(PARSER, 'tokens, "0", [token_minus, token_one], kind=Token.Kind.VALUE', 'tokens, "0", [token_minus, token_one], kind=Token.Kind.NAME')])
V("C01-zero-plus-one", "C01", ["C01.R4"], [(PARSER, 'tokens, "0", [token_minus, token_one], kind=Token.Kind.VALUE', 'tokens, "0", [token_plus, token_one], kind=Token.Kind.VALUE')])
V("C01-bar-lhs-intercept", "C01", ["C01.R4"], [(PARSER, "                    tokens[rhs_index:],\n                    r\"\\|\",", "                    tokens,\n                    r\"\\|\",")], "intercepts inserted after | on the left-hand side too")
V("C01-intercept-noint", "C01", ["C01.R4"], [(PARSER, "[token_one] if self.include_intercept else [],", "[token_one],")], "intercept inserted after ~ even with include_intercept=False")
V("C01-nojoin-dropped", "C01", ["C01.R4"], [(PARSER, """                r"\\|",
                    [token_one],
                    kind=Token.Kind.OPERATOR,
                    join_operator="+",
                    no_join_for_operators={"+", "-"},""", """                r"\\|",
                    [token_one],
                    kind=Token.Kind.OPERATOR,
                    join_operator="+",
                    no_join_for_operators={"+"},""")])
V("C01-term-key-unsorted", "C01", ["C01.R5"], [("formulaic/parser/types/term.py", "tuple(factor.expr for factor in sorted(self.factors))", "tuple(factor.expr for factor in self.factors)")])
V("C01-term-no-dedupe", "C01", ["C01.R5"], [("formulaic/parser/types/term.py", "self.factors = tuple(dict.fromkeys(factors))", "self.factors = tuple(factors)")])
V("C01-term-hash-origin", "C01", ["C01.R5"], [("formulaic/parser/types/term.py", 'self._hash = hash(":".join(self._factor_key))', 'self._hash = hash((":".join(self._factor_key), self.origin))')])
V("C01-degree-reverse", "C01", ["C01.R6"], [(FORMULA, "orderer = lambda terms: sorted(terms, key=lambda term: term.degree)", "orderer = lambda terms: sorted(terms, key=lambda term: term.degree, reverse=True)")])
V("C01-degree-secondary-key", "C01", ["C01.R6"], [(FORMULA, "orderer = lambda terms: sorted(terms, key=lambda term: term.degree)", "orderer = lambda terms: sorted(terms, key=lambda term: (term.degree, str(term)))")])
V("C01-degree-counts-literals", "C01", ["C01.R6"], [("formulaic/parser/types/term.py", "tuple(f for f in self.factors if f.eval_method != f.eval_method.LITERAL)", "tuple(f for f in self.factors)")])
V("C01-insert-no-reorder", "C01", ["C01.R6"], [(FORMULA, "        self.__terms.insert(index, value)\n        self._reorder()", "        self.__terms.insert(index, value)")])
V("C01-list-root-parser", "C01", ["C01.R7"], [(FORMULA, "nested_parser.get_terms(value, context=context)  # type: ignore[attr-defined]", "parser.get_terms(value, context=context)  # type: ignore[attr-defined]")],
  "term strings in list specs would each get an intercept")
V("C01-spec-tuple-dropped", "C01", ["C01.R7"], [(FORMULA, "        if isinstance(spec, tuple):\n            return StructuredFormula(\n                spec,", "        if isinstance(spec, frozenset):\n            return StructuredFormula(\n                spec,")])
V("C01-orderedset-set", "C01", ["C01.R8"], [("formulaic/parser/types/ordered_set.py", "self.values = dict.fromkeys(values)", "self.values = set(values)")])
V("C01-pop-ge", "C01", ["C01.R9"], [(T2A, "                            operator_stack[-1].operator.precedence > operator.precedence\n", "                            operator_stack[-1].operator.precedence >= operator.precedence\n")],
  "right-associative operators would be popped as if left-associative")
V("C01-pop-and-or", "C01", ["C01.R9"], [(T2A, "                            == operator.precedence\n                            and operator.associativity is Operator.Associativity.LEFT", "                            == operator.precedence\n                            or operator.associativity is Operator.Associativity.LEFT")])
V("C01-pop-flip-equiv", "C01", [], [(T2A, "                            operator_stack[-1].operator.precedence > operator.precedence\n", "                            operator.precedence < operator_stack[-1].operator.precedence\n")])
V("C01-pop-no-bracket-test", "C01", ["C01.R9"], [(T2A, "                        and operator_stack[-1].token.kind is not Token.Kind.CONTEXT\n                        and (", "                        and (")])

# ----------------------------------------------------------------------------------------- C14
CODE = "formulaic/utils/code.py"
TOKENIZE = "formulaic/parser/algos/tokenize.py"
V("C14-revert-bracket-loop", "C14", ["C14.R2"], [(T2A, """                while (
                    operator_stack
                    and operator_stack[-1].token.kind is not Token.Kind.CONTEXT
                ):
                    output_queue = operate(operator_stack.pop(), output_queue)""", """                while operator_stack and operator_stack[-1].token != starting_token:
                    output_queue = operate(operator_stack.pop(), output_queue)""")], "origin: revert fb87a45 ('(a]' -> AttributeError)")
V("C14-final-loop-no-bracket-test", "C14", ["C14.R2"], [(T2A, """        if operator_stack[-1].token.kind is Token.Kind.CONTEXT:
            raise exc_for_token(
                operator_stack[-1].token, "Could not find matching context marker."
            )
        output_queue = operate(operator_stack.pop(), output_queue)""", """        output_queue = operate(operator_stack.pop(), output_queue)""")], "unclosed '(' applied as an operator")
V("C14-revert-nested-empty", "C14", ["C14.R3"], [(PARSER, """            if not parents:
                raise FormulaSyntaxError(
                    "The parent term set of the `/` and `%in%` operators must not be empty."
                )
""", "")], "origin: revert of the '(a-a)/b' fix")
V("C14-nested-guard-valueerror", "C14", ["C14.R1"], [(PARSER, """                raise FormulaSyntaxError(
                    "The parent term set of the `/` and `%in%` operators must not be empty."
                )""", """                raise ValueError(
                    "The parent term set of the `/` and `%in%` operators must not be empty."
                )""")])
V("C14-revert-power-positive", "C14", ["C14.R3"], [(PARSER, "                return exponent if exponent > 0 else None", "                return exponent")],
  "origin: revert of the positivity part of the `**` fix (a**(0) -> StopIteration/TypeError)")
V("C14-revert-power-empty", "C14", ["C14.R3"], [(PARSER, "exponent = parse_exponent(next(iter(power))) if len(power) == 1 else None", "exponent = parse_exponent(next(iter(power)))")],
  "origin: revert of the emptiness part of the `**` fix")
V("C14-revert-power-literal-eval", "C14", ["C14.R6"], [(PARSER, """                try:
                    exponent = ast.literal_eval(term.factors[0].expr)
                except (ValueError, SyntaxError):
                    return None""", """                exponent = ast.literal_eval(term.factors[0].expr)""")], "origin: revert (a**1.5.2 -> bare SyntaxError)")
V("C14-revert-context-key", "C14", ["C14.R4"], [(PARSER, """        context["__formulaic_variables_used_lhs__"] = [
            variable
            for token in tokens[:rhs_index]
            for variable in token.required_variables
        ]
""", """        if self.include_intercept:
            context["__formulaic_variables_used_lhs__"] = [
                variable
                for token in tokens[:rhs_index]
                for variable in token.required_variables
            ]
""")], "origin: revert 5f2f24a (no-intercept parser, 'y ~ .' -> KeyError)")
V("C14-revert-empty-name", "C14", ["C14.R7"], [(CODE, "    if not base_name or base_name[0].isdigit():", "    if base_name[0].isdigit():")], "origin: revert 775a676")
V("C14-tokenizer-valueerror", "C14", ["C14.R1"], [(TOKENIZE, """    if quote_context:
        raise exc_for_token(
            token,
            message=""", """    if quote_context:
        raise ValueError(
            token,
            message""" + "=")], analysis_error_ok=False)
V("C14-exc-errcls-runtime", "C14", ["C14.R1"], [(T2A, """                    raise exc_for_token(
                        token, "Could not find matching context marker."
                    )""", """                    raise exc_for_token(
                        token, "Could not find matching context marker.", errcls=RuntimeError
                    )""")])
V("C14-exc-direct-equiv", "C14", [], [(T2A, """                    raise exc_for_token(
                        token, "Could not find matching context marker."
                    )""", """                    raise exc_for_token(
                        token, "Could not find a matching context marker!"
                    )""")])
V("C14-syntaxerror-reparent", "C14", ["C14.R1"], [("formulaic/errors.py", "class FormulaSyntaxError(FormulaParsingError):", "class FormulaSyntaxError(FormulaicError):")])
V("C14-disabled-not-skipped", "C14", ["C14.R5"], [(T2A, """                    if operator.disabled:
                        disabled_operators.add(operator_token)
                        continue
""", """                    if operator.disabled:
                        disabled_operators.add(operator_token)
""")])
V("C14-flag-polarity", "C14", ["C14.R5"], [(PARSER, """                disabled=DefaultFormulaParser.FeatureFlags.MULTIPART
                not in self.feature_flags,""", """                disabled=DefaultFormulaParser.FeatureFlags.MULTIPART
                in self.feature_flags,""")])
V("C14-flag-wrong", "C14", ["C14.R5"], [(PARSER, """                disabled=DefaultFormulaParser.FeatureFlags.MULTISTAGE
                not in self.feature_flags,""", """                disabled=DefaultFormulaParser.FeatureFlags.TWOSIDED
                not in self.feature_flags,""")], "multistage enabled by the default TWOSIDED flag")
V("C14-flag-cache-stale", "C14", ["C14.R5"], [(PARSER, """        if "operator_table" in self.__dict__:
            del self.__dict__["operator_table"]
""", "")])
V("C14-merge-without-merger", "C14", ["C14.R1"], [("formulaic/parser/types/ast_node.py", """                        merger=functools.partial(
                            node.operator.to_terms, context=context
                        ),
""", "")])
V("C14-python-only-sanitise", "C14", ["C14.R6"], [("formulaic/parser/algos/sanitize_tokens.py", "        if token.kind is Token.Kind.PYTHON:\n            token.token", "        if token.kind is not Token.Kind.OPERATOR:\n            token.token")])

# ----------------------------------------------------------------------------------------- C02
V("C02-revert-kind-value", "C02", ["C02.R4", "C02.R5"], [(BASE, "                                if evaled_factor.metadata.kind is Factor.Kind.CONSTANT\n                            ],",
                                                           "                                if evaled_factor.metadata.kind.value\n                                is Factor.Kind.CONSTANT\n                            ],")],
  "origin: revert 92f65b5 ('2.5:a' unscaled with ensure_full_rank=False)")
V("C02-sparse-no-scale", "C02", ["C02.R2"], [(PANDAS, """                out[names[i]] = scale * functools.reduce(
                    spsparse.csc_matrix.multiply,""", """                out[names[i]] = functools.reduce(
                    spsparse.csc_matrix.multiply,""")])
V("C02-base-no-scale", "C02", ["C02.R2"], [(BASE, '            out[":".join(p[0] for p in product)] = scale * functools.reduce(', '            out[":".join(p[0] for p in product)] = functools.reduce(')])
V("C02-builder-no-scale", "C02", ["C02.R2"], [(BASE, "                            spec=spec,\n                            scale=scoped_term.scale,\n", "                            spec=spec,\n")])
V("C02-intercept-unscaled", "C02", ["C02.R2"], [(BASE, """                    scoped_cols["Intercept"] = (
                        scoped_term.scale
                        * self._encode_constant(1, None, {}, spec, drop_rows)
                    )""", """                    scoped_cols["Intercept"] = (
                        self._encode_constant(1, None, {}, spec, drop_rows)
                    )""")])
V("C02-names-not-rereversed", "C02", ["C02.R1"], [(PANDAS, '            ":".join(reversed(product))\n', '            ":".join(product)\n')], "labels in reversed factor order vs values")
V("C02-names-unreversed-product", "C02", ["C02.R1"], [(NARWHALS, "            for product in itertools.product(*reversed(factors))\n", "            for product in itertools.product(*factors)\n")],
  "label enumeration order differs from value enumeration order")
V("C02-values-unreversed", "C02", ["C02.R1"], [(PANDAS, "            itertools.product(*(factor.items() for factor in reversed(factors)))\n        ):\n            if spec.output",
                                                "            itertools.product(*(factor.items() for factor in factors))\n        ):\n            if spec.output")])
V("C02-base-label-from-values", "C02", ["C02.R1"], [(BASE, 'out[":".join(p[0] for p in product)] = scale * functools.reduce(\n                operator.mul, (p[1] for p in product)',
                                                     'out[":".join(p[0] for p in reverse_product)] = scale * functools.reduce(\n                operator.mul, (p[1] for p in product)')])
V("C02-solo-guard-le", "C02", ["C02.R3"], [(PANDAS, "            if len(factor) == 1:", "            if len(factor) <= 2:")])
V("C02-solo-key-values-mismatch", "C02", ["C02.R3"], [(PANDAS, """                            numpy.multiply,
                            (numpy.asanyarray(p) for p in solo_factors.values()),""", """                            numpy.multiply,
                            (numpy.asanyarray(p) for p in factors[0].values()),""")])
V("C02-eval-method-literal", "C02", ["C02.R4"], [(BASE, 'if factor.eval_method.value == "lookup":', 'if factor.eval_method.value == "look_up":')])
V("C02-na-action-value-is", "C02", ["C02.R4"], [(BASE, "        if na_action is NAAction.IGNORE:", "        if na_action.value is NAAction.IGNORE:")])
V("C02-constant-branch-dropped", "C02", ["C02.R5"], [(BASE, "            if factor.metadata.kind is Factor.Kind.CONSTANT:\n                scale *= factor.values\n            elif factor.metadata.spans_intercept:",
                                                      "            if factor.metadata.spans_intercept:")])
V("C02-revert-merge-scale", "C02", ["C02.R5"], [(BASE, "                                scale=scoped_term.scale,\n", "                                scale=existing_term.scale * scoped_term.scale,\n")],
  "origin: revert 7bfb926 ('0 + 2:a:b' scaled by 16)")
V("C02-merge-scale-dropped", "C02", ["C02.R5"], [(BASE, "                                scale=scoped_term.scale,\n", "")])
V("C02-flatten-wrong-value", "C02", ["C02.R6"], [(BASE, "                flattened[subname] = value", "                flattened[subname] = values")])
V("C02-sibling-drift", "C02", ["C02.R7"], [(NARWHALS, "        series = value * numpy.ones(nrows)\n        return series\n\n    @override\n    def _encode_numerical(\n        self,\n        values: Any,\n        metadata: Any,\n        encoder_state: dict[str, Any],\n        spec: ModelSpec,\n        drop_rows: Sequence[int],\n    ) -> Any:\n        if drop_rows:\n            values = drop_nulls(values, indices=drop_rows)\n        if spec.output == \"sparse\":\n            return spsparse.csc_matrix(\n                numpy.array(values).reshape((values.shape[0], 1))\n            )\n        return values\n\n    @override\n    def _encode_categorical(\n        self,\n        values: Any,\n        metadata: Any,\n        encoder_state: dict[str, Any],\n        spec: ModelSpec,\n        drop_rows: Sequence[int],\n        reduced_rank: bool = False,\n    ) -> Any:\n        # Even though we could reduce rank here, we do not, so that the same\n        # encoding can be cached for both reduced and unreduced rank. The\n        # rank will be reduced in the _encode_evaled_factor method.\n        from formulaic.transforms import encode_contrasts\n\n        if drop_rows:\n            values = drop_nulls(values, indices=drop_rows)\n        if nw",
                                            "        series = value + numpy.zeros(nrows)\n        return series\n\n    @override\n    def _encode_numerical(\n        self,\n        values: Any,\n        metadata: Any,\n        encoder_state: dict[str, Any],\n        spec: ModelSpec,\n        drop_rows: Sequence[int],\n    ) -> Any:\n        if drop_rows:\n            values = drop_nulls(values, indices=drop_rows)\n        if spec.output == \"sparse\":\n            return spsparse.csc_matrix(\n                numpy.array(values).reshape((values.shape[0], 1))\n            )\n        return values\n\n    @override\n    def _encode_categorical(\n        self,\n        values: Any,\n        metadata: Any,\n        encoder_state: dict[str, Any],\n        spec: ModelSpec,\n        drop_rows: Sequence[int],\n        reduced_rank: bool = False,\n    ) -> Any:\n        # Even though we could reduce rank here, we do not, so that the same\n        # encoding can be cached for both reduced and unreduced rank. The\n        # rank will be reduced in the _encode_evaled_factor method.\n        from formulaic.transforms import encode_contrasts\n\n        if drop_rows:\n            values = drop_nulls(values, indices=drop_rows)\n        if nw")])
V("C02-rename-loopvar-equiv", "C02", [], [(BASE, """        for reverse_product in itertools.product(
            *(factor.items() for factor in reversed(factors))
        ):
            product = reverse_product[::-1]""", """        for rp in itertools.product(
            *(fct.items() for fct in reversed(factors))
        ):
            product = rp[::-1]""")])

# ----------------------------------------------------------------------------------------- C03
STERM = "formulaic/materializers/types/scoped_term.py"
SFACT = "formulaic/materializers/types/scoped_factor.py"
V("C03-spanned-simplified", "C03", ["C03.R1"], [(BASE, "                spanned.update(term_span)", "                spanned.update(scoped_terms)")])
V("C03-spanned-not-updated", "C03", ["C03.R1"], [(BASE, "                spanned.update(term_span)\n", "")])
V("C03-spanned-not-subtracted", "C03", ["C03.R1"], [(BASE, """                term_span = (
                    self._get_scoped_terms_spanned_by_evaled_factors(evaled_factors)
                    - spanned
                )""", """                term_span = (
                    self._get_scoped_terms_spanned_by_evaled_factors(evaled_factors)
                )""")])
V("C03-spanned-per-term", "C03", ["C03.R1"], [(BASE, "        spanned: set[ScopedTerm] = set()\n\n        for term in terms:\n", "        for term in terms:\n            spanned: set[ScopedTerm] = set()\n")])
V("C03-span-no-one", "C03", ["C03.R2"], [(BASE, "                factors.append((ScopedFactor(factor, reduced=True), 1))", "                factors.append((ScopedFactor(factor, reduced=True),))")])
V("C03-span-numeric-reduced", "C03", ["C03.R2"], [(BASE, "                factors.append((ScopedFactor(factor),))", "                factors.append((ScopedFactor(factor, reduced=True),))")])
V("C03-merge-any-factor", "C03", ["C03.R3"], [(BASE, "                if factor_new.reduced:\n", "                if True:\n")])
V("C03-merge-guard-and", "C03", ["C03.R3"], [(BASE, "if len(factors) - 1 != len(cofactors) or len(factors_diff) != 1:", "if len(factors) - 1 != len(cofactors) and len(factors_diff) != 1:")])
V("C03-merge-keeps-reduced", "C03", ["C03.R3"], [(BASE, "ScopedFactor(factor_new.factor, reduced=False)\n                                        if factor == factor_new", "ScopedFactor(factor_new.factor, reduced=True)\n                                        if factor == factor_new")])
V("C03-order-descending", "C03", ["C03.R3"], [(BASE, "for scoped_term in sorted(scoped_terms, key=lambda x: len(x.factors)):", "for scoped_term in sorted(scoped_terms, key=lambda x: -len(x.factors)):")])
V("C03-scopedterm-eq-scale", "C03", ["C03.R4"], [(STERM, "            return sorted(self.factors) == sorted(other.factors)", "            return sorted(self.factors) == sorted(other.factors) and self.scale == other.scale")])
V("C03-scopedterm-eq-ordered", "C03", ["C03.R4"], [(STERM, "            return sorted(self.factors) == sorted(other.factors)", "            return self.factors == other.factors")])
V("C03-scopedfactor-eq-ignores-reduced", "C03", ["C03.R4"], [(SFACT, "            return self.factor == other.factor and self.reduced == other.reduced", "            return self.factor == other.factor")])
V("C03-sas-drop-first", "C03", ["C03.R5"], [(CONTRASTS, "        return self.base if self.base is not UNSET else levels[-1]", "        return self.base if self.base is not UNSET else levels[0]")],
  "SAS coding drops the last level but the full encoding would drop the first")
V("C03-treatment-base-ignored", "C03", ["C03.R5"], [(CONTRASTS, "        return self.base if self.base is not UNSET else levels[0]", "        return levels[0]")])
V("C03-delete-from-cache", "C03", ["C03.R6"], [(BASE, "                encoded.copy(),\n                metadata=encoded.__formulaic_metadata__,  # type: ignore\n                reduced=True,", "                encoded,\n                metadata=encoded.__formulaic_metadata__,  # type: ignore\n                reduced=True,")])
V("C03-delete-always", "C03", ["C03.R6"], [(BASE, "            and encoded.__formulaic_metadata__.spans_intercept  # type: ignore\n            and reduced_rank\n", "            and encoded.__formulaic_metadata__.spans_intercept  # type: ignore\n")])
V("C03-encode-always-full", "C03", ["C03.R6"], [(BASE, "                                    reduced_rank=scoped_factor.reduced,", "                                    reduced_rank=False,")])
V("C03-rename-span-equiv", "C03", [], [(BASE, """                term_span = (
                    self._get_scoped_terms_spanned_by_evaled_factors(evaled_factors)
                    - spanned
                )
                scoped_terms: Iterable[ScopedTerm] = self._simplify_scoped_terms(
                    term_span
                )
                spanned.update(term_span)""", """                new_span = self._get_scoped_terms_spanned_by_evaled_factors(evaled_factors) - spanned
                scoped_terms: Iterable[ScopedTerm] = self._simplify_scoped_terms(new_span)
                spanned.update(new_span)""")])
V("C03-hash-frozenset-equiv", "C03", [], [(STERM, "        return hash(tuple(sorted(self.factors)))", "        return hash(frozenset(self.factors))")])

# ----------------------------------------------------------------------------------------- C05
V("C05-revert-shortcircuit", "C05", ["C05.R2"], [(CONTRASTS, '            if output in ("narwhals", "pandas"):\n                encoded = pandas.DataFrame(\n                    index=(', '            if output == "pandas":\n                encoded = pandas.DataFrame(\n                    index=(')],
  "origin: revert bd75fd2 (C(A) with one level under the narwhals output raises)")
V("C05-dummy-no-narwhals", "C05", ["C05.R2"], [(CONTRASTS, '    if output in ("narwhals", "pandas", "numpy"):\n        categories = list(data.cat.categories)', '    if output in ("pandas", "numpy"):\n        categories = list(data.cat.categories)')])
V("C05-narwhals-combine-no-numpy", "C05", ["C05.R2"], [(NARWHALS, '        if spec.output == "numpy":\n            return combined.to_numpy()\n', '')])
V("C05-register-extra-output", "C05", ["C05.R2"], [(NARWHALS, 'REGISTER_OUTPUTS: Sequence[str] = ("narwhals", "pandas", "numpy", "sparse")', 'REGISTER_OUTPUTS: Sequence[str] = ("narwhals", "pandas", "numpy", "sparse", "polars")')])
V("C05-sibling-categorical-drift", "C05", ["C05.R1"], [(NARWHALS, "                reduced_rank=False,\n                output=", "                reduced_rank=reduced_rank,\n                output=")])
V("C05-context-dropped", "C05", ["C05.R3"], [(SPEC, "            self.get_materializer(data, context=context).get_model_matrix(", "            self.get_materializer(data).get_model_matrix(")])
V("C05-context-dropped-joint", "C05", ["C05.R3"], [(SPEC, "                data, context=context, **(materializer_params or {})\n            ).get_model_matrix(self, drop_rows=drop_rows)", "                data, **(materializer_params or {})\n            ).get_model_matrix(self, drop_rows=drop_rows)")])
V("C05-overrides-ignored", "C05", ["C05.R3"], [(FORMULA, """        from .model_spec import ModelSpec

        return ModelSpec.from_spec(self, **spec_overrides).get_model_matrix(
            data, context=context, drop_rows=drop_rows
        )

    @property
    def required_variables(self) -> set[Variable]:
        \"\"\"
        The set of variables required in the data order to materialize this
        formula.

        Attempts are made to restrict these variables only to those expected in
        the data, and not, for example, those associated with transforms and/or
        values present in the evaluation namespace by default (e.g. `y ~ C(x)`
        would include only `y` and `x`). This may not always be possible for
        more advanced formulae that insert constants into the formula via the
        evaluation context rather than the data context.
        \"\"\"

        def factor_variables""", """        from .model_spec import ModelSpec

        return ModelSpec.from_spec(self).get_model_matrix(
            data, context=context, drop_rows=drop_rows
        )

    @property
    def required_variables(self) -> set[Variable]:
        \"\"\"
        The set of variables required in the data order to materialize this
        formula.

        Attempts are made to restrict these variables only to those expected in
        the data, and not, for example, those associated with transforms and/or
        values present in the evaluation namespace by default (e.g. `y ~ C(x)`
        would include only `y` and `x`). This may not always be possible for
        more advanced formulae that insert constants into the formula via the
        evaluation context rather than the data context.
        \"\"\"

        def factor_variables""")])
V("C05-sugar-wrong-data", "C05", ["C05.R3"], [(SUGAR, "        .get_materializer(data, context=_context)", "        .get_materializer({}, context=_context)")])
V("C05-materializer-overrides-ignored", "C05", ["C05.R3"], [(BASE, "            spec, context=self.layered_context, **spec_overrides\n", "            spec, context=self.layered_context\n")])
V("C05-abstract-not-overridden", "C05", ["C05.R4"], [(NARWHALS, "    def _combine_columns(\n", "    def _combine_cols(\n")])
V("C05-positional-equiv", "C05", [], [(SPEC, "            self.get_materializer(data, context=context).get_model_matrix(", "            self.get_materializer(data, context).get_model_matrix(")])

# ----------------------------------------------------------------------------------------- C07
STRUCT = "formulaic/utils/structured.py"
LMAP = "formulaic/utils/layered_mapping.py"
V("C07-freeze-before-eval", "C07", ["C07.R1"], [(BASE, """        for factor in factors:
            self._evaluate_factor(factor, factor_evaluation_model_spec, drop_rows)
        drop_rows: Sequence[int] = sorted(drop_rows)
""", """        frozen: Sequence[int] = sorted(drop_rows)
        for factor in factors:
            self._evaluate_factor(factor, factor_evaluation_model_spec, drop_rows)
        drop_rows = frozen
""")])
V("C07-structured-formula-per-part", "C07", ["C07.R1"], [(FORMULA, """        return ModelSpec.from_spec(self, **spec_overrides).get_model_matrix(
            data, context=context, drop_rows=drop_rows
        )
""", """        return self._map(
            lambda formula: formula.get_model_matrix(
                data, context=context, drop_rows=drop_rows, **spec_overrides
            )
        )
""", 1)], "each part built by its own materializer pass")
V("C07-encoder-empty-drop", "C07", ["C07.R2"], [(BASE, "                            drop_rows=drop_rows,\n                            encoder_state=encoder_state,", "                            drop_rows=[],\n                            encoder_state=encoder_state,")])
V("C07-intercept-no-drop", "C07", ["C07.R2"], [(BASE, "                        * self._encode_constant(1, None, {}, spec, drop_rows)", "                        * self._encode_constant(1, None, {}, spec, [])")])
V("C07-pool-root-only", "C07", ["C07.R3"], [(BASE, "        model_specs._map(update_pooled_spec)\n", "        model_specs._map(update_pooled_spec, recurse=False)\n")])
V("C07-pool-skip-state", "C07", ["C07.R3"], [(BASE, "            transform_state.update(\n                model_spec.transform_state\n            )  # TODO: Check for consistency?\n", "")])
V("C07-no-writeback", "C07", ["C07.R3"], [(BASE, """        model_specs._map(
            lambda ms: ms.transform_state.update(
                factor_evaluation_model_spec.transform_state
            )
        )
""", "")])
V("C07-map-tuple-flat", "C07", ["C07.R4"], [(STRUCT, "                return tuple(apply_func(o, context + (i,)) for i, o in enumerate(obj))", "                return tuple(func(o) for i, o in enumerate(obj))")])
V("C07-map-drops-astype", "C07", ["C07.R4"], [(STRUCT, "                return obj._map(func, recurse=True, as_type=as_type, _context=context)", "                return obj._map(func, recurse=True, _context=context)")])

# ----------------------------------------------------------------------------------------- C19
V("C19-revert-flatten", "C19", ["C19.R1"], [(STRUCT, """            elif isinstance(obj, tuple):
                for o in obj:
                    yield from flatten_obj(o)
            else:
                yield obj""", """            elif isinstance(obj, tuple):
                for o in obj:
                    if isinstance(o, Structured):
                        yield from o._flatten()
                    else:
                        yield o
            else:
                yield obj""")], "origin: revert 380d33a (one-level tuple flatten)")
V("C19-todict-flat-tuple", "C19", ["C19.R1"], [(STRUCT, "                return tuple(do_recursion(o) for o in obj)", "                return tuple(o for o in obj)")])
V("C19-update-old-wins", "C19", ["C19.R1"], [(STRUCT, """                "_metadata": self._metadata,
                **self._structure,
                **{
                    key: self.__prepare_item(key, item)
                    for key, item in structure.items()
                },""", """                "_metadata": self._metadata,
                **{
                    key: self.__prepare_item(key, item)
                    for key, item in structure.items()
                },
                **self._structure,""")])
V("C19-setitem-writes-layer", "C19", ["C19.R2"], [(LMAP, "        self._mutations[key] = value", "        (self._layers[0] if self._layers else self._mutations)[key] = value")])
V("C19-delitem-layer", "C19", ["C19.R2"], [(LMAP, "        else:\n            raise KeyError(f\"Key '{key}' not found in mutable layer.\")", "        else:\n            for layer in self._layers:\n                layer.pop(key, None)")])
V("C19-inplace-cache-stale", "C19", ["C19.R2"], [(LMAP, "            if \"named_layers\" in self.__dict__:\n                del self.named_layers\n", "")])
V("C19-getitem-layers-first", "C19", ["C19.R3"], [(LMAP, "        for layer in [self._mutations, *self._layers]:\n            if key in layer:\n                return layer[key]", "        for layer in [*self._layers, self._mutations]:\n            if key in layer:\n                return layer[key]")])
V("C19-with-layer-name-reversed", "C19", ["C19.R3"], [(LMAP, "        for layer in self._layers:\n            if key in layer:\n                if isinstance(layer, LayeredMapping):", "        for layer in reversed(self._layers):\n            if key in layer:\n                if isinstance(layer, LayeredMapping):")])
V("C19-len-ignores-mutations", "C19", ["C19.R3"], [(LMAP, "        return len(set(itertools.chain(self._mutations, *self._layers)))", "        return len(set(itertools.chain(*self._layers)))")])
V("C19-setitem-no-reorder", "C19", ["C19.R4"], [(FORMULA, "        self.__terms[key] = value\n        self._reorder()", "        self.__terms[key] = value")])
V("C19-init-no-reorder", "C19", ["C19.R4"], [(FORMULA, "        self.__validate_terms(self.__terms)\n\n        self._reorder()", "        self.__validate_terms(self.__terms)")])
V("C19-insert-no-validate", "C19", ["C19.R4"], [(FORMULA, "        self.__validate_terms([value])\n        self.__terms.insert(index, value)", "        self.__terms.insert(index, value)")])

# ----------------------------------------------------------------------------------------- C08
V("C08-revert-stringdtype", "C08", ["C08.R1"], [(PANDAS, "                values.dtype, (pandas.CategoricalDtype, pandas.StringDtype)", "                values.dtype, pandas.CategoricalDtype")],
  "origin: revert f6d49e3 (pandas>=3 'str' columns copied raw into the matrix)")
V("C08-object-dropped", "C08", ["C08.R1"], [(PANDAS, "            return values.dtype == object or isinstance(", "            return isinstance(")])
V("C08-narwhals-inverted", "C08", ["C08.R1"], [(NARWHALS, "            if not values.dtype.is_numeric():\n                return True", "            if values.dtype.is_numeric():\n                return True")])
V("C08-kind-equiv", "C08", [], [(PANDAS, "            return values.dtype == object or isinstance(\n                values.dtype, (pandas.CategoricalDtype, pandas.StringDtype)\n            )",
                                   "            if values.dtype == object:\n                return True\n            return isinstance(values.dtype, (pandas.StringDtype, pandas.CategoricalDtype))")])
V("C08-unknown-cached", "C08", ["C08.R2"], [(BASE, "                value = FactorValues(value, kind=kind, spans_intercept=spans_intercept)\n", "                pass\n")])
V("C08-numerical-spans", "C08", ["C08.R2"], [(BASE, "                    kind = Factor.Kind.NUMERICAL\n                    spans_intercept = False", "                    kind = Factor.Kind.NUMERICAL\n                    spans_intercept = True")])
V("C08-levels-sorted", "C08", ["C08.R3"], [(CONTRASTS, "        data = pandas.Series(pandas.Categorical(data, categories=levels))", "        data = pandas.Series(pandas.Categorical(data, categories=sorted(levels)))")])
V("C08-categories-sorted", "C08", ["C08.R3"], [(CONTRASTS, "        categories = list(data.cat.categories)", "        categories = sorted(data.cat.categories)")])

# ----------------------------------------------------------------------------------------- C09
V("C09-revert-encoder-state-pool", "C09", ["C09.R1"], [(BASE, "                transform_state=transform_state,\n                encoder_state=encoder_state,\n", "                transform_state=transform_state,\n")],
  "origin: revert 1ebef3b (kind guard never sees the recorded kinds)")
V("C09-encoder-state-not-fed", "C09", ["C09.R1"], [(BASE, "            encoder_state.update(model_spec.encoder_state)\n", "")])
V("C09-na-action-not-pooled", "C09", ["C09.R1"], [(BASE, "                na_action=next(iter(na_action)),\n", "")])
V("C09-guard-inverted", "C09", ["C09.R1"], [(BASE, "                and value.__formulaic_metadata__.kind\n                is not spec.encoder_state[factor.expr][0]", "                and value.__formulaic_metadata__.kind\n                is spec.encoder_state[factor.expr][0]")])
V("C09-too-many-tolerated", "C09", ["C09.R2"], [(BASE, "            if len(scoped_cols) > len(target_cols):\n                raise FactorEncodingError(", "            if len(scoped_cols) > len(target_cols) + 1:\n                raise FactorEncodingError(")])
V("C09-mismatch-tolerated", "C09", ["C09.R2"], [(BASE, "            elif set(scoped_cols) != set(target_cols):", "            elif not set(scoped_cols) & set(target_cols):")])
V("C09-yield-generated-order", "C09", ["C09.R2"], [(BASE, "                {col: scoped_cols[col] for col in target_cols},", "                dict(scoped_cols),")])
V("C09-no-warning", "C09", ["C09.R3"], [(CONTRASTS, "        if extra_categories:\n            warnings.warn(", "        if False:\n            warnings.warn(")])
V("C09-levels-not-pinned", "C09", ["C09.R3"], [(CONTRASTS, "        levels if levels is not None else _state.get(\"categories\")", "        levels")])
V("C09-categorical-unpinned", "C09", ["C09.R3"], [(CONTRASTS, "        data = pandas.Series(pandas.Categorical(data, categories=levels))", "        data = pandas.Series(pandas.Categorical(data))")])

# ----------------------------------------------------------------------------------------- C04
SCALE = "formulaic/transforms/scale.py"
POLY = "formulaic/transforms/poly.py"
BS = "formulaic/transforms/basis_spline.py"
CS = "formulaic/transforms/cubic_spline.py"
STATEFUL = "formulaic/utils/stateful_transforms.py"
FPARSER = "formulaic/parser/types/formula_parser.py"
V("C04-center-recomputed", "C04", ["C04.R1", "C04.R2"], [(SCALE, '    if "center" not in _state:\n        if isinstance(center, bool) and center:', '    if True:\n        if isinstance(center, bool) and center:')])
V("C04-scale-guard-inverted", "C04", ["C04.R1"], [(SCALE, '    if "ddof" not in _state:\n        _state["ddof"] = ddof\n    else:\n        ddof = _state["ddof"]', '    if "ddof" in _state:\n        _state["ddof"] = ddof\n    else:\n        ddof = _state["ddof"]')])
V("C04-scale-notin-equiv", "C04", [], [(SCALE, '    if "scale" not in _state:', '    if not ("scale" in _state):')])
V("C04-bs-bound-recomputed", "C04", ["C04.R1", "C04.R2"], [(BS, '    if "lower_bound" in _state:\n        lower_bound = float(_state["lower_bound"])\n    elif lower_bound is not None:', '    if lower_bound is not None:')])
V("C04-bs-knots-recomputed", "C04", ["C04.R1"], [(BS, '    if "knots" not in _state:\n        knots = [] if knots is None else list(knots)', '    if df or "knots" not in _state:\n        knots = [] if knots is None else list(knots)')])
V("C04-cs-knots-recomputed", "C04", ["C04.R1"], [(CS, '    if "knots" not in _state:\n        if df is None and knots is None:', '    if "knots" not in _state or df is not None:\n        if df is None and knots is None:')])
V("C04-cs-bounds-always", "C04", ["C04.R1", "C04.R2"], [(CS, "    if key in state:\n        bound = float(state[key])\n    elif default is not None:", "    if default is not None:")])
V("C04-poly-alpha-lazy", "C04", ["C04.R2"], [(POLY, "        if training and k not in alpha:\n            alpha[k] =", "        if k not in alpha:\n            alpha[k] =")],
  "a missing coefficient is silently re-estimated from the new data")
V("C04-poly-training-always", "C04", ["C04.R1"], [(POLY, "    if alpha is None:\n        training = True", "    if alpha is None or degree > 1:\n        training = True")])
V("C04-contrasts-levels-unpinned", "C04", ["C04.R2"], [(CONTRASTS, '        levels if levels is not None else _state.get("categories")', "        levels")],
  "levels re-discovered from the new data when not given explicitly")
V("C04-contrasts-restore-from-data", "C04", ["C04.R1"], [(CONTRASTS, '    _state["categories"] = categories\n', '    _state["categories"] = list(pandas.unique(data))\n')])
V("C04-center-fresh-state", "C04", ["C04.R1"], [(SCALE, "    return scale(data, scale=False, _state=_state)", "    return scale(data, scale=False, _state={})")])
V("C04-rehydrate-full", "C04", ["C04.R3"], [("formulaic/materializers/types/scoped_term.py", "                    factor=factor_values[factor.factor.expr],\n                    reduced=factor.reduced,", "                    factor=factor_values[factor.factor.expr],\n                    reduced=False,")])
V("C04-rehydrate-drops-scale", "C04", ["C04.R3"], [("formulaic/materializers/types/scoped_term.py", "                for factor in self.factors\n            ],\n            scale=self.scale,\n        )\n\n    @property", "                for factor in self.factors\n            ],\n        )\n\n    @property")])
V("C04-structure-half-reused", "C04", ["C04.R3"], [(BASE, "        if spec.structure:\n            cols = list(self._enforce_structure(cols, spec, drop_rows))", "        if spec.structure and spec.ensure_full_rank:\n            cols = list(self._enforce_structure(cols, spec, drop_rows))")])
V("C04-base-parser-unsanitised", "C04", ["C04.R4"], [(FPARSER, "        return sanitize_tokens(tokenize(formula))", "        return tokenize(formula)")])
V("C04-state-key-raw", "C04", ["C04.R4"], [(STATEFUL, "            stateful_nodes.append((format_expr(node), cast(ast.Call, node)))", "            stateful_nodes.append((ast.unparse(node).strip(), cast(ast.Call, node)))")])
V("C04-evaluate-fresh-state", "C04", ["C04.R4"], [(BASE, "                spec.transform_state,\n                spec,\n                variables=variables,", "                {},\n                spec,\n                variables=variables,")])
V("C04-getstate-all", "C04", ["C04.R5"], [(SPEC, "            k: v for k, v in self.__dict__.items() if k in self.__dataclass_fields__", "            k: v for k, v in self.__dict__.items() if k != 'transform_state'")])
V("C04-matrix-reduce-drops-spec", "C04", ["C04.R5"], [("formulaic/model_matrix.py", "        return ModelMatrix, (self.__wrapped__, self._self_model_spec)", "        return ModelMatrix, (self.__wrapped__, None)")])

# ----------------------------------------------------------------------------------------- C10
V("C10-indices-overlap", "C10", ["C10.R1"], [(SPEC, "            start = end\n", "            start = end - 1\n")])
V("C10-indices-no-advance", "C10", ["C10.R1"], [(SPEC, "            slices[row[0]] = list(range(start, end))\n            start = end\n", "            slices[row[0]] = list(range(start, end))\n")])
V("C10-slices-off-by-one", "C10", ["C10.R1"], [(SPEC, "            k: slice(v[0], v[-1] + 1) if v else slice(0, 0)", "            k: slice(v[0], v[-1]) if v else slice(0, 0)")])
V("C10-column-names-sorted", "C10", ["C10.R1"], [(SPEC, "        return tuple(feature for row in self.__structure for feature in row.columns)", "        return tuple(sorted(feature for row in self.__structure for feature in row.columns))")])
V("C10-factor-hash-id", "C10", ["C10.R2"], [("formulaic/parser/types/factor.py", "        return self.expr.__hash__()", "        return hash((self.expr, self._kind))")])
V("C10-variable-indices-unsorted", "C10", ["C10.R3"], [(SPEC, "            variable: sorted(\n                {index for term in terms for index in self.term_indices[term]}\n            )", "            variable: list(\n                {index for term in terms for index in self.term_indices[term]}\n            )")])
V("C10-subset-parent-order", "C10", ["C10.R4"], [(SPEC, "            structure=[term_structure[term] for term in terms],", "            structure=list(term_structure.values()),")])
V("C10-subset-missing-ok", "C10", ["C10.R4"], [(SPEC, "        if missing_terms:\n            raise ValueError(", "        if missing_terms and False:\n            raise ValueError(")])

# ----------------------------------------------------------------------------------------- C11
V("C11-sum-square", "C11", ["C11.R1"], [(CONTRASTS, "        contr = spsparse.eye(n, n - 1).tolil() if sparse else numpy.eye(n, n - 1)", "        contr = spsparse.eye(n, n - 1).tolil() if sparse else numpy.eye(n, n)")])
V("C11-helmert-sparse-shape", "C11", ["C11.R1"], [(CONTRASTS, "contr = spsparse.lil_matrix((n, n - 1)) if sparse else numpy.zeros((n, n - 1))", "contr = spsparse.lil_matrix((n - 1, n - 1)) if sparse else numpy.zeros((n, n - 1))")])
V("C11-diff-arange", "C11", ["C11.R1"], [(CONTRASTS, "        contr = numpy.repeat([numpy.arange(1, n)], n, axis=0) / n", "        contr = numpy.repeat([numpy.arange(0, n)], n, axis=0) / n")])
V("C11-poly-degree", "C11", ["C11.R1"], [(CONTRASTS, "        coding_matrix = poly(scores, degree=n - 1)", "        coding_matrix = poly(scores, degree=n)")])
V("C11-treatment-no-drop", "C11", ["C11.R1"], [(CONTRASTS, "            matrix = matrix[:, [i for i in range(matrix.shape[1]) if i != drop_level]]", "            matrix = matrix[:, [i for i in range(matrix.shape[1])]]")])
V("C11-sum-names", "C11", ["C11.R2"], [(CONTRASTS, "        if reduced_rank:\n            return levels[:-1]\n        return levels\n\n    @Contrasts.override\n    def get_coefficient_row_names(\n        self, levels: Sequence[Hashable], reduced_rank: bool = True\n    ) -> Sequence[Hashable]:\n        if reduced_rank:\n            return [\"avg\", *(f\"{level} - avg\" for level in levels[:-1])]",
                                       "        if reduced_rank:\n            return levels[:-2]\n        return levels\n\n    @Contrasts.override\n    def get_coefficient_row_names(\n        self, levels: Sequence[Hashable], reduced_rank: bool = True\n    ) -> Sequence[Hashable]:\n        if reduced_rank:\n            return [\"avg\", *(f\"{level} - avg\" for level in levels[:-1])]")])
V("C11-poly-names-range", "C11", ["C11.R2"], [(CONTRASTS, "                for d in range(1, len(levels))\n", "                for d in range(1, len(levels) + 1)\n")])
V("C11-helmert-full-not-identity", "C11", ["C11.R3"], [(CONTRASTS, "            return spsparse.eye(n).tocsc() if sparse else numpy.eye(n)\n", "            return spsparse.eye(n).tocsc() if sparse else numpy.ones((n, n))\n", 1)])
V("C11-spans-intercept-always", "C11", ["C11.R3"], [(CONTRASTS, "        return len(levels) > 0 and not reduced_rank", "        return len(levels) > 0")])
V("C11-format-shared", "C11", ["C11.R4"], [(CONTRASTS, '    FACTOR_FORMAT_REDUCED = "{name}[S.{field}]"', '    FACTOR_FORMAT_REDUCED = "{name}[{field}]"')])
V("C11-coef-ones-always", "C11", ["C11.R5"], [(CONTRASTS, "        if reduced_rank:\n            coding_matrix = (spsparse if sparse else numpy).hstack(", "        if True:\n            coding_matrix = (spsparse if sparse else numpy).hstack(")])
V("C11-sum-equiv-local", "C11", [], [(CONTRASTS, "        contr = spsparse.eye(n, n - 1).tolil() if sparse else numpy.eye(n, n - 1)", "        k = n - 1\n        contr = spsparse.eye(n, k).tolil() if sparse else numpy.eye(n, k)")])

# ----------------------------------------------------------------------------------------- C16
CONS = "formulaic/utils/constraints.py"
V("C16-sub-rightonly-positive", "C16", ["C16.R2"], [(CONS, """            added.update(
                negate_terms({term for term in terms_right if term not in added})
            )""", """            added.update({term for term in terms_right if term not in added})""")], "`a - b` would become a + b when b only occurs on the right")
V("C16-sub-both-plus", "C16", ["C16.R2"], [(CONS, "                    term = term - terms_right[term]", "                    term = term + terms_right[term]")])
V("C16-add-rightonly-negated", "C16", ["C16.R2"], [(CONS, "            added.update({term for term in terms_right if term not in added})\n", "            added.update({-term for term in terms_right if term not in added})\n")])
V("C16-eq-no-negate", "C16", ["C16.R2"], [(CONS, "to_terms=lambda lhs, rhs: add_terms(lhs, negate_terms(rhs)),", "to_terms=lambda lhs, rhs: add_terms(lhs, rhs),")])
V("C16-minus-swapped", "C16", ["C16.R2"], [(CONS, "to_terms=lambda left, right: sub_terms(left, right),", "to_terms=lambda left, right: sub_terms(right, left),")])
V("C16-div-inverted", "C16", ["C16.R2"], [(CONS, "scale=term_left.scale / term_right.scale", "scale=term_right.scale / term_left.scale")])
V("C16-mul-keeps-wrong-factor", "C16", ["C16.R2"], [(CONS, "            if term_left.factor == 1:\n                return ScaledFactor(\n                    term_right.factor,", "            if term_left.factor == 1:\n                return ScaledFactor(\n                    term_left.factor,")])
V("C16-neg-identity", "C16", ["C16.R2"], [(CONS, "        return ScaledFactor(self.factor, scale=-self.scale)", "        return ScaledFactor(self.factor, scale=self.scale)")])
V("C16-b-sign", "C16", ["C16.R3"], [(CONS, "            constants.append(-constant)", "            constants.append(constant)")])
V("C16-vector-minus", "C16", ["C16.R3"], [(CONS, "                    vector += (\n                        scaled_factor.scale", "                    vector -= (\n                        scaled_factor.scale")])
V("C16-mapping-minus", "C16", ["C16.R3"], [(CONS, "                constants.append(values + numpy.array(constant))", "                constants.append(values - numpy.array(constant))")])
V("C16-star-below-plus", "C16", ["C16.R1"], [(CONS, '                "*",\n                arity=2,\n                precedence=200,', '                "*",\n                arity=2,\n                precedence=50,')])
V("C16-minus-right-assoc", "C16", ["C16.R1"], [(CONS, '                "-",\n                arity=2,\n                precedence=100,\n                associativity="left",', '                "-",\n                arity=2,\n                precedence=100,\n                associativity="right",')])
V("C16-rename-equiv", "C16", [], [(CONS, "        def negate_terms(terms: set[ScaledFactor]) -> set[ScaledFactor]:\n            return {-term for term in terms}", "        def negate_terms(ts: set[ScaledFactor]) -> set[ScaledFactor]:\n            return {-t for t in ts}")])

# ----------------------------------------------------------------------------------------- C18
LAG = "formulaic/transforms/lag.py"
CALC = "formulaic/utils/calculus.py"
V("C18-revert-state-copy", "C18", ["C18.R1"], [(BASE, """                # Never mutate the state of incoming model specs
                "transform_state": copy.deepcopy(model_spec.transform_state),
                "encoder_state": copy.deepcopy(model_spec.encoder_state),
""", "")], "origin: revert 39c8273 (building from an unfitted spec writes into the caller's dictionaries)")
V("C18-shallow-state-copy", "C18", ["C18.R1"], [(BASE, '                "transform_state": copy.deepcopy(model_spec.transform_state),', '                "transform_state": dict(model_spec.transform_state),')])
V("C18-writeback-into-callers-spec", "C18", ["C18.R1"], [(BASE, "        model_specs._map(\n            lambda ms: ms.transform_state.update(", "        spec._map(\n            lambda ms: ms.transform_state.update(")])
V("C18-revert-random-suffix", "C18", ["C18.R5"], [("formulaic/utils/code.py", """    suffix = 0
    while new_name in env:
        suffix += 1
        new_name = template.format(f"{base_name}_{suffix}")
""", """    import numpy
    while new_name in env:
        new_name = template.format(
            base_name
            + "_"
            + "".join(numpy.random.choice(list("abcefghiklmnopqrstuvwxyz"), 10))
        )
""")], "origin: revert f1fd98f (random alias suffix flows into the transform-state key)")
V("C18-id-in-name", "C18", ["C18.R5"], [("formulaic/utils/code.py", '        new_name = template.format(f"{base_name}_{suffix}")', '        new_name = template.format(f"{base_name}_{suffix}_{id(env) % 97}")')])
V("C18-wildcard-set", "C18", ["C18.R2"], [(PARSER, """                available_variables = OrderedSet(
                    context["__formulaic_variables_available__"]
                )""", """                available_variables = set(
                    context["__formulaic_variables_available__"]
                )""")], "`.` expands in hash order")
V("C18-droprows-unsorted", "C18", ["C18.R2"], [(BASE, "        drop_rows: Sequence[int] = sorted(drop_rows)", "        drop_rows: Sequence[int] = list(drop_rows)")])
V("C18-pooled-factor-names", "C18", ["C18.R2"], [(BASE, "        return factors, cast(\n            ModelSpec,", "        self._last_factor_order = [f.expr for f in factors]\n        return factors, cast(\n            ModelSpec,")])
V("C18-diff-union-set", "C18", ["C18.R2"], [(CALC, "    factors = OrderedSet(term.factors)", "    factors = set(term.factors)")])
V("C18-scale-inplace", "C18", ["C18.R3"], [(SCALE, "    data = numpy.array(data)\n", "    data = numpy.asarray(data)\n"), (SCALE, "        data = data - _state[\"center\"]", "        data -= _state[\"center\"]")],
  "two cooperating edits: asarray (alias) + in-place subtraction mutate the caller's column")
V("C18-lag-no-copy", "C18", ["C18.R3"], [(LAG, "    data = numpy.copy(data).astype(float)", "    data = numpy.asarray(data)")])
V("C18-bs-clip-out", "C18", ["C18.R3"], [(BS, "                x = numpy.clip(x, lower_bound, upper_bound)", "                x = numpy.clip(x, lower_bound, upper_bound, out=x)")])
V("C18-cs-zero-input", "C18", ["C18.R3"], [(CS, "        cs_mat[below_lower | above_upper] = 0.0", "        x[below_lower | above_upper] = 0.0")])
V("C18-materializer-data-write", "C18", ["C18.R3"], [(PANDAS, "        nrows = self.nrows - len(drop_rows)\n        if spec.output == \"sparse\":", "        nrows = self.nrows - len(drop_rows)\n        self.data[\"__const__\"] = value\n        if spec.output == \"sparse\":")])
V("C18-default-parser-flags", "C18", ["C18.R4"], [(FORMULA, "        nested_parser = nested_parser or parser or DEFAULT_NESTED_PARSER\n        parser = parser or DEFAULT_PARSER\n", "        nested_parser = nested_parser or parser or DEFAULT_NESTED_PARSER\n        parser = parser or DEFAULT_PARSER\n        if context and context.get('multistage'):\n            DEFAULT_PARSER.set_feature_flags({'all'})\n")])
V("C18-unwrapped-state-default", "C18", ["C18.R4"], [(SCALE, "@stateful_transform\ndef center(", "def center(")])
V("C18-parse-context-shared", "C18", ["C18.R4"], [(FPARSER, "        context = LayeredMapping(context or {}, self.context)", "        context = context if context is not None else (self.context or {})")])
V("C18-spec-setattr", "C18", ["C18.R6"], [(SPEC, "        return replace(self, **kwargs)", "        for k, v in kwargs.items():\n            object.__setattr__(self, k, v)\n        return self")])
V("C18-local-temp-equiv", "C18", [], [(POLY, "    out = numpy.empty((x.shape[0], degree))\n    out.fill(numpy.nan)", "    out = numpy.empty((x.shape[0], degree))\n    out[:] = numpy.nan")])
V("C18-sorted-set-equiv", "C18", [], [(BASE, "        drop_rows: Sequence[int] = sorted(drop_rows)", "        drop_rows: Sequence[int] = sorted(set(drop_rows))")])

# ----------------------------------------------------------------------------------------- C13
TINIT = "formulaic/transforms/__init__.py"
V("C13-revert-exp10", "C13", ["C13.R1"], [(TINIT, '"exp10": lambda x: numpy.power(10.0, x),', '"exp10": lambda x: numpy.power(x, 10),')], "origin: revert da70647 (exp10(x) = x**10)")
V("C13-log2-misbound", "C13", ["C13.R1"], [(TINIT, '"log2": numpy.log2,', '"log2": numpy.log10,')])
V("C13-exp10-pow-equiv", "C13", [], [(TINIT, '"exp10": lambda x: numpy.power(10.0, x),', '"exp10": lambda v: 10.0 ** v,')])
V("C13-scale-uncentred-std", "C13", ["C13.R2"], [(SCALE, '    if _state["center"] is not None:\n        data = data - _state["center"]\n', '')],
  "the scale would be estimated (and applied) without centring")
V("C13-ddof-ignored", "C13", ["C13.R2"], [(SCALE, "numpy.sum(data**2, axis=0) / (data.shape[0] - ddof)", "numpy.sum(data**2, axis=0) / (data.shape[0] - 1)")])
V("C13-center-scales", "C13", ["C13.R2"], [(SCALE, "    return scale(data, scale=False, _state=_state)", "    return scale(data, scale=True, _state=_state)")])
V("C13-standardize-flags", "C13", ["C13.R2"], [("formulaic/transforms/patsy_compat.py", "return scale(x, center=center, scale=rescale, ddof=ddof, _state=_state)", "return scale(x, center=rescale, scale=center, ddof=ddof, _state=_state)")])
V("C13-poly-null-rows", "C13", ["C13.R2"], [(POLY, "    out.fill(numpy.nan)", "    out.fill(0.0)")])

# ----------------------------------------------------------------------------------------- C17
V("C17-revert-required-variables", "C17", ["C17.R4"], [(FORMULA, "            for variable in factor_variables(factor)\n", "            for variable in get_expression_variables(factor.expr, {})\n")],
  "origin: revert d1e8a62 (every factor parsed as Python)")
V("C17-lookup-parsed", "C17", ["C17.R4"], [(FORMULA, "            if factor.eval_method is Factor.EvalMethod.LOOKUP:\n                return [Variable(factor.expr, roles=(\"value\",))]\n", "")])
V("C17-layer-order", "C17", ["C17.R1"], [(BASE, '            LayeredMapping(self.data_context, name="data"),\n            LayeredMapping(self.context, name="context"),', '            LayeredMapping(self.context, name="context"),\n            LayeredMapping(self.data_context, name="data"),')])
V("C17-layer-name", "C17", ["C17.R1"], [(BASE, 'LayeredMapping(TRANSFORMS, name="transforms"),', 'LayeredMapping(TRANSFORMS, name="context"),')])
V("C17-wildcard-all-vars", "C17", ["C17.R5"], [(PARSER, "            unused_variables = available_variables - used_variables", "            unused_variables = available_variables")])
V("C17-lhs-vars-whole-formula", "C17", ["C17.R5"], [(PARSER, "            for token in tokens[:rhs_index]\n            for variable in token.required_variables", "            for token in tokens\n            for variable in token.required_variables")])
V("C17-lookup-source-none", "C17", ["C17.R6"], [(BASE, 'return values, {Variable(name, roles=("value",), source=layer)}', 'return values, {Variable(name, roles=("value",), source="data")}')])
V("C17-context-key-conditional", "C17", ["C17.R3"], [(PARSER, """        context["__formulaic_variables_used_lhs__"] = [
            variable
            for token in tokens[:rhs_index]
            for variable in token.required_variables
        ]
""", """        if rhs_index > 0:
            context["__formulaic_variables_used_lhs__"] = [
                variable
                for token in tokens[:rhs_index]
                for variable in token.required_variables
            ]
""")], "one-sided formula with `.` → KeyError")

# ----------------------------------------------------------------------------------------- C20
V("C20-resorted", "C20", ["C20.R1"], [(FORMULA, "            # Preserve term ordering even if differentiation modifies degrees/etc.\n            _ordering=OrderingMethod.NONE,", "            _ordering=self.ordering,")])
V("C20-drops-zero-terms", "C20", ["C20.R1"], [(FORMULA, "                differentiate_term(term, wrt, use_sympy=use_sympy)\n                for term in self.__terms\n", "                differentiate_term(term, wrt, use_sympy=use_sympy)\n                for term in self.__terms\n                if term.degree > 0\n")])
V("C20-zero-becomes-one", "C20", ["C20.R2"], [(CALC, '            return Term({Factor("0", eval_method="literal")})', '            return Term({Factor("1", eval_method="literal")})')])
V("C20-empty-becomes-zero", "C20", ["C20.R2"], [(CALC, '    return Term(factors or {Factor("1", eval_method="literal")})', '    return Term(factors or {Factor("0", eval_method="literal")})')])
V("C20-keeps-affected", "C20", ["C20.R2"], [(CALC, "            (factors - affected_factors)\n            | (_differentiate_factors", "            factors\n            | (_differentiate_factors")])

# ----------------------------------------------------------------------------------------- C01.R10
PUTILS = "formulaic/parser/utils.py"
V("C01-replace-any-kind", "C01", ["C01.R10"], [(PUTILS, "        if kind and token.kind is not kind or token.token != token_to_replace:", "        if kind and token.kind is not kind and token.token != token_to_replace:")])
V("C01-replace-demorgan-equiv", "C01", [], [(PUTILS, "        if kind and token.kind is not kind or token.token != token_to_replace:", "        if token.token != token_to_replace or (kind and token.kind is not kind):")])
V("C01-join-ignores-set", "C01", ["C01.R10"], [(PUTILS, "                        and next_token.token not in no_join_for_operators", "                        and next_token.token in no_join_for_operators")])
V("C01-insert-anywhere", "C01", ["C01.R10"], [(PUTILS, "            if m and m.span()[1] == len(split_token.token):", "            if m:")])
V("C01-merge-reversed", "C01", ["C01.R10"], [(PUTILS, "token=pooled_token.token + token.token", "token=token.token + pooled_token.token")])
V("C01-merge-no-flush", "C01", ["C01.R10"], [(PUTILS, "    if pooled_token:\n        yield pooled_token\n", "")])

# ----------------------------------------------------------------------------------------- variants distilled from seeded changes (see /verif/seeded)
TERM = "formulaic/parser/types/term.py"
V("C01-term-key-joined", "C01", ["C01.R5"], [(TERM, "        self._factor_key = tuple(factor.expr for factor in sorted(self.factors))\n        self._hash = hash(\":\".join(self._factor_key))",
                                              "        self._factor_key = \":\".join(factor.expr for factor in sorted(self.factors))\n        self._hash = hash(self._factor_key)")], "seed C01-s3")
V("C14-rhs-index-pop", "C14", ["C14.R8"], [(PARSER, """                        if (
                            not context
                            or context[-1] != CONTEXT_CLOSERS[token.token]
                        ):
                            return -1  # pragma: no cover ; should not happen
                        context.pop()""", """                        if context.pop() != CONTEXT_CLOSERS[token.token]:
                            return -1  # pragma: no cover ; should not happen""")], "seed C14-s1: stray closer -> IndexError")
V("C14-power-token-none", "C14", ["C14.R9"], [(PARSER, "(next(iter(power)).factors[0].token if power else None) or Token(),", "next(iter(power)).factors[0].token if power else Token(),")], "seed C14-s3")
V("C14-guard-order-equiv", "C14", [], [(PARSER, """                        if (
                            not context
                            or context[-1] != CONTEXT_CLOSERS[token.token]
                        ):""", """                        if len(context) == 0 or context[-1] != CONTEXT_CLOSERS[token.token]:""")])
V("C17-named-layers-forward", "C17", ["C17.R2"], [(LMAP, "        for layer in reversed(self._layers):\n            if isinstance(layer, LayeredMapping):\n                if layer.name:\n                    local[layer.name] = layer\n                named_layers.update(layer.named_layers)\n        named_layers.update(local)",
                                                     "        for layer in self._layers:\n            if isinstance(layer, LayeredMapping):\n                named_layers.update(layer.named_layers)")], "seed C17-s1")
V("C17-aliases-as-context", "C17", ["C17.R4"], [(FORMULA, "                sanitize_variable_names(factor.expr, {}, aliases), {}, aliases\n", "                sanitize_variable_names(factor.expr, {}, aliases), aliases\n")], "seed C17-s3")
V("C17-context-dropped-overrides", "C17", ["C17.R7"], [(SPEC, "            return self.update(**attr_overrides).get_model_matrix(\n                data, context=context, drop_rows=drop_rows\n            )", "            return self.update(**attr_overrides).get_model_matrix(\n                data, drop_rows=drop_rows\n            )")], "seed C17-s2")
V("C04-bs-clip-train-only", "C04", ["C04.R6"], [(BS, "        if not numpy.all(locs):\n            knots_x = x[locs]", "        if \"knots\" not in _state and not numpy.all(locs):\n            knots_x = x[locs]")], "seed C04-s2")
V("C09-pool-filtered", "C09", ["C09.R1"], [(BASE, "            encoder_state.update(model_spec.encoder_state)\n", "            encoder_state.update({k: v for k, v in model_spec.encoder_state.items() if k in model_spec.formula})\n")], "seed C09-s1")
V("C09-C-levels-from-data", "C09", ["C09.R3"], [(CONTRASTS, "    def encoder(\n        values: Any,\n        reduced_rank: bool,\n        drop_rows: list[int],\n        encoder_state: dict[str, Any],\n        model_spec: ModelSpec,\n    ) -> FactorValues:\n        # wrapped numpy arrays are problematic",
                                                 "    if levels is None and isinstance(getattr(data, \"dtype\", None), pandas.CategoricalDtype):\n        levels = list(data.cat.categories)\n\n    def encoder(\n        values: Any,\n        reduced_rank: bool,\n        drop_rows: list[int],\n        encoder_state: dict[str, Any],\n        model_spec: ModelSpec,\n    ) -> FactorValues:\n        # wrapped numpy arrays are problematic")], "seed C09-s2")
V("C03-cache-key-encoded", "C03", ["C03.R6"], [(BASE, "                    if isinstance(encoded, dict) and factor.metadata.drop_field\n", "                    if isinstance(encoded, dict) and encoded.__formulaic_metadata__.drop_field\n")], "seed C07-s1")
V("C07-cache-key-encoded", "C07", ["C07.R8"], [(BASE, "                    if isinstance(encoded, dict) and factor.metadata.drop_field\n", "                    if isinstance(encoded, dict) and encoded.__formulaic_metadata__.drop_field\n")], "seed C07-s1")
V("C07-rehydrate-scale", "C07", ["C07.R6"], [("formulaic/materializers/types/scoped_term.py", "                for factor in self.factors\n            ],\n            scale=self.scale,\n        )\n\n    @property", "                for factor in self.factors\n            ],\n        )\n\n    @property")], "seed C07-s2")
V("C02-rehydrate-scale", "C02", ["C02.R2"], [("formulaic/materializers/types/scoped_term.py", "                for factor in self.factors\n            ],\n            scale=self.scale,\n        )\n\n    @property", "                for factor in self.factors\n            ],\n        )\n\n    @property")], "seed C02-s2")
V("C07-C-label-drop", "C07", ["C07.R7"], [(CONTRASTS, "        values = values.iloc[numpy.delete(numpy.arange(values.shape[0]), drop_rows)]", "        values = values.drop(index=values.index[drop_rows])")], "seed C07-s3")
V("C18-env-conditional-wrap", "C18", ["C18.R4"], [(STATEFUL, "    env = LayeredMapping(\n        env\n    )  # We sometimes mutate env, so we make sure we do so in a local mutable layer.", "    if not isinstance(env, LayeredMapping):\n        env = LayeredMapping(env)")], "seed C18-s1")

V("C13-exp10-int-base", "C13", ["C13.R1"], [(TINIT, '"exp10": lambda x: numpy.power(10.0, x),', '"exp10": lambda x: numpy.power(10, x),')], "seed C13-s1: integer base fails on integer columns")
V("C13-poly-norm-floor", "C13", ["C13.R2"], [(POLY, "    P /= numpy.array([numpy.sqrt(get_norm(k)) for k in range(0, degree + 1)])", "    P /= numpy.array([numpy.sqrt(max(get_norm(k), numpy.finfo(float).eps)) for k in range(0, degree + 1)])")], "seed C13-s3")

# ----------------------------------------------------------------------------------------- distilled from wave-2 seeds
V("C11-diff-sparse-before-sign", "C11", ["C11.R6"], [(CONTRASTS, """        if not self.backward:
            contr *= -1
        if sparse:
            return spsparse.csc_matrix(contr)
        return contr""", """        if sparse:
            return spsparse.csc_matrix(contr)
        if not self.backward:
            contr *= -1
        return contr""")], "seed C11-s2")
V("C11-helmert-divisor", "C11", ["C11.R7"], [(CONTRASTS, "                contr[:, i] /= i + 2 if self.reverse else n - i", "                contr[:, i] /= i + 2")], "seed C11-s3")
V("C11-helmert-divisor-commuted-equiv", "C11", [], [(CONTRASTS, "                contr[:, i] /= i + 2 if self.reverse else n - i", "                contr[:, i] /= 2 + i if self.reverse else -i + n")])
V("C11-base-truthiness", "C11", ["C11.R7"], [(CONTRASTS, "        if self.base is UNSET:\n            return 0", "        if not self.base:\n            return 0")], "seed C11-s1")
V("C03-drop-guard-truthy", "C03", ["C03.R6"], [(BASE, "            and encoded.__formulaic_metadata__.spans_intercept  # type: ignore\n            and reduced_rank\n", "            and encoded.__formulaic_metadata__.spans_intercept  # type: ignore\n            and encoded.__formulaic_metadata__.drop_field  # type: ignore\n            and reduced_rank\n")], "seed C03-s2")
V("C19-update-falsy-root", "C19", ["C19.R1"], [(STRUCT, "        if root is not MISSING:\n            structure[\"root\"] = root\n        return self.__class__(", "        if root:\n            structure[\"root\"] = root\n        return self.__class__(")], "seed C19-s3")
V("C19-setitem-conditional-reorder", "C19", ["C19.R4"], [(FORMULA, "        self.__terms[key] = value\n        self._reorder()", "        previous = self.__terms[key]\n        self.__terms[key] = value\n        if previous.degree != value.degree:\n            self._reorder()")], "seed C19-s1")
V("C20-early-break", "C20", ["C20.R2"], [(CALC, "    for var in wrt:\n        affected_factors = set(", "    for var in wrt:\n        if not factors:\n            break\n        affected_factors = set(")], "seed C20-s3")
V("C08-is-string-dtype", "C08", ["C08.R1"], [(PANDAS, "            return values.dtype == object or isinstance(\n                values.dtype, (pandas.CategoricalDtype, pandas.StringDtype)\n            )", "            return isinstance(values.dtype, pandas.CategoricalDtype) or pandas.api.types.is_string_dtype(values)")], "seed C08-s1")
V("C08-droprows-to-numpy", "C08", ["C08.R4"], [(NULLS, "    return values.iloc[numpy.delete(numpy.arange(values.shape[0]), indices)]", "    return pandas.Series(numpy.delete(values.to_numpy(), indices), index=values.index.delete(indices), name=values.name)")], "seed C08-s2")
V("C10-stateful-eval-aliases-dropped", "C10", ["C10.R3"], [(STATEFUL, "        variables.update(get_expression_variables(code, env, aliases))", "        variables.update(get_expression_variables(code, env))")], "seed C10-s3")
V("C05-droprows-overrides", "C05", ["C05.R3"], [(SPEC, "            return self.update(**attr_overrides).get_model_matrix(\n                data, context=context, drop_rows=drop_rows\n            )", "            return self.update(**attr_overrides).get_model_matrix(\n                data, context=context\n            )")], "seed C05-s3")
V("C07-revert-cache-hit-state", "C07", ["C07.R9"], [(BASE, """            if (
                factor.expr not in spec.encoder_state
                and factor.expr in self.encoder_state_cache
            ):
                # The encoding was served from the cache (generated for another
                # part of a structured formula); this spec must record the
                # encoder state too, or it cannot regenerate its own part.
                spec.encoder_state[factor.expr] = self.encoder_state_cache[factor.expr]
""", "")], "origin: revert 394022c")
V("C09-revert-cache-hit-state", "C09", ["C09.R1"], [(BASE, """                spec.encoder_state[factor.expr] = self.encoder_state_cache[factor.expr]
""", """                pass
""")], "origin: revert 394022c")
V("C20-revert-structure-reset", "C20", ["C20.R1"], [(SPEC, "            structure=None,\n        )\n\n    # Only include dataclass fields when pickling.", "        )\n\n    # Only include dataclass fields when pickling.")], "origin: revert 0cce34b")
CAST = "formulaic/utils/cast.py"
V("C02-ascolumns-shift", "C02", ["C02.R9"], [(CAST, "    return {column_names[i]: data[:, i] for i in range(data.shape[1])}\n\n\n@as_columns.register\n@propagate_metadata\ndef _(data: scipy.sparse.csc_matrix)", "    return {column_names[i]: data[:, i - 1] for i in range(data.shape[1])}\n\n\n@as_columns.register\n@propagate_metadata\ndef _(data: scipy.sparse.csc_matrix)")])
V("C02-format-reduced-always", "C02", ["C02.R9"], [("formulaic/materializers/types/factor_values.py", "self.format_reduced if self.reduced and self.format_reduced else self.format", "self.format_reduced if self.format_reduced else self.format")])
V("C01-nested-uses-root-parser", "C01", ["C01.R7"], [(FORMULA, 'parser=(self._parser if key == "root" else self._nested_parser),', "parser=self._parser,")])

# ----------------------------------------------------------------------------------------- generic forwarding (F1) and wave-3 distilled variants
V("C11-apply-sparse-dropped", "C11", ["C11.F1"], [(CONTRASTS, "        coding_matrix = self.get_coding_matrix(levels, reduced_rank, sparse=sparse)\n        return (dummies if sparse else dummies.values) @ coding_matrix", "        coding_matrix = self.get_coding_matrix(levels, reduced_rank)\n        return (dummies if sparse else dummies.values) @ coding_matrix")])
V("C11-state-coef-reduced-dropped", "C11", ["C11.R8"], [(CONTRASTS, "        return self.contrasts.get_coefficient_matrix(\n            self.levels, reduced_rank=reduced_rank, sparse=sparse\n        )", "        return self.contrasts.get_coefficient_matrix(\n            self.levels, sparse=sparse\n        )")], "seed C11-t3")
V("C05-fromspec-context-dropped", "C05", ["C05.R5"], [(SPEC, "            formula = Formula.from_spec(obj, context=context)", "            formula = Formula.from_spec(obj)")])
V("C01-fromspec-context-dropped", "C01", ["C01.R7"], [(FORMULA, "                .get_terms(spec, context=context)\n", "                .get_terms(spec)\n")])
V("C14-tokenize-empty-token", "C14", ["C14.R10"], [(TOKENIZE, "            quote_context.pop(-1)\n            if token:\n                if quote_context:\n                    token.update(char, i)\n                else:\n                    yield token\n                    token = Token(source=formula)\n            continue", "            quote_context.pop(-1)\n            if quote_context:\n                token.update(char, i)\n            else:\n                yield token\n                token = Token(source=formula)\n            continue")], "seed C14-t1")
V("C01-closer-any-opener", "C01", ["C01.R9"], [(T2A, "                if operator_stack and operator_stack[-1].token == starting_token:", "                if operator_stack and operator_stack[-1].token in CONTEXT_OPENERS:")], "seed C01-t3")
V("C17-insert-fast-path", "C17", ["C17.R5"], [(PUTILS, "    tokens = list(tokens)\n\n    if not isinstance(pattern, re.Pattern):", "    tokens = list(tokens)\n    if not tokens_to_add:\n        yield from tokens\n        return\n\n    if not isinstance(pattern, re.Pattern):")], "seed C17-t2")
V("C17-keywords-not-walked", "C17", ["C17.R4"], [("formulaic/utils/variables.py", "            todo.extend(node.keywords)\n", "")], "seed C17-t3")
V("C13-wrapper-kwargs-dropped", "C13", ["C13.R3"], [(STATEFUL, "                        datum, *args, _state=statum, **extra_params, **kwargs\n", "                        datum, *args, _state=statum, **extra_params\n")], "seed C13-t1")
V("C04-standardize-undecorated", "C04", ["C04.R1"], [("formulaic/transforms/patsy_compat.py", "@stateful_transform\ndef standardize(", "def standardize(")], "seed C04-t1")
V("C18-guard-demorgan", "C18", ["C18.R2"], [(BASE, "        if len(output) != 1 or len(na_action) != 1 or len(ensure_full_rank) != 1:", "        if not (len(output) == 1 or len(na_action) == 1 or len(ensure_full_rank) == 1):")], "seed C18-t2")
V("C18-bs-knots-alias", "C18", ["C18.R3"], [(BS, "        knots = [] if knots is None else list(knots)", "        knots = [] if knots is None else (knots if isinstance(knots, list) else list(knots))")], "seed C18-t3")
V("C18-sas-memoize", "C18", ["C18.R7"], [(CONTRASTS, "        if self.base is UNSET:\n            return len(levels) - 1", "        if self.base is UNSET:\n            self.base = levels[-1]")], "seed C18-t1")
V("C07-empty-part-index", "C07", ["C07.R7"], [(PANDAS, "            if drop_rows:\n                pandas_index = pandas_index.delete(drop_rows)\n\n        # Special case no columns to empty csc_matrix, array, or DataFrame\n        if not cols:\n            values = numpy.empty((self.nrows - len(drop_rows), 0))\n            if spec.output == \"sparse\":\n                return spsparse.csc_matrix(values)\n            if spec.output == \"numpy\":\n                return values\n            return pandas.DataFrame(index=pandas_index)\n",
  "\n        # Special case no columns to empty csc_matrix, array, or DataFrame\n        if not cols:\n            values = numpy.empty((self.nrows - len(drop_rows), 0))\n            if spec.output == \"sparse\":\n                return spsparse.csc_matrix(values)\n            if spec.output == \"numpy\":\n                return values\n            return pandas.DataFrame(index=pandas_index)\n        if spec.output == \"pandas\" and drop_rows:\n            pandas_index = pandas_index.delete(drop_rows)\n")], "seed C07-t1")
V("C07-should-simplify-late", "C07", ["C07.R3"], [(BASE, "        should_simplify = isinstance(spec, ModelSpec)\n        model_specs: ModelSpecs = self._prepare_model_specs(spec)\n", "        model_specs: ModelSpecs = self._prepare_model_specs(spec)\n        should_simplify = not model_specs._has_structure\n")], "seed C07-t3")
V("C09-record-only-nonempty", "C09", ["C09.R4"], [(BASE, "                spec.encoder_state[factor.expr] = (factor.metadata.kind, encoder_state)\n", "                if encoder_state:\n                    spec.encoder_state[factor.expr] = (factor.metadata.kind, encoder_state)\n")], "seed C09-t1")
V("C09-narwhals-state-dropped", "C09", ["C09.R4"], [(NARWHALS, "                _metadata=metadata,\n                _state=encoder_state,\n", "                _metadata=metadata,\n")], "seed C09-t3")
V("C06-findnulls-axis0", "C06", ["C06.R7"], [(NULLS, "numpy.flatnonzero(numpy.any(numpy.isnan(values), axis=1))", "numpy.flatnonzero(numpy.any(numpy.isnan(values), axis=0))")], "seed C06-t2")
V("C06-mutable-default", "C06", ["C06.R1"], [(SPEC, "        context: Optional[Mapping[str, Any]] = None,\n        drop_rows: Optional[set[int]] = None,\n        **attr_overrides: Any,\n    ) -> ModelMatrix:", "        context: Optional[Mapping[str, Any]] = None,\n        drop_rows: set[int] = set(),\n        **attr_overrides: Any,\n    ) -> ModelMatrix:")], "seed C06-t3")
V("C19-flatten-public-iter", "C19", ["C19.R1"], [(STRUCT, "        for value in self._structure.values():\n            yield from flatten_obj(value)", "        for value in self:\n            yield from flatten_obj(value)")], "seed C19-t1")
V("C19-withlayers-drops-self", "C19", ["C19.R2"], [(LMAP, "        new_layers = [*layers, self] if prepend else [self, *layers]", "        new_layers = [*layers, self] if prepend else [*self._layers, *layers]")], "seed C19-t2")
V("C19-slice-ordering", "C19", ["C19.R4"], [(FORMULA, "            return self.__class__(self.__terms[key], _ordering=self.ordering)", "            return self.__class__(self.__terms[key])")], "seed C19-t3")
V("C03-poly-names-constant", "C11", ["C11.R2"], [(CONTRASTS, "                self.NAME_ALIASES[d] if d in self.NAME_ALIASES else f\"^{d}\"\n", "                self.NAME_ALIASES.get(d, \"^{d}\")\n")], "seed C03-t1")
V("C04-revert-duplicate-calls", "C04", ["C04.R4"], [(STATEFUL, "    stateful_nodes: list[tuple[str, ast.Call]] = []\n    for node in ast.walk(code):\n        if _is_stateful_transform(node, env):\n            stateful_nodes.append((format_expr(node), cast(ast.Call, node)))\n\n    # Mutate stateful nodes to pass in state from a shared dictionary.\n    for name, node in stateful_nodes:\n",
  "    stateful_nodes: dict[str, ast.Call] = {}\n    for node in ast.walk(code):\n        if _is_stateful_transform(node, env):\n            stateful_nodes[format_expr(node)] = cast(ast.Call, node)\n\n    # Mutate stateful nodes to pass in state from a shared dictionary.\n    for name, node in stateful_nodes.items():\n")], "origin: revert 88fe04b")
V("C18-revert-cache-reset", "C18", ["C18.R8"], [(BASE, "        self.factor_cache.clear()\n        self.encoded_cache.clear()\n        self.encoder_state_cache.clear()\n", "")], "origin: revert b35d9c5")
V("C18-cache-reset-partial", "C18", ["C18.R8"], [(BASE, "        self.encoded_cache.clear()\n", "")])
V("C14-revert-getstate", "C14", ["C14.R5"], [("formulaic/parser/types/operator_resolver.py", "        return {k: v for k, v in self.__dict__.items() if k != \"operator_table\"}", "        return {}")], "origin: revert 6c0704b")

# ---------------------------------------------------------------------------------------------------- C15 (lexing)
TOKEN = "formulaic/parser/types/token.py"
SANITIZE = "formulaic/parser/algos/sanitize_tokens.py"
CODE = "formulaic/utils/code.py"
V("C15-revert-nested-quotes", "C15", ["C15.R4"], [(TOKENIZE, '''            if char in "`([{\\"'" and quote_context[-1] in "})]":
                quote_context.append(
                    char.replace("(", ")").replace("[", "]").replace("{", "}")
                )
''', '''            if char in "`([" and quote_context[-1] in "})]":
                quote_context.append(char.replace("(", ")").replace("[", "]"))
''')], "origin: revert 2571948")
V("C15-nested-no-strings", "C15", ["C15.R4"], [(TOKENIZE, '''            if char in "`([{\\"'" and quote_context[-1] in "})]":''', '''            if char in "`([{" and quote_context[-1] in "})]":''')])
V("C15-update-lowercases", "C15", ["C15.R1"], [(TOKEN, "        self.token += char\n", "        self.token += char.lower()\n")])
V("C15-update-no-end", "C15", ["C15.R1"], [(TOKEN, "        self.source_end = source_index\n", "")])
V("C15-update-start-always", "C15", ["C15.R1"], [(TOKEN, "        if self.source_start is None:\n            self.source_start = source_index\n", "        self.source_start = source_index\n")])
V("C15-tokenize-shifted-index", "C15", ["C15.R1"], [(TOKENIZE, "        if take > 0:\n            token.update(char, i)\n", "        if take > 0:\n            token.update(char, i + 1)\n")])
V("C15-verbatim-misses-percent", "C15", ["C15.R2"], [(TOKENIZE, '''quote_context[-1] in ('"', "'", "`", ")", "]", "}", "%"):''', '''quote_context[-1] in ('"', "'", "`", ")", "]", "}"):''')])
V("C15-wrong-partner", "C15", ["C15.R3"], [(TOKENIZE, '''                quote_context.append(")" if char == "(" else "]")''', '''                quote_context.append("]" if char == "(" else ")")''')])
V("C15-brace-pushes-paren", "C15", ["C15.R3"], [(TOKENIZE, '''            token = Token(source=formula, kind="python", source_start=i)
            quote_context.append("}")''', '''            token = Token(source=formula, kind="python", source_start=i)
            quote_context.append(")")''')])
V("C15-escape-takes-nothing", "C15", ["C15.R5"], [(TOKENIZE, "            token.update(char, i)\n            take = 1\n", "            token.update(char, i)\n            take = 0\n")])
V("C15-escape-after-closers", "C15", ["C15.R5"], [(TOKENIZE, '''        if quote_context and char == "\\\\":
            token.update(char, i)
            take = 1
            continue
''', ""), (TOKENIZE, '''        if quote_context and quote_context[-1] in ('"', "'", "`", ")", "]", "}", "%"):''', '''        if quote_context and char == "\\\\":
            token.update(char, i)
            take = 1
            continue
        if quote_context and quote_context[-1] in ('"', "'", "`", ")", "]", "}", "%"):''')])
V("C15-whitespace-kept", "C15", ["C15.R6"], [(TOKENIZE, "        if whitespace_chars.match(char):\n            if token and token.kind is not Token.Kind.OPERATOR:\n                yield token\n                token = Token(source=formula)\n            continue\n",
                                               "        if whitespace_chars.match(char):\n            if token and token.kind is not Token.Kind.OPERATOR:\n                yield token\n                token = Token(source=formula)\n            token.update(char, i)\n            continue\n")])
V("C15-whitespace-only-blank", "C15", ["C15.R6"], [(TOKENIZE, '''whitespace_chars: Pattern = re.compile(r"\\s"),''', '''whitespace_chars: Pattern = re.compile(r" "),''')])
V("C15-whitespace-before-quotes", "C15", ["C15.R6"], [(TOKENIZE, "        if whitespace_chars.match(char):\n            if token and token.kind is not Token.Kind.OPERATOR:\n                yield token\n                token = Token(source=formula)\n            continue\n", ""),
                                                     (TOKENIZE, "        if take > 0:\n            token.update(char, i)\n            take -= 1\n            continue\n",
                                                      "        if take > 0:\n            token.update(char, i)\n            take -= 1\n            continue\n        if whitespace_chars.match(char):\n            if token and token.kind is not Token.Kind.OPERATOR:\n                yield token\n                token = Token(source=formula)\n            continue\n")])
V("C15-sanitize-skips-python", "C15", ["C15.R7"], [(SANITIZE, "        if token.kind is Token.Kind.PYTHON:\n            token.token = sanitize_python_code(token.token)\n", "")])
V("C15-sanitize-drops-dot", "C15", ["C15.R7"], [(SANITIZE, "            token.kind = Token.Kind.OPERATOR\n", "            token.kind = Token.Kind.OPERATOR\n            continue\n")])
V("C15-format-expr-identity", "C15", ["C15.R7"], [(CODE, "    code = ast.parse(expr, mode=\"eval\") if isinstance(expr, str) else expr\n    return ast.unparse(code).replace(\"\\n\", \" \")", "    return expr if isinstance(expr, str) else ast.unparse(expr)")])
V("C15-aliases-not-restored", "C15", ["C15.R7"], [(SANITIZE, "    while aliases:\n", "    while aliases and False:\n")])
V("C15-context-exclusive-end", "C15", ["C15.R8"], [(TOKEN, "self.source[self.source_start:self.source_end+1]}⧚{self.source[self.source_end+1:]}\"\n", "self.source[self.source_start:self.source_end]}⧚{self.source[self.source_end:]}\"\n")])
V("C15-python-token-lookup", "C15", ["C15.R8"], [(TOKEN, '            Token.Kind.PYTHON: "python",', '            Token.Kind.PYTHON: "lookup",')])
V("C15-eq-closers-as-tuple", "C15", [], [(TOKENIZE, '''quote_context[-1] in "})]":''', '''quote_context[-1] in ("}", ")", "]"):''')], "equivalent: membership collection spelt as a tuple")
V("C15-eq-update-renamed", "C15", [], [(TOKEN, "        self, char: str, source_index: int, kind: Union[None, str, Kind] = None\n", "        self, ch: str, source_index: int, kind: Union[None, str, Kind] = None\n"),
                                      (TOKEN, "        self.token += char\n", "        self.token += ch\n")], "equivalent: parameter renamed")
V("C15-revert-alias-restore", "C15", ["C15.R7"], [(SANITIZE, '''        expr = re.sub(
            rf"(?<!\\w){re.escape(alias)}(?!\\w)",
            lambda _, orig=orig: f"`{orig}`",
            expr,
        )
''', '''        expr = expr.replace(alias, f"`{orig}`")
''')], "origin: revert 7f2b252")

# ---------------------------------------------------------------------------------------------------- distilled from seeding wave 4
CONTEXTPY = "formulaic/utils/context.py"
NULLS = "formulaic/utils/null_handling.py"
PANDASM = "formulaic/materializers/pandas.py"
MSPEC = "formulaic/model_spec.py"
PUTILS = "formulaic/parser/utils.py"
FORMULAPY = "formulaic/formula.py"
V("W4-call-after-literal", "C01", ["C01.W1"], [(TOKENIZE, "            if token.kind in (Token.Kind.NAME, Token.Kind.PYTHON):\n", "            if token and token.kind is not Token.Kind.OPERATOR:\n")], "wave 4: C01-u1")
V("W4-call-after-literal-c15", "C15", ["C15.W1"], [(TOKENIZE, "            if token.kind in (Token.Kind.NAME, Token.Kind.PYTHON):\n", "            if token and token.kind is not Token.Kind.OPERATOR:\n")], "wave 4: C01-u1")
V("W4-globals-before-locals", "C02", ["C02.W1"], [(CONTEXTPY, "LayeredMapping(frame.f_locals, frame.f_globals)", "LayeredMapping(frame.f_globals, frame.f_locals)")], "wave 4: C02-u3")
V("W4-nulls-dtype-shortcut", "C06", ["C06.W1"], [(NULLS, "@find_nulls.register\ndef _(values: pandas.Series) -> set[int]:\n", "@find_nulls.register\ndef _(values: pandas.Series) -> set[int]:\n    if values.dtype.kind in \"iub\":\n        return set()\n")], "wave 4: C06-u3")
V("W4-joint-inherits-materializer", "C07", ["C07.W1"], [(MSPEC, "            if not spec.materializer:\n                continue\n", "")], "wave 4: C07-u1")
V("W4-record-through-series", "C08", ["C08.W1"], [(PANDASM, "                self.data = pandas.DataFrame(self.data, index=[0])", "                self.data = pandas.Series(self.data).to_frame().T")], "wave 4: C08-u3")
V("W4-nested-state-dropped", "C09", ["C09.W1"], [(BASE, "                                    if nested_state:\n                                        state[k] = nested_state\n", "")], "wave 4: C09-u2")
V("W4-encodes-into-input", "C18", ["C18.W1"], [(BASE, "                        if isinstance(values, dict):\n                            encoded = {}\n", "                        if isinstance(values, dict):\n                            encoded = values\n")], "wave 4: C18-u3")
V("W4-contrast-wrap-reindexes", "C11", ["C11.W1"], [("formulaic/transforms/contrasts.py", "            encoded = pandas.DataFrame(\n                encoded,\n                columns=coding_column_names,\n            )", "            encoded = pandas.DataFrame(\n                encoded,\n                columns=coding_column_names,\n                index=dummies.index,\n            )")], "wave 4: C11-u2")
V("W4-gap-args-unguarded", "C14", ["C14.W1"], [(PUTILS, "        rhs_token = (\n            rhs_token.args[0]  # type: ignore\n            if rhs_token.args\n            else Token(rhs_token.operator.symbol)\n        )", "        rhs_token = rhs_token.args[0]  # type: ignore")], "wave 4: C14-u1")
V("W4-whitespace-ascii", "C15", ["C15.R6"], [(TOKENIZE, 'whitespace_chars: Pattern = re.compile(r"\\s"),', 'whitespace_chars: Pattern = re.compile(r"\\s", re.ASCII),')], "wave 4: C15-u1")
V("W4-unpadded-substitution", "C15", ["C15.W2"], [(CODE, '                sanitized_expr.append(f" {new_name} ")', '                sanitized_expr.append(new_name)')], "wave 4: C15-u3")
V("W4-collision-only-known-names", "C17", ["C17.W1"], [(CODE, "    while new_name in env:\n        suffix += 1\n        new_name = template.format(f\"{base_name}_{suffix}\")\n", "    while name in env and new_name in env:\n        suffix += 1\n        new_name = template.format(f\"{base_name}_{suffix}\")\n")], "wave 4: C17-u1")
V("W4-union-into-first-part", "C17", ["C17.W2"], [(MSPEC, "        variables: set[Variable] = set()\n        self._map(lambda ms: variables.update(ms.required_variables))\n        return variables", "        parts = list(self._flatten())\n        variables = parts[0].required_variables if parts else set()\n        for ms in parts[1:]:\n            variables |= ms.required_variables\n        return variables")], "wave 4: C17-u2")
V("W4-ordering-not-coerced", "C19", ["C19.W1"], [(FORMULAPY, "        ordering = OrderingMethod(ordering if ordering is not None else self.ordering)", "        ordering = ordering if ordering is not None else self.ordering")], "wave 4: C19-u3")
V("W4-variables-after-rewrite", "C10", ["C10.W1"], [("formulaic/utils/stateful_transforms.py", "    if variables is not None:\n        variables.update(get_expression_variables(code, env, aliases))\n", ""),
                                                      ("formulaic/utils/stateful_transforms.py", "    # Compile mutated AST\n", "    if variables is not None:\n        variables.update(get_expression_variables(code, env, aliases))\n\n    # Compile mutated AST\n")], "wave 4: C10-u2")
V("W4-empty-matrix-untrimmed", "C06", ["C06.W2"], [(PANDASM, "            values = numpy.empty((self.nrows - len(drop_rows), 0))", "            values = numpy.empty((self.nrows, 0))")], "wave 4: C06-u2 (distilled)")

# ----------------------------------------------------------------------------------------- wave 5 (distilled from seeded/<PID>-v<k>)
SANTOK = "formulaic/parser/algos/sanitize_tokens.py"
LMAPPY = "formulaic/utils/layered_mapping.py"
TERMFILE = "formulaic/parser/types/term.py"
STRUCTPY = "formulaic/utils/structured.py"
POLYPY = "formulaic/transforms/poly.py"
V("W5-scan-stripped-text", "C15", ["C15.R8"], [("formulaic/parser/algos/tokenize.py", "    for i, char in enumerate(formula):", "    for i, char in enumerate(formula.strip()):")], "wave 5: C15-v3")
V("W5-replacement-template", "C15", ["C15.W3"], [(SANTOK, "lambda _, orig=orig: f\"`{orig}`\",", "f\"`{orig}`\",")], "wave 5: C15-v2 / C14-v1")
V("W5-replacement-template-c14", "C14", ["C14.W3"], [(SANTOK, "lambda _, orig=orig: f\"`{orig}`\",", "f\"`{orig}`\",")], "wave 5: C14-v1")
V("W5-null-search-error-swallowed", "C06", ["C06.R4"], [(BASE, "            raise ValueError(\n                f\"Error encountered while checking for nulls in `{name}`: {e}\"\n            ) from e", "            return")], "wave 5: C06-v3 (distilled)")
V("W5-empty-layers-dropped", "C19", ["C19.R2"], [(LMAPPY, "        return [layer for layer in layers if layer is not None]", "        return [layer for layer in layers if layer is not None and len(layer) > 0]")], "wave 5: C19-v1")
V("W5-lt-by-factor-count", "C19", ["C19.R4"], [(TERMFILE, "            if self.degree == other.degree:\n                return sorted(self.factors) < sorted(other.factors)\n            if self.degree < other.degree:\n                return True\n            return False",
                                              "            if len(self.factors) != len(other.factors):\n                return len(self.factors) < len(other.factors)\n            return sorted(self.factors) < sorted(other.factors)")], "wave 5: C19-v2")
V("W5-simplify-aliases-structure", "C19", ["C19.R4"], [(STRUCTPY, "        structure = structured._structure.copy()", "        structure = structured._structure")], "wave 5: C19-v3")
V("W5-encoder-gets-copy-of-state", "C09", ["C09.R1"], [(BASE, "                            encoder_state=encoder_state,\n                            model_spec=spec,", "                            encoder_state=dict(encoder_state),\n                            model_spec=spec,")], "wave 5: C02-v2")
V("W5-scaling-conflict-only-products", "C01", ["C01.W3"], [(PARSER, "                if term_hash in seen_terms:", "                if len(term.factors) > 1 and term_hash in seen_terms:")], "wave 5: C01-v2")
V("W5-recorded-norm-overwritten", "C04", ["C04.R1"], [(POLYPY, "    P[:, 0] = 1\n", "    P[:, 0] = 1\n    norms2[0] = float(x.shape[0])\n")], "wave 5: C04-v3")
V("W5-spanned-term-skipped", "C03", ["C03.R1"], [(BASE, "                term_span = (\n                    self._get_scoped_terms_spanned_by_evaled_factors(evaled_factors)\n                    - spanned\n                )\n",
                                                "                term_span = (\n                    self._get_scoped_terms_spanned_by_evaled_factors(evaled_factors)\n                    - spanned\n                )\n                if not term_span:\n                    continue\n")], "wave 5: C10-v1")
V("W5-poly-rejects-degree-zero", "C11", ["C11.W2"], [(POLYPY, "    if raw:\n", "    if degree < 1:\n        raise ValueError(\"`degree` must be at least 1.\")\n\n    if raw:\n")], "wave 5: C11-v2")
V("W5-caches-on-the-class", "C18", ["C18.R8"], [(BASE, "        self.factor_cache: dict[str, EvaluatedFactor] = {}\n", "        self.factor_cache = type(self).factor_cache\n"),
                                               (BASE, "    REGISTER_NAME: Optional[str] = None\n", "    REGISTER_NAME: Optional[str] = None\n    factor_cache: dict = {}\n")], "wave 5: C18-v3 (distilled)")

# ----------------------------------------------------------------------------------------- refactor round 5 restatements
V("R5-no-wrap-before-kind", "C08", ["C08.R2"], [(BASE, "            if not isinstance(value, FactorValues):\n                value = FactorValues(value)\n", "            if isinstance(value, FactorValues):\n                value = FactorValues(value)\n")],
  "the wrap test inverted: raw values reach the kind test unwrapped")
V("R5-categorical-as-numerical", "C08", ["C08.R2"], [(BASE, "                if self._is_categorical(value):\n                    kind = Factor.Kind.CATEGORICAL", "                if not self._is_categorical(value):\n                    kind = Factor.Kind.CATEGORICAL")],
  "decision inverted")
V("R5-kind-helper-equiv", "C08", [], [(BASE, """            if value.__formulaic_metadata__.kind is Factor.Kind.UNKNOWN:
                if self._is_categorical(value):
                    kind = Factor.Kind.CATEGORICAL
                    spans_intercept = True
                else:
                    kind = Factor.Kind.NUMERICAL
                    spans_intercept = False

                value = FactorValues(value, kind=kind, spans_intercept=spans_intercept)
""", """            if value.__formulaic_metadata__.kind is Factor.Kind.UNKNOWN:
                value = (
                    FactorValues(value, kind=Factor.Kind.CATEGORICAL, spans_intercept=True)
                    if self._is_categorical(value)
                    else FactorValues(value, kind=Factor.Kind.NUMERICAL, spans_intercept=False)
                )
""")], "conditional-expression spelling of the kind resolution")
V("R5-spans-demorgan-equiv", "C03", [], [(CONTRASTS, "        return len(levels) > 0 and not reduced_rank", "        return not (len(levels) == 0 or reduced_rank)")], "refactor C03-r26")
V("R5-spans-or", "C03", ["C03.R5"], [(CONTRASTS, "        return len(levels) > 0 and not reduced_rank", "        return len(levels) > 0 or not reduced_rank")], "spans-intercept predicate weakened")
V("R5-copy-drops-reduced", "C04", ["C04.R3"], [(("formulaic/materializers/types/scoped_term.py"), "                    reduced=factor.reduced,\n                )\n                for factor in factors", "                    reduced=False,\n                )\n                for factor in factors")], "recorded copy loses the reduced flags")

# ----------------------------------------------------------------------------------------- seeding wave 6 (distilled)
V("W6-isnan-of-sum", "C06", ["C06.R7"], [(NULLS, "        return set(numpy.flatnonzero(numpy.any(numpy.isnan(values), axis=1)))", "        return set(numpy.flatnonzero(numpy.isnan(numpy.sum(values, axis=1))))")], "wave 6: C06-w2")
V("W6-stateful-by-bare-name", "C04", ["C04.R4"], [("formulaic/utils/stateful_transforms.py", """        func = eval(compile(format_expr(node.func), "", "eval"), {}, env)  # nosec; Get function handle (assuming it exists in env)
        return getattr(func, "__is_stateful_transform__", False)""", """        func = env.get(node.func.id) if isinstance(node.func, ast.Name) else None
        return getattr(func, "__is_stateful_transform__", False)""")], "wave 6: C13-w2")
V("W6-next-filtered", "C14", ["C14.R3"], [(PARSER, "                        term.factors[0].token or Token(),", "                        next(f for f in term.factors if f.eval_method != Factor.EvalMethod.LITERAL).token or Token(),")], "wave 6: C14-w1")
V("W6-from-spec-rewrap", "C20", ["C20.R1"], [(FORMULA, "        if isinstance(spec, Formula):\n            return cast(Union[SimpleFormula, StructuredFormula], spec)", "        if isinstance(spec, SimpleFormula):\n            return SimpleFormula(spec, _ordering=ordering)\n        if isinstance(spec, Formula):\n            return cast(Union[SimpleFormula, StructuredFormula], spec)")], "wave 6: C20-w2")
V("W6-cache-key-kind", "C03", ["C03.R6"], [(BASE, "                    if isinstance(encoded, dict) and factor.metadata.drop_field\n", "                    if isinstance(encoded, dict) and (factor.metadata.drop_field or factor.metadata.kind is Factor.Kind.CATEGORICAL)\n")], "wave 6: C03-w1")
V("W6-helmert-int", "C05", ["C05.W5"], [(CONTRASTS, "        contr = spsparse.lil_matrix((n, n - 1)) if sparse else numpy.zeros((n, n - 1))\n        for i in range(len(levels) - 1):", "        contr = spsparse.lil_matrix((n, n - 1), dtype=int) if sparse else numpy.zeros((n, n - 1))\n        for i in range(len(levels) - 1):")], "wave 6: C05-w1")
V("W6-flags-bypass-setter", "C18", ["C18.W3"], [(PARSER, "        self.feature_flags = DefaultFormulaParser.FeatureFlags.from_spec(flags)\n        self.__post_init__()\n        return self", "        self.feature_flags = DefaultFormulaParser.FeatureFlags.from_spec(flags)\n        if isinstance(self.operator_resolver, DefaultOperatorResolver):\n            self.operator_resolver.feature_flags = self.feature_flags\n        return self")], "wave 6: C18-w2")
V("W6-kind-in-place", "C18", ["C18.X3"], [(BASE, "                value = FactorValues(value, kind=kind, spans_intercept=spans_intercept)\n", "                value.__formulaic_metadata__.kind = kind\n                value.__formulaic_metadata__.spans_intercept = spans_intercept\n")], "wave 6: C18-w1")
