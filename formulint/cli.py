"""Command line: ./check <ID> [--tier quick|thorough] [--repo PATH] | --replay PATH | --all | --selfcheck"""
from __future__ import annotations

import argparse
import json
import os
import sys
import traceback

from .core import AnalysisError, Project
from .report import Ctx, finish, VERIF
from . import rules as rules_pkg


def run_property(prop: str, tier: str, repo: str, overlay=None, *, write_evidence=True, quiet=False,
                 only_rule: str | None = None, evidence_dir=None):
    """Returns (exit_code, ctx)."""
    project = Project(repo, overlay)
    mod = rules_pkg.load(prop)
    ctx = Ctx(prop, project, tier)
    todo = list(mod.RULES)
    if tier == "thorough":
        todo += list(getattr(mod, "THOROUGH", []))
    for rid, fn in todo:
        if only_rule and rid != only_rule:
            continue
        ctx.rules_run.append(rid)
        fn(ctx)
    extra = {}
    if tier == "thorough" and overlay is None and not only_rule:
        from . import selftest
        extra["self_validation"] = selftest.run_for(prop, repo)
    code = finish(ctx, explanation=getattr(mod, "EXPLANATION", ""), assumptions=getattr(mod, "ASSUMPTIONS", []),
                  extra=extra, write_evidence=write_evidence, quiet=quiet, evidence_dir=evidence_dir)
    return code, ctx


def main(argv=None) -> int:
    ap = argparse.ArgumentParser(prog="check")
    ap.add_argument("prop", nargs="?")
    ap.add_argument("--tier", default=os.environ.get("VERIF_TIER") or "quick", choices=["quick", "thorough"])
    ap.add_argument("--repo", default=os.environ.get("FORMULINT_REPO", "/repo"))
    ap.add_argument("--replay")
    ap.add_argument("--all", action="store_true")
    ap.add_argument("--selfcheck", action="store_true")
    ap.add_argument("--no-evidence", action="store_true")
    a = ap.parse_args(argv)
    try:
        if a.selfcheck:
            p = Project(a.repo)
            print(f"formulint ok: {p.stats}")
            return 0
        if a.replay:
            with open(a.replay) as fh:
                r = json.load(fh)
            code, ctx = run_property(r["property"], "quick", a.repo, write_evidence=False, only_rule=r["rule"])
            return code
        props = rules_pkg.CLAIMED if a.all else [a.prop]
        if not props or props == [None]:
            ap.error("property id required")
        worst = 0
        for p in props:
            try:
                code, _ = run_property(p.upper(), a.tier, a.repo, write_evidence=not a.no_evidence)
            except AnalysisError as e:
                print(f"ANALYSIS-ERROR property={p.upper()} {e}")
                code = 2
            worst = max(worst, code)
        return worst
    except AnalysisError as e:
        print(f"ANALYSIS-ERROR {e}")
        return 2
    except SystemExit:
        raise
    except BaseException:
        print("ANALYSIS-ERROR checker raised:")
        traceback.print_exc(file=sys.stdout)
        return 2


if __name__ == "__main__":
    sys.exit(main())
