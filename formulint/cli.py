"""Command line: ./check <ID> [--tier quick|thorough] [--repo PATH] | --replay PATH | --all | --selfcheck"""
from __future__ import annotations

import argparse
import json
import os
import sys
import traceback

from .core import AnalysisError, Project
from .report import Ctx, finish, VERIF
from . import rules as rules_pkg


def _run_rule_on_views(prop, tier, views, rid, fn, known):
    """Evaluate one rule on every view of the program and merge the results.

    A failing obligation is *excused* when another (semantics-preserving) view of the same program discharges it:
    either the same (rule, instance) holds there, or that instance does not exist there and the view reports no
    failure for that rule label at all.  Known findings are never excused (they stay visible)."""
    from .report import match_known
    res = []
    for vname, proj in views:
        sub = Ctx(prop, proj, tier)
        try:
            fn(sub)
            res.append((vname, sub, None))
        except AnalysisError as e:
            res.append((vname, sub, e))
    usable = [(v, c) for v, c, e in res if e is None]
    if not usable:
        raise res[0][2]
    info = {}
    for v, c in usable:
        fails = [o for o in c.obligations if not o.holds]
        info[v] = {
            "fail_keys": {(o.rule, o.instance) for o in fails},
            "all_keys": {(o.rule, o.instance) for o in c.obligations},
            "rule_has_new_failure": {o.rule for o in fails if not match_known(prop, o, known)},
        }

    def excused(o, own):
        if match_known(prop, o, known):
            return False
        key = (o.rule, o.instance)
        for v, c in usable:
            if v == own:
                continue
            i = info[v]
            if key in i["all_keys"] and key not in i["fail_keys"]:
                return v
            if key not in i["all_keys"] and o.rule not in i["rule_has_new_failure"]:
                return v
        return False

    base_v, base = usable[0]
    merged = []
    for o in base.obligations:
        if not o.holds:
            v = excused(o, base_v)
            if v:
                o.holds = True
                o.message = f"discharged on the {v} view (the {base_v} view reported: {o.message[:120]})"
        merged.append(o)
    have_fail = {(o.rule, o.instance) for o in merged if not o.holds}
    for v, c in usable[1:]:
        for o in c.obligations:
            if not o.holds and (o.rule, o.instance) not in have_fail and not excused(o, v):
                if match_known(prop, o, known) and (o.rule, o.construct) in {(x.rule, x.construct) for x in merged}:
                    continue
                o.message = f"[{v} view] {o.message}"
                merged.append(o)
                have_fail.add((o.rule, o.instance))
    errs = [f"{v}: {e}" for v, _, e in res if e is not None]
    return merged, base, errs


def run_property(prop: str, tier: str, repo: str, overlay=None, *, write_evidence=True, quiet=False,
                 only_rule: str | None = None, evidence_dir=None):
    """Returns (exit_code, ctx)."""
    from .report import load_known
    project = Project(repo, overlay)
    views = [("raw", project)]
    if not os.environ.get("FORMULINT_RAW_ONLY"):
        from .normalize import Normalizer, StatementNormalizer
        nz = Normalizer(project)
        from . import sym as _sym
        _sym.SIGNATURES.clear()
        _sym.SIGNATURES.update(nz.signatures)
        _sym.DEFAULTS.clear()
        _sym.DEFAULTS.update(getattr(nz, "defaults", {}))
        views.append(("normalised", Project(repo, overlay, normalizer=nz)))
        views.append(("normalised-statements", Project(repo, overlay, normalizer=StatementNormalizer(nz))))
        views[-1][1].view = "normalised-statements"
        if os.environ.get("FORMULINT_NORMALISED_ONLY"):  # diagnostic: what do the rules make of the normal form alone?
            views = views[1:2]
        if os.environ.get("FORMULINT_STATEMENTS_ONLY"):
            views = views[2:]
    known = load_known()
    mod = rules_pkg.load(prop)
    ctx = Ctx(prop, project, tier)
    todo = list(mod.RULES)
    from .rules import wave4
    todo += wave4.rules_for(prop)
    if tier == "thorough":
        todo += list(getattr(mod, "THOROUGH", []))
    for rid, fn in todo:
        if only_rule and rid != only_rule:
            continue
        ctx.rules_run.append(rid)
        parts = getattr(fn, "parts", None)
        for part in (parts() if parts else [fn]):
            merged, base, errs = _run_rule_on_views(prop, tier, views, rid, part, known)
            ctx.obligations += merged
            ctx.inspected += base.inspected
            ctx.floors += base.floors
            ctx.notes += base.notes
            for e in errs:
                ctx.notes.append(f"{rid}: view not usable — {e}")
    extra = {"views": [v for v, _ in views]}
    if tier == "thorough" and overlay is None and not only_rule:
        from . import selftest
        extra["self_validation"] = selftest.run_for(prop, repo)
    code = finish(ctx, explanation=getattr(mod, "EXPLANATION", ""), assumptions=getattr(mod, "ASSUMPTIONS", []),
                  extra=extra, write_evidence=write_evidence, quiet=quiet, evidence_dir=evidence_dir)
    return code, ctx


def main(argv=None) -> int:
    ap = argparse.ArgumentParser(prog="check")
    ap.add_argument("prop", nargs="?")
    ap.add_argument("--tier", default=os.environ.get("VERIF_TIER") or "quick", choices=["quick", "thorough"])
    ap.add_argument("--repo", default=os.environ.get("FORMULINT_REPO", "/repo"))
    ap.add_argument("--replay")
    ap.add_argument("--all", action="store_true")
    ap.add_argument("--selfcheck", action="store_true")
    ap.add_argument("--no-evidence", action="store_true")
    a = ap.parse_args(argv)
    try:
        if a.selfcheck:
            p = Project(a.repo)
            print(f"formulint ok: {p.stats}")
            return 0
        if a.replay:
            with open(a.replay) as fh:
                r = json.load(fh)
            code, ctx = run_property(r["property"], "quick", a.repo, write_evidence=False, only_rule=r["rule"])
            return code
        props = rules_pkg.CLAIMED if a.all else [a.prop]
        if not props or props == [None]:
            ap.error("property id required")
        worst = 0
        for p in props:
            try:
                code, _ = run_property(p.upper(), a.tier, a.repo, write_evidence=not a.no_evidence)
            except AnalysisError as e:
                print(f"ANALYSIS-ERROR property={p.upper()} {e}")
                code = 2
            worst = max(worst, code)
        return worst
    except AnalysisError as e:
        print(f"ANALYSIS-ERROR {e}")
        return 2
    except SystemExit:
        raise
    except BaseException:
        print("ANALYSIS-ERROR checker raised:")
        traceback.print_exc(file=sys.stdout)
        return 2


if __name__ == "__main__":
    sys.exit(main())
