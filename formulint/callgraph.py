"""formulint.callgraph — resolved call graph over the package (class-hierarchy analysis).

Resolution, in order:
  * ``f(...)``           → nested def in an enclosing function, module-level function/class of the
                            package (through imports and re-exports); a class → its ``__init__`` /
                            ``__post_init__`` (and, for dataclass-like classes, nothing else);
  * ``self.m(...)`` / ``cls.m(...)`` / ``super().m(...)`` → method through the MRO, plus overriding
                            subclasses (dynamic dispatch);
  * ``X.m(...)`` with X a package class → that method (static / class call);
  * ``x.m(...)`` otherwise → every package method named ``m`` (CHA by name) unless ``m`` is in the
                            stop-list of ubiquitous container/str method names;
  * property reads ``x.attr`` where ``attr`` is a ``@property`` of a package class → edge too
                            (only for names listed by the caller through ``property_names``).
Unresolvable calls (builtins, third-party) are counted, not guessed.
"""
from __future__ import annotations

import ast
from typing import Dict, Iterable, List, Optional, Set, Tuple

from .core import FunctionInfo, Project, dotted, walk_no_nested

STOP = {
    "update", "get", "items", "keys", "values", "append", "extend", "pop", "add", "copy", "format", "join", "split",
    "replace", "strip", "startswith", "endswith", "insert", "remove", "index", "count", "sort", "setdefault", "popitem",
    "upper", "lower", "match", "search", "group", "start", "end", "span", "finditer", "isnumeric", "isdigit", "register",
    "union", "difference", "intersection", "encode", "decode", "read", "write", "astype", "reshape", "tolist", "to_list",
}


class CallGraph:
    def __init__(self, P: Project, *, property_names: Iterable[str] = ()):
        self.P = P
        self.edges: Dict[str, Set[str]] = {}
        self.sites: Dict[Tuple[str, str], List[ast.AST]] = {}
        self.unresolved = 0
        self.resolved = 0
        self.by_method: Dict[str, List[FunctionInfo]] = {}
        self.props = set(property_names)
        for c in P.classes.values():
            for name, m in c.methods.items():
                self.by_method.setdefault(name.split("#")[0], []).append(m)
        for f in P.functions.values():
            self._scan(f)

    def _add(self, src: FunctionInfo, dst: FunctionInfo, site: ast.AST) -> None:
        self.edges.setdefault(src.qualname, set()).add(dst.qualname)
        self.sites.setdefault((src.qualname, dst.qualname), []).append(site)

    def _class_entry(self, src, cq, site):
        hit = False
        for m in ("__init__", "__post_init__", "__new__", "__call__"):
            for c in self.P.mro(cq):
                if m in c.methods and (m != "__call__"):
                    self._add(src, c.methods[m], site)
                    hit = True
                    break
        # metaclass __call__ (e.g. Formula(...) → _FormulaMeta.__call__)
        for c in self.P.mro(cq):
            for kw in c.node.keywords:
                if kw.arg == "metaclass":
                    mq = self.P.resolve_expr(c.module, kw.value)
                    if mq in self.P.classes and "__call__" in self.P.classes[mq].methods:
                        self._add(src, self.P.classes[mq].methods["__call__"], site)
                        hit = True
        return hit

    def _method_targets(self, cq: str, name: str) -> List[FunctionInfo]:
        out = []
        for c in self.P.mro(cq):
            if name in c.methods:
                out.append(c.methods[name])
                break
        for sub in self.P.subclasses(cq):
            if name in sub.methods:
                out.append(sub.methods[name])
        return out

    def _scan(self, f: FunctionInfo) -> None:
        P = self.P
        body = f.node
        for n in walk_no_nested(body):
            if isinstance(n, ast.Call):
                self._call(f, n)
            elif (isinstance(n, ast.Attribute) and isinstance(n.ctx, ast.Load) and isinstance(n.value, ast.Name)
                  and n.value.id in ("self", "cls") and f.cls is not None and not isinstance(P.parent(n), ast.Call)):
                # method reference taken as a value (e.g. `merger = cls.__merger_default`)
                for t in self._method_targets(f.cls.qualname, n.attr):
                    self._add(f, t, n)
            elif isinstance(n, ast.Attribute) and isinstance(n.ctx, ast.Load) and n.attr in self.props:
                for m in self.by_method.get(n.attr, []):
                    if any("property" in d for d in m.decorators()):
                        self._add(f, m, n)
            elif isinstance(n, (ast.FunctionDef, ast.AsyncFunctionDef)) and n is not body:
                # a nested def is "called" if referenced by name anywhere in the parent (closure passed around)
                pass
        # nested defs / lambdas: edge parent -> nested when the nested function's name is referenced (or lambda appears)
        for q, g in P.functions.items():
            if g.parent is f:
                if isinstance(g.node, ast.Lambda):
                    self._add(f, g, g.node)
                else:
                    nm = g.node.name
                    if any(isinstance(x, ast.Name) and x.id == nm and isinstance(x.ctx, ast.Load) for x in walk_no_nested(body)):
                        self._add(f, g, g.node)
                    elif any("register" in d or "wraps" in d for d in g.decorators()):
                        self._add(f, g, g.node)

    def _call(self, f: FunctionInfo, c: ast.Call) -> None:
        P = self.P
        fn = c.func
        if isinstance(fn, ast.Name):
            q = P.resolve_in(f, fn)
            if q in P.functions:
                self._add(f, P.functions[q], c)
                self.resolved += 1
                return
            if q in P.classes:
                self._class_entry(f, q, c)
                self.resolved += 1
                return
            self.unresolved += 1
            return
        if isinstance(fn, ast.Attribute):
            name = fn.attr
            recv = fn.value
            # self / cls
            if isinstance(recv, ast.Name) and recv.id in ("self", "cls") and f.cls is None and f.parent is not None:
                # closure inside a method: use the enclosing method's class
                p = f.parent
                while p is not None and p.cls is None:
                    p = p.parent
                owner = p.cls if p is not None else None
            else:
                owner = f.cls
            if isinstance(recv, ast.Name) and recv.id in ("self", "cls") and owner is not None:
                ts = self._method_targets(owner.qualname, name)
                for t in ts:
                    self._add(f, t, c)
                if ts:
                    self.resolved += 1
                    return
            if isinstance(recv, ast.Call) and isinstance(recv.func, ast.Name) and recv.func.id == "super" and owner is not None:
                for base in P.mro(owner.qualname)[1:]:
                    if name in base.methods:
                        self._add(f, base.methods[name], c)
                        self.resolved += 1
                        return
            q = P.resolve_in(f, fn)
            if q in P.functions:
                self._add(f, P.functions[q], c)
                self.resolved += 1
                return
            if q in P.classes:
                self._class_entry(f, q, c)
                self.resolved += 1
                return
            rq = P.resolve_in(f, recv)
            if rq in P.classes:
                ts = self._method_targets(rq, name)
                for t in ts:
                    self._add(f, t, c)
                if ts:
                    self.resolved += 1
                    return
            if name not in STOP and not (name.startswith("__") and name.endswith("__")):
                ts = self.by_method.get(name, [])
                for t in ts:
                    self._add(f, t, c)
                if ts:
                    self.resolved += 1
                    return
            self.unresolved += 1
            return
        self.unresolved += 1

    def reachable(self, roots: Iterable[str]) -> Dict[str, Optional[str]]:
        """qualname -> predecessor on a shortest path from the roots."""
        prev: Dict[str, Optional[str]] = {}
        todo = []
        for r in roots:
            if r in self.P.functions and r not in prev:
                prev[r] = None
                todo.append(r)
        while todo:
            n = todo.pop(0)
            for m in sorted(self.edges.get(n, ())):
                if m not in prev:
                    prev[m] = n
                    todo.append(m)
        return prev

    def path(self, prev: Dict[str, Optional[str]], q: str) -> List[str]:
        out = [q]
        while prev.get(out[-1]) is not None:
            out.append(prev[out[-1]])
        return list(reversed(out))
