"""formulint.core — loader, name resolution and AST helpers (stdlib only).

The loader parses every ``formulaic/**/*.py`` of the tree rooted at ``root`` (the
*current working tree* of /repo, or an in-memory overlay of it used by the
self-validation matrix) and builds module / class / function tables keyed by
qualified names of the form ``formulaic.pkg.mod.Class.method.<locals>.inner``.
Nothing under ``formulaic/`` is ever imported or executed.
"""
from __future__ import annotations

import ast
import os
from dataclasses import dataclass, field
from typing import Callable, Dict, Iterable, Iterator, List, Optional, Tuple


class AnalysisError(Exception):
    """The analysis could not be carried out (vanished anchor, unmodelled input)."""


# --------------------------------------------------------------------------- helpers


def norm(node: ast.AST) -> str:
    """Normalised source text of a node (whitespace / comments / parens stripped)."""
    try:
        return " ".join(ast.unparse(node).split())
    except Exception:  # pragma: no cover
        return ast.dump(node)


def dotted(expr: ast.AST) -> Optional[str]:
    """'a.b.c' for Name/Attribute chains, else None."""
    parts: List[str] = []
    while isinstance(expr, ast.Attribute):
        parts.append(expr.attr)
        expr = expr.value
    if isinstance(expr, ast.Name):
        parts.append(expr.id)
        return ".".join(reversed(parts))
    return None


def walk_no_nested(node: ast.AST, *, include_lambdas: bool = True) -> Iterator[ast.AST]:
    """ast.walk that does not descend into nested function / class definitions
    (but yields them), optionally descending into lambdas and comprehensions."""
    stack = [node]
    first = True
    while stack:
        n = stack.pop()
        yield n
        if not first and isinstance(n, (ast.FunctionDef, ast.AsyncFunctionDef, ast.ClassDef)):
            continue
        if not first and isinstance(n, ast.Lambda) and not include_lambdas:
            continue
        first = False
        stack.extend(reversed(list(ast.iter_child_nodes(n))))


def calls_in(node: ast.AST, *, nested: bool = True) -> Iterator[ast.Call]:
    it = ast.walk(node) if nested else walk_no_nested(node)
    for n in it:
        if isinstance(n, ast.Call):
            yield n


def names_in(node: ast.AST) -> set:
    return {n.id for n in ast.walk(node) if isinstance(n, ast.Name)}


def const_value(node: ast.AST):
    if isinstance(node, ast.Constant):
        return node.value
    if isinstance(node, ast.UnaryOp) and isinstance(node.op, ast.USub) and isinstance(node.operand, ast.Constant):
        v = node.operand.value
        if isinstance(v, (int, float)):
            return -v
    raise ValueError(norm(node))


def is_const(node: ast.AST, value=...) -> bool:
    try:
        v = const_value(node)
    except ValueError:
        return False
    return True if value is ... else (v == value and type(v) is type(value))


def kwarg(call: ast.Call, name: str) -> Optional[ast.AST]:
    for k in call.keywords:
        if k.arg == name:
            return k.value
    return None


def has_starstar(call: ast.Call) -> bool:
    return any(k.arg is None for k in call.keywords)


def arg_for(call: ast.Call, fn: ast.AST, pname: str, *, bound_self: bool = False) -> Optional[ast.AST]:
    """The actual argument expression bound to formal ``pname`` of ``fn`` at ``call``
    (keyword or position).  ``bound_self`` = the call is ``obj.m(...)`` so the first
    formal is bound implicitly."""
    v = kwarg(call, pname)
    if v is not None:
        return v
    a = fn.args
    formals = [x.arg for x in list(a.posonlyargs) + list(a.args)]
    if bound_self and formals:
        formals = formals[1:]
    if pname in formals:
        i = formals.index(pname)
        if i < len(call.args) and not any(isinstance(x, ast.Starred) for x in call.args[: i + 1]):
            return call.args[i]
    return None


def default_of(fn: ast.AST, pname: str) -> Optional[ast.AST]:
    """The default value expression of formal ``pname`` of ``fn`` (None if it has none)."""
    a = fn.args
    pos = list(a.posonlyargs) + list(a.args)
    for x, d in zip(pos[len(pos) - len(a.defaults):], a.defaults):
        if x.arg == pname:
            return d
    for x, d in zip(a.kwonlyargs, a.kw_defaults):
        if x.arg == pname:
            return d
    return None


def at_default(call: ast.Call, fn: ast.AST, pname: str, *, bound_self: bool = False) -> bool:
    """Formal ``pname`` takes its default at ``call``: not passed, or passed the very constant that is its default."""
    v = arg_for(call, fn, pname, bound_self=bound_self)
    if v is None:
        return True
    d = default_of(fn, pname)
    return d is not None and isinstance(d, ast.Constant) and isinstance(v, ast.Constant) and type(d.value) is type(v.value) and d.value == v.value


def param_names(fn: ast.AST) -> List[str]:
    a = fn.args
    out = [x.arg for x in list(a.posonlyargs) + list(a.args)]
    if a.vararg:
        out.append("*" + a.vararg.arg)
    out += [x.arg for x in a.kwonlyargs]
    if a.kwarg:
        out.append("**" + a.kwarg.arg)
    return out


# --------------------------------------------------------------------------- tables


@dataclass
class FunctionInfo:
    qualname: str
    node: ast.AST  # FunctionDef | Lambda
    module: "ModuleInfo"
    cls: Optional["ClassInfo"] = None
    parent: Optional["FunctionInfo"] = None

    @property
    def name(self) -> str:
        return getattr(self.node, "name", "<lambda>")

    @property
    def where(self) -> str:
        return f"{self.module.relpath}:{self.node.lineno}"

    def decorators(self) -> List[str]:
        return [norm(d) for d in getattr(self.node, "decorator_list", [])]

    def locals_named(self, name: str) -> "FunctionInfo":
        q = f"{self.qualname}.<locals>.{name}"
        fs = self.module.project.functions
        f = fs.get(q)
        if f is None:
            # a closure-free helper may have been moved out of the function: to module level or next to the method in its class
            owners = [self.module.name]
            if self.cls is not None:
                owners.insert(0, self.cls.qualname)
            for o in owners:
                for n in (name, "_" + name.lstrip("_"), "__" + name.lstrip("_")):
                    g = fs.get(f"{o}.{n}")
                    if g is not None and g is not self and any(
                            isinstance(x, (ast.Name, ast.Attribute)) and (x.id if isinstance(x, ast.Name) else x.attr) == n for x in ast.walk(self.node)):
                        return g
            raise AnalysisError(f"anchor vanished: nested function {q}")
        return f


@dataclass
class ClassInfo:
    qualname: str
    node: ast.ClassDef
    module: "ModuleInfo"
    bases: List[str] = field(default_factory=list)  # resolved dotted names
    methods: Dict[str, FunctionInfo] = field(default_factory=dict)
    assigns: Dict[str, ast.AST] = field(default_factory=dict)  # class-level NAME = value
    annotations: Dict[str, ast.AST] = field(default_factory=dict)

    @property
    def where(self) -> str:
        return f"{self.module.relpath}:{self.node.lineno}"


@dataclass
class ModuleInfo:
    name: str
    relpath: str
    source: str
    tree: ast.Module
    project: "Project"
    imports: Dict[str, str] = field(default_factory=dict)  # local name -> dotted target
    assigns: Dict[str, ast.AST] = field(default_factory=dict)  # module-level NAME = value
    is_pkg: bool = False

    def line(self, node: ast.AST) -> str:
        return f"{self.relpath}:{getattr(node, 'lineno', 0)}"


_PARSE_CACHE: Dict[Tuple[str, int], ast.Module] = {}


class Project:
    """All of ``formulaic/`` under ``root``; ``overlay`` maps relpath -> replacement text."""

    PKG = "formulaic"

    def __init__(self, root: str = "/repo", overlay: Optional[Dict[str, str]] = None, normalizer=None):
        self.root = root
        self.overlay = dict(overlay or {})
        self.normalizer = normalizer  # formulint.normalize.Normalizer: this Project is then the *normalised view*
        self.view = "normalised" if normalizer is not None else "raw"
        self.modules: Dict[str, ModuleInfo] = {}
        self.functions: Dict[str, FunctionInfo] = {}
        self.classes: Dict[str, ClassInfo] = {}
        self.parents: Dict[int, ast.AST] = {}
        self.owner: Dict[int, FunctionInfo] = {}  # id(FunctionDef/Lambda node) -> info
        self.stats = {"modules": 0, "functions": 0, "classes": 0, "lines": 0, "nodes": 0}
        self._load()

    # ---- loading
    def read(self, relpath: str) -> str:
        if relpath in self.overlay:
            return self.overlay[relpath]
        with open(os.path.join(self.root, relpath), encoding="utf-8") as fh:
            return fh.read()

    def exists(self, relpath: str) -> bool:
        return relpath in self.overlay or os.path.exists(os.path.join(self.root, relpath))

    def _load(self) -> None:
        pkgdir = os.path.join(self.root, self.PKG)
        if not os.path.isdir(pkgdir):
            raise AnalysisError(f"no package directory {pkgdir}")
        rels = []
        for d, dirs, files in os.walk(pkgdir):
            dirs[:] = sorted(x for x in dirs if x != "__pycache__")
            for f in sorted(files):
                if f.endswith(".py"):
                    rels.append(os.path.relpath(os.path.join(d, f), self.root))
        for r in self.overlay:
            if r.endswith(".py") and r.startswith(self.PKG + "/") and r not in rels:
                rels.append(r)
        for rel in rels:
            src = self.read(rel)
            key = (src, hash(rel))
            tree = _PARSE_CACHE.get(key)
            if tree is None:
                try:
                    tree = ast.parse(src, filename=rel)
                except SyntaxError as e:
                    raise AnalysisError(f"{rel} does not parse: {e}")
                _PARSE_CACHE[key] = tree
            modname = rel[:-3].replace(os.sep, ".")
            is_pkg = modname.endswith(".__init__")
            if is_pkg:
                modname = modname[: -len(".__init__")]
            if self.normalizer is not None:
                tree = self.normalizer.module(tree, modname)
            mi = ModuleInfo(modname, rel, src, tree, self, is_pkg=is_pkg)
            self.modules[modname] = mi
            self.stats["modules"] += 1
            self.stats["lines"] += src.count("\n") + 1
        for mi in self.modules.values():
            self._index_module(mi)

    def _index_module(self, mi: ModuleInfo) -> None:
        for n in ast.walk(mi.tree):
            self.stats["nodes"] += 1
            for c in ast.iter_child_nodes(n):
                self.parents[id(c)] = n
        # imports (module level and nested; nested imports recorded too — last wins)
        for n in ast.walk(mi.tree):
            if isinstance(n, ast.Import):
                for a in n.names:
                    mi.imports[a.asname or a.name.split(".")[0]] = a.name if a.asname else a.name.split(".")[0]
            elif isinstance(n, ast.ImportFrom):
                base = self._abs_from(mi, n)
                for a in n.names:
                    mi.imports[a.asname or a.name] = f"{base}.{a.name}" if base else a.name
        for st in mi.tree.body:
            if isinstance(st, ast.Assign) and len(st.targets) == 1 and isinstance(st.targets[0], ast.Name):
                mi.assigns[st.targets[0].id] = st.value
            elif isinstance(st, ast.AnnAssign) and isinstance(st.target, ast.Name) and st.value is not None:
                mi.assigns[st.target.id] = st.value
        self._index_body(mi, mi.tree.body, mi.name, None, None)

    def _abs_from(self, mi: ModuleInfo, n: ast.ImportFrom) -> str:
        if n.level == 0:
            return n.module or ""
        parts = mi.name.split(".")
        if not mi.is_pkg:
            parts = parts[:-1]
        if n.level > 1:
            parts = parts[: len(parts) - (n.level - 1)]
        if n.module:
            parts.append(n.module)
        return ".".join(parts)

    def _index_body(self, mi, body, prefix, cls, parent_fn) -> None:
        seen: Dict[str, int] = {}
        for st in body:
            self._index_stmt(mi, st, prefix, cls, parent_fn, seen)

    def _index_stmt(self, mi, st, prefix, cls, parent_fn, seen) -> None:
        if isinstance(st, (ast.FunctionDef, ast.AsyncFunctionDef)):
            name = st.name
            k = seen.get(name, 0)
            seen[name] = k + 1
            q = f"{prefix}.{name}"
            if k:
                # Python semantics: the last definition owns the plain name; earlier ones become name#<i>
                old = self.functions.pop(q)
                old.qualname = f"{q}#{k - 1}"
                self.functions[old.qualname] = old
                for sub in list(self.functions.values()):
                    if sub.qualname.startswith(q + ".<locals>"):
                        del self.functions[sub.qualname]
                        sub.qualname = old.qualname + sub.qualname[len(q):]
                        self.functions[sub.qualname] = sub
                if cls is not None and parent_fn is None:
                    cls.methods[f"{name}#{k - 1}"] = old
            fi = FunctionInfo(q, st, mi, cls, parent_fn)
            self.functions[q] = fi
            self.owner[id(st)] = fi
            self.stats["functions"] += 1
            if cls is not None and parent_fn is None:
                cls.methods[name] = fi
            self._index_nested(mi, st, q, fi)
        elif isinstance(st, ast.ClassDef):
            q = f"{prefix}.{st.name}"
            ci = ClassInfo(q, st, mi)
            ci.bases = [self.resolve_expr(mi, b) or norm(b) for b in st.bases]
            self.classes[q] = ci
            self.stats["classes"] += 1
            for s in st.body:
                if isinstance(s, ast.Assign) and len(s.targets) == 1 and isinstance(s.targets[0], ast.Name):
                    ci.assigns[s.targets[0].id] = s.value
                elif isinstance(s, ast.AnnAssign) and isinstance(s.target, ast.Name):
                    ci.annotations[s.target.id] = s.annotation
                    if s.value is not None:
                        ci.assigns[s.target.id] = s.value
            self._index_body(mi, st.body, q, ci, None)
        elif isinstance(st, (ast.If, ast.Try, ast.With, ast.For, ast.While)):
            # definitions under module/class level control flow (e.g. `if TYPE_CHECKING`)
            for fld in ("body", "orelse", "finalbody"):
                for s in getattr(st, fld, []) or []:
                    self._index_stmt(mi, s, prefix, cls, parent_fn, seen)
            for h in getattr(st, "handlers", []) or []:
                for s in h.body:
                    self._index_stmt(mi, s, prefix, cls, parent_fn, seen)

    def _index_nested(self, mi, fn_node, q, fi) -> None:
        """Nested defs and lambdas inside a function, keyed ``q.<locals>.name``."""
        seen: Dict[str, int] = {}
        lam = 0
        stack = list(reversed(list(ast.iter_child_nodes(fn_node))))
        while stack:
            n = stack.pop()
            if isinstance(n, (ast.FunctionDef, ast.AsyncFunctionDef, ast.ClassDef)):
                self._index_stmt(mi, n, f"{q}.<locals>", None, fi, seen)
                continue
            if isinstance(n, ast.Lambda):
                lq = f"{q}.<locals>.<lambda>#{lam}"
                lam += 1
                li = FunctionInfo(lq, n, mi, None, fi)
                self.functions[lq] = li
                self.owner[id(n)] = li
            stack.extend(reversed(list(ast.iter_child_nodes(n))))

    # ---- lookup
    def module(self, name: str) -> ModuleInfo:
        m = self.modules.get(name)
        if m is None:
            raise AnalysisError(f"anchor vanished: module {name}")
        return m

    def func(self, qualname: str) -> FunctionInfo:
        f = self.functions.get(qualname)
        if f is None:
            raise AnalysisError(f"anchor vanished: function {qualname}")
        return f

    def cls(self, qualname: str) -> ClassInfo:
        c = self.classes.get(qualname)
        if c is None:
            raise AnalysisError(f"anchor vanished: class {qualname}")
        return c

    def method(self, cls_qual: str, name: str, *, inherited: bool = True) -> FunctionInfo:
        for c in self.mro(cls_qual) if inherited else [self.cls(cls_qual)]:
            if name in c.methods:
                return c.methods[name]
        raise AnalysisError(f"anchor vanished: method {cls_qual}.{name}")

    def mro(self, cls_qual: str) -> List[ClassInfo]:
        out, seen, todo = [], set(), [cls_qual]
        while todo:
            q = todo.pop(0)
            if q in seen or q not in self.classes:
                continue
            seen.add(q)
            c = self.classes[q]
            out.append(c)
            todo.extend(self.canonical(b) for b in c.bases)
        return out

    def subclasses(self, cls_qual: str, *, strict: bool = True) -> List[ClassInfo]:
        out = []
        for c in self.classes.values():
            if c.qualname == cls_qual and strict:
                continue
            if any(m.qualname == cls_qual for m in self.mro(c.qualname)):
                out.append(c)
        return out

    def is_subclass(self, cls_qual: str, base_qual: str) -> bool:
        return any(m.qualname == base_qual for m in self.mro(cls_qual))

    def enclosing_function(self, node: ast.AST) -> Optional[FunctionInfo]:
        n = self.parents.get(id(node))
        while n is not None:
            if id(n) in self.owner:
                return self.owner[id(n)]
            n = self.parents.get(id(n))
        return None

    def enclosing_stmt(self, node: ast.AST) -> Optional[ast.stmt]:
        n = node
        while n is not None and not isinstance(n, ast.stmt):
            n = self.parents.get(id(n))
        return n

    def parent(self, node: ast.AST) -> Optional[ast.AST]:
        return self.parents.get(id(node))

    # ---- name resolution
    def canonical(self, dotted_name: str) -> str:
        """Follow re-exports (``from .x import Y`` in packages) to the defining module."""
        seen = set()
        cur = dotted_name
        while cur not in seen:
            seen.add(cur)
            if cur in self.classes or cur in self.functions or cur in self.modules:
                return cur
            # split into longest module prefix + rest
            parts = cur.split(".")
            hit = None
            for i in range(len(parts) - 1, 0, -1):
                mod = ".".join(parts[:i])
                if mod in self.modules:
                    hit = (self.modules[mod], parts[i], parts[i + 1:])
                    break
            if hit is None:
                return cur
            mi, head, rest = hit
            if head in mi.imports:
                cur = ".".join([mi.imports[head]] + rest)
                continue
            return cur
        return cur

    def resolve_expr(self, mi: ModuleInfo, expr: ast.AST, scope: Optional[FunctionInfo] = None) -> Optional[str]:
        """Resolve a Name/Attribute chain to a dotted name through imports / module-level
        definitions / enclosing classes; e.g. ``np.delete`` -> ``numpy.delete``,
        ``Token.Kind.VALUE`` -> ``formulaic.parser.types.token.Token.Kind.VALUE``."""
        d = dotted(expr)
        if d is None:
            return None
        head, _, rest = d.partition(".")
        target = None
        # nested function defined in an enclosing function scope
        f = scope
        while f is not None and target is None:
            q = f"{f.qualname}.<locals>.{head}"
            if q in self.functions:
                target = q
            f = f.parent
        if target is None:
            if head in mi.imports:
                target = mi.imports[head]
            elif f"{mi.name}.{head}" in self.classes or f"{mi.name}.{head}" in self.functions or head in mi.assigns:
                target = f"{mi.name}.{head}"
            else:
                target = head  # builtin or unknown
        full = target + ("." + rest if rest else "")
        return self.canonical(full)

    def resolve_in(self, fi: FunctionInfo, expr: ast.AST) -> Optional[str]:
        return self.resolve_expr(fi.module, expr, fi)

    def functions_in_module(self, modname: str) -> List[FunctionInfo]:
        return [f for f in self.functions.values() if f.module.name == modname]

    def registrations(self, base_qual: str) -> List[FunctionInfo]:
        """Functions decorated ``@<base>.register`` (functools.singledispatch)."""
        base = self.func(base_qual)
        out = []
        for f in self.functions.values():
            if f.module is not base.module:
                continue
            for d in getattr(f.node, "decorator_list", []):
                t = d.func if isinstance(d, ast.Call) else d
                if isinstance(t, ast.Attribute) and t.attr == "register" and dotted(t.value) == base.name:
                    out.append(f)
        return out


def first_param_annotation(fi: FunctionInfo) -> str:
    a = fi.node.args
    ps = list(a.posonlyargs) + list(a.args)
    if ps and ps[0].annotation is not None:
        return norm(ps[0].annotation)
    return "?"
