"""C20 — formula differentiation is the term-wise partial derivative (count, order, conventions)."""
from __future__ import annotations

import ast
import re

from ..core import AnalysisError, Project, dotted, is_const, kwarg, norm, param_names, walk_no_nested
from ..util import canon, returns_of
from .. import sym

EXPLANATION = (
    "Static rules: (R1) SimpleFormula.differentiate builds its result by a one-to-one comprehension over the private term list "
    "and passes OrderingMethod.NONE (same number and order of terms); StructuredFormula / ModelSpec(s).differentiate map it "
    "leaf-wise forwarding the variables; (R2) differentiate_term: for each variable in order, if no factor contains it the "
    "literal 0 term is returned immediately, otherwise the affected factors are removed and replaced by their derivative, which "
    "is the empty set when the derivative is 1; an empty result becomes the literal 1 term; without sympy a factor's symbols are "
    "exactly its expression. The finite-difference statement and the sympy path are not decided."
)
ASSUMPTIONS = []


LIT0 = ["Term({Factor('0', eval_method='literal')})", "Term([Factor('0', eval_method='literal')])", "Term({Factor('0', 'literal')})",
        "Term({Factor('0', eval_method=Factor.EvalMethod.LITERAL)})"]
LIT1 = [x.replace("'0'", "'1'") for x in LIT0]


def _single_return(f):
    """The returned expression of a function with exactly one way to return (locals substituted); None otherwise."""
    try:
        outs = [o for o in sym.outcomes(f.node) if o.kind == "return"]
    except sym.Unmodelled:
        return None
    return outs[0].value if len(outs) == 1 else None


def r1(ctx):
    P = ctx.project
    f = P.method("formulaic.formula.SimpleFormula", "differentiate", inherited=False)
    ctx.look(4)
    c = _single_return(f)
    params = param_names(f.node)
    # SimpleFormula([differentiate_term(t, wrt, use_sympy=use_sympy) for t in self.__terms], _ordering=…)
    b = sym.pm_any(["SimpleFormula([differentiate_term(VAR_t, wrt, use_sympy=use_sympy) for VAR_t in self.__terms], _ordering=ANY_o)",
                    "SimpleFormula([differentiate_term(VAR_t, wrt=wrt, use_sympy=use_sympy) for VAR_t in self.__terms], _ordering=ANY_o)",
                    "SimpleFormula([differentiate_term(VAR_t, wrt, use_sympy) for VAR_t in self.__terms], _ordering=ANY_o)",
                    "SimpleFormula([differentiate_term(VAR_t, wrt, use_sympy=use_sympy) for VAR_t in self.__terms])",
                    "SimpleFormula([differentiate_term(VAR_t, wrt=wrt, use_sympy=use_sympy) for VAR_t in self.__terms])"], c)
    ctx.check(b is not None, "C20.R1", "one derivative term per term, in the formula's order", f.where, ctx.construct(f, text="one-to-one"),
              f"differentiate returns `{norm(c)[:150] if c is not None else None}`; expected one differentiate_term(term, wrt, use_sympy) per element of self.__terms, unfiltered, in order")
    o = (b or {}).get("ANY_o")
    ctx.check(o == "OrderingMethod.NONE", "C20.R1", "the derivative keeps the term order (no re-sorting by degree)", f.where,
              ctx.construct(f, text="ordering NONE"), f"_ordering is `{o if o is not None else 'default (DEGREE)'}`: differentiation changes degrees, so terms would be reshuffled")
    for cls, what, key in (("formulaic.formula.StructuredFormula", "structured formulas differentiate leaf-wise", "leaf-wise"),
                           ("formulaic.model_spec.ModelSpecs", "model specs differentiate leaf-wise", "specs")):
        g = P.method(cls, "differentiate", inherited=False)
        c = _single_return(g)
        ok = c is not None and any(
            sym.pm(pat, x) is not None for x in ast.walk(c)
            for pat in ("self._map(lambda VAR_x: VAR_x.differentiate(*wrt, use_sympy=use_sympy))",
                        "self._map(lambda VAR_x: VAR_x.differentiate(*wrt, use_sympy=use_sympy), as_type=ANY_t)"))
        ctx.check(ok, "C20.R1", what, g.where, ctx.construct(g, text=key), f"{cls.split('.')[-1]}.differentiate must map differentiate(*wrt, use_sympy=use_sympy) over the leaves; returns `{norm(c)[:120] if c is not None else None}`")
    h = P.method("formulaic.model_spec.ModelSpec", "differentiate", inherited=False)
    c = _single_return(h)
    ok = isinstance(c, ast.Call) and norm(c.func) == "self.update" and kwarg(c, "formula") is not None \
        and norm(kwarg(c, "formula")) == "self.formula.differentiate(*wrt, use_sympy=use_sympy)"
    ctx.check(ok, "C20.R1", "a model spec differentiates its own formula with the same variables", h.where, ctx.construct(h, text="spec"), f"returns `{norm(c) if c is not None else None}`")
    st = kwarg(c, "structure") if isinstance(c, ast.Call) else None
    ctx.check(st is not None and is_const(st, None), "C20.R1", "the differentiated spec does not keep the structure recorded for the original terms", h.where,
              ctx.construct(h, text="spec structure"),
              "ModelSpec.differentiate must reset `structure` (it lists the original formula's terms and columns): a materialised spec's derivative otherwise "
              "fails (KeyError) or replays the original columns when materialised")
    # the derivative is a formula object with `_ordering=NONE`; on its way through a model spec it passes Formula.from_spec, which
    # must hand an existing formula object back as it is (re-wrapping it would re-sort the derivative's terms by degree)
    fs = P.method("formulaic.formula._FormulaMeta", "from_spec")
    try:
        fo = sym.outcomes(fs.node)
    except sym.Unmodelled as e:
        raise AnalysisError(f"C20.R1: Formula.from_spec cannot be summarised: {e}")
    from ..util import strip_casts
    sp = param_names(fs.node)[1]
    FORM = re.compile(r"^isinstance\(%s, \(?(Formula|SimpleFormula|StructuredFormula)(, (Formula|SimpleFormula|StructuredFormula))*\)?\)$" % re.escape(sp))
    built = [o for o in fo if any(pol and FORM.match(norm(c)) for c, pol in o.conds)]
    ctx.floor("C20.R1", len(built), 1, "paths of Formula.from_spec for an existing formula object")
    bad = [o for o in built if not (o.kind == "return" and o.value is not None and norm(strip_casts(o.value)) == sp and not o.effects)]
    ctx.check(not bad, "C20.R1", "Formula.from_spec hands an existing formula object back unchanged (the derivative keeps its term order)", fs.where,
              ctx.construct(fs, text="from_spec passthrough"),
              f"an already-built formula must be returned as it is; found {[repr(o)[:140] for o in bad[:2]]}: re-wrapping applies the default degree ordering to a "
              f"derivative that was built with ordering NONE")


def r2(ctx):
    P = ctx.project
    f = P.func("formulaic.utils.calculus.differentiate_term")
    ctx.look(5)
    fn = f.node
    params = param_names(fn)
    try:
        outs = sym.outcomes(fn)
    except sym.Unmodelled as e:
        raise AnalysisError(f"C20.R2: differentiate_term cannot be summarised: {e}")
    loops = {id(l._sym_orig): l for o in outs for l in o.loops}
    if len(loops) != 1:
        raise AnalysisError("C20.R2: variable loop of differentiate_term not found")
    lp = next(iter(loops.values()))
    line = f.module.line(lp._sym_orig)
    ctx.check(isinstance(lp._sym_orig, ast.For) and norm(lp._sym_head) == params[1], "C20.R2", "variables are applied successively in the order given", line,
              ctx.construct(f, text="loop"), f"loop iterates `{norm(lp._sym_head)}`")
    var = norm(lp._sym_orig.target) if isinstance(lp._sym_orig, ast.For) else "?"
    inloop = [o for o in outs if o.loops]
    after = [o for o in outs if not o.loops]
    falls = [o for o in inloop if o.kind in ("fall", "continue")]
    zero = [o for o in inloop if o.kind == "return"]
    other = [o for o in inloop if o.kind not in ("fall", "continue", "return")]
    # the zero short-circuit may also be written as `found = …; break` with the zero term returned after the loop: the summaries
    # then show a `break` in the loop and a return on the "loop was left early" continuation
    broken_rets = [o for o in after if o.kind == "return" and any(norm(c).startswith("loop_completed") and not pol for c, pol in o.conds)]
    brk = [o for o in inloop if o.kind == "break"]
    flag_form = not zero and len(brk) == 1 and len(broken_rets) == 1
    if flag_form:
        zero = [sym.Outcome("return", broken_rets[0].value, list(brk[0].conds), brk[0].stmt, brk[0].env, brk[0].loops, brk[0].effects)]
        other = [o for o in other if o is not brk[0]]
        after = [o for o in after if o not in broken_rets]
    # the running factor set: the one loop-carried variable that is also read after the loop
    carried = sorted({k for o in falls for k in o.env if k not in lp._sym_env or norm(o.env[k]) != norm(lp._sym_env.get(k))} & {
        n.id for o in after if o.value is not None for n in ast.walk(o.value) if isinstance(n, ast.Name)})
    F = carried[0] if len(carried) == 1 else None
    # the symbols function, by role: the callee of the membership test `var in H(factor, …)` that filters the affected set — a module
    # function taking (factor, use_sympy), or a closure of differentiate_term taking the factor and reading use_sympy from its scope
    H, s, closure = "_factor_symbols", None, False
    for c in ast.walk(fn):
        if isinstance(c, ast.comprehension):
            for t in c.ifs:
                if isinstance(t, ast.Compare) and len(t.ops) == 1 and isinstance(t.ops[0], ast.In) and norm(t.left) == var and isinstance(t.comparators[0], ast.Call) \
                        and isinstance(t.comparators[0].func, ast.Name):
                    H = t.comparators[0].func.id
    if f"{f.qualname}.<locals>.{H}" in P.functions:
        s, closure = P.functions[f"{f.qualname}.<locals>.{H}"], True
    elif f"formulaic.utils.calculus.{H}" in P.functions:
        s = P.functions[f"formulaic.utils.calculus.{H}"]
    else:
        raise AnalysisError(f"anchor vanished: the symbols function `{H}` of differentiate_term")
    US = params[2] if len(params) > 2 else "use_sympy"
    if closure and len(param_names(s.node)) == 1 and any(isinstance(n_, ast.Name) and n_.id == US for n_ in ast.walk(s.node)):
        AFF = AFF2 = "{VAR_f for VAR_f in %s if %s in %s(VAR_f)}" % (F, var, H)
    else:
        AFF = "{VAR_f for VAR_f in %s if %s in %s(VAR_f, use_sympy=%s)}" % (F, var, H, US)
        AFF2 = "{VAR_f for VAR_f in %s if %s in %s(VAR_f, %s)}" % (F, var, H, US)
    # (a) zero rule
    okz = False
    aff_text = None
    if len(zero) == 1 and len(zero[0].conds) == 1 and zero[0].conds[0][1] is False:
        b = sym.pm_any([AFF, AFF2], zero[0].conds[0][0])
        if b is not None:
            aff_text = norm(zero[0].conds[0][0])
            okz = sym.pm_any(LIT0, zero[0].value) is not None
    ctx.check(aff_text is not None, "C20.R2", "a factor is affected iff the variable is among its symbols", line, ctx.construct(f, text="affected"),
              f"the affected set must be {{factor for factor in {F} if {var} in {H}(factor, use_sympy=use_sympy)}}, recomputed per variable; "
              f"in-loop returns: {[repr(o)[:160] for o in zero]}")
    ctx.check(okz, "C20.R2", "a term not containing the variable differentiates to the literal 0 term", line, ctx.construct(f, text="zero"),
              "expected: if no factor is affected, return Term({Factor('0', eval_method='literal')}) immediately")
    # (b) replacement
    okr = False
    if len(falls) == 1 and F and aff_text and F in falls[0].env:
        okr = any(sym.pm(pat, falls[0].env[F], {"ANY_a": aff_text}) is not None for pat in (
            f"{F} - ANY_a | _differentiate_factors(ANY_a, {var}, use_sympy=use_sympy)",
            f"({F} - ANY_a) | _differentiate_factors(ANY_a, {var}, use_sympy)",
            f"({F} - ANY_a).union(_differentiate_factors(ANY_a, {var}, use_sympy=use_sympy))"))
    ctx.check(okr, "C20.R2", "affected factors are removed and replaced by their derivative, the rest keep their order", line, ctx.construct(f, text="replace"),
              f"expected {F} = ({F} - affected) | _differentiate_factors(affected, {var}, use_sympy=use_sympy); found "
              f"`{norm(falls[0].env[F])[:200] if len(falls) == 1 and F and F in falls[0].env else [repr(o)[:100] for o in falls]}`")
    ctx.check(not other and len(falls) == 1 and len(zero) <= 1 and (flag_form or not any(o.kind == "break" for o in inloop)), "C20.R2",
              "each variable is processed by exactly: affected set, zero short-circuit, replacement (no early exit)", line, ctx.construct(f, text="loop shape"),
              f"other ways of leaving an iteration: {[repr(o)[:120] for o in other + falls[1:]]}: an early exit skips the "
              f"zero rule for the remaining variables (d/db of the constant left by d/da must be 0, not 1)")
    ctx.check(aff_text is not None and F is not None and f" in {F} if " in aff_text, "C20.R2", "symbols are taken from the CURRENT factor set on every pass", line,
              ctx.construct(f, text="current factors"),
              "affected factors must be recomputed from the running factor set for each variable (a precomputed map misses factors produced by earlier passes)")
    init = lp._sym_env.get(F) if F else None
    ctx.check(init is not None and sym.pm_any([f"OrderedSet({params[0]}.factors)"], init) is not None, "C20.R2", "the term's factors are kept in order", f.where,
              ctx.construct(f, text="init"), f"the running factor set must start as OrderedSet({params[0]}.factors); it starts as `{norm(init) if init is not None else None}`")
    # (c) after the loop: empty product -> literal 1, else the term over the remaining factors
    rets = [o for o in after if o.kind == "return"]
    ok1 = ok2 = False
    if F:
        e = sym.select(rets, {F: False})
        n = sym.select(rets, {F: True})
        ok1 = len(e) == 1 and sym.pm_any(LIT1, sym.simplify(e[0].value, {F: False})) is not None
        ok2 = len(n) == 1 and sym.pm(f"Term({F})", sym.simplify(n[0].value, {F: True})) is not None
    ctx.check(ok1, "C20.R2", "an empty product becomes the literal 1 term", f.where, ctx.construct(f, text="one"), f"final returns {[repr(o)[:140] for o in rets]}")
    ctx.check(ok2, "C20.R2", "otherwise the result is the term over the remaining factors", f.where, ctx.construct(f, text="rest"), f"final returns {[repr(o)[:140] for o in rets]}")
    sp = param_names(s.node)
    try:
        souts = [o for o in sym.outcomes(s.node) if o.kind == "return"]
    except sym.Unmodelled:
        souts = []
    plain = sym.select(souts, {(US if closure and len(sp) == 1 else sp[1]): False})
    ok = len(plain) == 1 and sym.pm("{%s.expr}" % sp[0], plain[0].value) is not None
    ctx.check(ok, "C20.R2", "without sympy a factor's only symbol is its own expression", s.where, ctx.construct(s, text="symbols"), f"returns {[repr(o)[:120] for o in plain]}")
    d = P.func("formulaic.utils.calculus._differentiate_factors")
    dp = param_names(d.node)
    try:
        douts = sym.select(sym.outcomes(d.node), {dp[2]: False})
    except sym.Unmodelled:
        douts = []
    one = sym.select(douts, {f"len({dp[0]}) != 1": False})
    many = sym.select(douts, {f"len({dp[0]}) != 1": True})
    ok = len(one) == 1 and one[0].kind == "return" and norm(one[0].value) == "set()" and bool(many) and all(o.kind == "raise" for o in many)
    ctx.check(ok, "C20.R2", "without sympy the derivative of a single factor w.r.t. itself is 1 (no factor remains)", d.where, ctx.construct(d, text="derivative one"),
              f"_differentiate_factors (no sympy): exactly one factor, derivative 1 → empty set; more than one → error; found {[repr(o)[:110] for o in douts]}")


def f1(ctx):
    """generic same-name parameter forwarding over this property's modules (see shared.generic_forwarding)."""
    from . import shared as _sh
    _sh.generic_forwarding(ctx, "C20.F1", _sh.PROPERTY_MODULES["C20"])


RULES = [("C20.R1", r1), ("C20.R2", r2), ("C20.F1", f1)]
