"""C20 — formula differentiation is the term-wise partial derivative (count, order, conventions)."""
from __future__ import annotations

import ast

from ..core import AnalysisError, Project, dotted, is_const, kwarg, norm, param_names, walk_no_nested
from ..util import canon, returns_of

EXPLANATION = (
    "Static rules: (R1) SimpleFormula.differentiate builds its result by a one-to-one comprehension over the private term list "
    "and passes OrderingMethod.NONE (same number and order of terms); StructuredFormula / ModelSpec(s).differentiate map it "
    "leaf-wise forwarding the variables; (R2) differentiate_term: for each variable in order, if no factor contains it the "
    "literal 0 term is returned immediately, otherwise the affected factors are removed and replaced by their derivative, which "
    "is the empty set when the derivative is 1; an empty result becomes the literal 1 term; without sympy a factor's symbols are "
    "exactly its expression. The finite-difference statement and the sympy path are not decided."
)
ASSUMPTIONS = []


def r1(ctx):
    P = ctx.project
    f = P.method("formulaic.formula.SimpleFormula", "differentiate", inherited=False)
    r = returns_of(f.node)
    ctx.look(4)
    c = r[0].value if r else None
    ok = isinstance(c, ast.Call) and dotted(c.func) == "SimpleFormula" and c.args and isinstance(c.args[0], ast.ListComp)
    if ok:
        lc = c.args[0]
        ok = len(lc.generators) == 1 and not lc.generators[0].ifs and norm(lc.generators[0].iter) == "self.__terms" \
            and norm(lc.elt) == f"differentiate_term({norm(lc.generators[0].target)}, wrt, use_sympy=use_sympy)"
    ctx.check(ok, "C20.R1", "one derivative term per term, in the formula's order", f.where, ctx.construct(f, text="one-to-one"),
              f"differentiate returns `{norm(c)[:150] if c is not None else None}`")
    o = kwarg(c, "_ordering") if isinstance(c, ast.Call) else None
    ctx.check(o is not None and norm(o) == "OrderingMethod.NONE", "C20.R1", "the derivative keeps the term order (no re-sorting by degree)", f.where,
              ctx.construct(f, text="ordering NONE"), f"_ordering is `{norm(o) if o is not None else 'default (DEGREE)'}`: differentiation changes degrees, so terms would be reshuffled")
    g = P.method("formulaic.formula.StructuredFormula", "differentiate", inherited=False)
    t = norm(g.node)
    ok = "self._map(" in t and ".differentiate(*wrt, use_sympy=use_sympy)" in t
    ctx.check(ok, "C20.R1", "structured formulas differentiate leaf-wise", g.where, ctx.construct(g, text="leaf-wise"), "StructuredFormula.differentiate must map differentiate over the leaves")
    h = P.method("formulaic.model_spec.ModelSpec", "differentiate", inherited=False)
    r = returns_of(h.node)
    c = r[0].value if r else None
    ok = isinstance(c, ast.Call) and norm(c.func) == "self.update" and kwarg(c, "formula") is not None \
        and norm(kwarg(c, "formula")) == "self.formula.differentiate(*wrt, use_sympy=use_sympy)"
    ctx.check(ok, "C20.R1", "a model spec differentiates its own formula with the same variables", h.where, ctx.construct(h, text="spec"), f"returns `{norm(c) if c is not None else None}`")
    st = kwarg(c, "structure") if isinstance(c, ast.Call) else None
    ctx.check(st is not None and is_const(st, None), "C20.R1", "the differentiated spec does not keep the structure recorded for the original terms", h.where,
              ctx.construct(h, text="spec structure"),
              "ModelSpec.differentiate must reset `structure` (it lists the original formula's terms and columns): a materialised spec's derivative otherwise "
              "fails (KeyError) or replays the original columns when materialised")
    k = P.method("formulaic.model_spec.ModelSpecs", "differentiate", inherited=False)
    t = norm(k.node)
    ok = "self._map(" in t and ".differentiate(*wrt, use_sympy=use_sympy)" in t
    ctx.check(ok, "C20.R1", "model specs differentiate leaf-wise", k.where, ctx.construct(k, text="specs"), "ModelSpecs.differentiate must map over the leaves")


def r2(ctx):
    P = ctx.project
    f = P.func("formulaic.utils.calculus.differentiate_term")
    ctx.look(5)
    fn = f.node
    lp = [n for n in walk_no_nested(fn) if isinstance(n, ast.For)]
    if len(lp) != 1:
        raise AnalysisError("C20.R2: variable loop of differentiate_term not found")
    lp = lp[0]
    ctx.check(norm(lp.iter) == "wrt", "C20.R2", "variables are applied successively in the order given", f.module.line(lp), ctx.construct(f, text="loop"),
              f"loop iterates `{norm(lp.iter)}`")
    t = norm(lp)
    ok = "affected_factors = set((factor for factor in factors if var in _factor_symbols(factor, use_sympy=use_sympy)))" in t
    ctx.check(ok, "C20.R2", "a factor is affected iff the variable is among its symbols", f.module.line(lp), ctx.construct(f, text="affected"),
              "affected_factors must be {factor for factor in factors if var in _factor_symbols(factor)}")
    z = [n for n in lp.body if isinstance(n, ast.If) and norm(n.test) == "not affected_factors"]
    ok = len(z) == 1 and isinstance(z[0].body[0], ast.Return) and norm(z[0].body[0].value) == "Term({Factor('0', eval_method='literal')})"
    ctx.check(ok, "C20.R2", "a term not containing the variable differentiates to the literal 0 term", f.module.line(lp), ctx.construct(f, text="zero"),
              "expected `if not affected_factors: return Term({Factor('0', eval_method='literal')})`")
    ok = "factors = cast(OrderedSet, factors - affected_factors | _differentiate_factors(affected_factors, var, use_sympy=use_sympy))" in t
    ctx.check(ok, "C20.R2", "affected factors are removed and replaced by their derivative, the rest keep their order", f.module.line(lp), ctx.construct(f, text="replace"),
              "expected factors = factors - affected_factors | _differentiate_factors(affected_factors, var)")
    r = [x for x in returns_of(fn) if x not in [s for s in ast.walk(lp) if isinstance(s, ast.Return)]]
    ok = bool(r) and norm(r[-1].value) == "Term(factors or {Factor('1', eval_method='literal')})"
    ctx.check(ok, "C20.R2", "an empty product becomes the literal 1 term", f.where, ctx.construct(f, text="one"), f"final return `{norm(r[-1].value) if r else None}`")
    # nothing else happens per variable: the loop body is exactly (affected set, zero short-circuit, replacement)
    kinds = [type(x).__name__ for x in lp.body]
    ctx.check(kinds == ["Assign", "If", "Assign"] and not lp.orelse and not any(isinstance(x, (ast.Break, ast.Continue)) for x in ast.walk(lp)), "C20.R2",
              "each variable is processed by exactly: affected set, zero short-circuit, replacement (no early exit)", f.module.line(lp), ctx.construct(f, text="loop shape"),
              f"loop body statements are {kinds}{' with break/continue' if any(isinstance(x, (ast.Break, ast.Continue)) for x in ast.walk(lp)) else ''}: an early exit skips the "
              f"zero rule for the remaining variables (d/db of the constant left by d/da must be 0, not 1)")
    syms = [c for c in ast.walk(lp) if isinstance(c, ast.Call) and dotted(c.func) == "_factor_symbols"]
    ctx.check(len(syms) == 1 and norm(syms[0].args[0]) == "factor" and any(isinstance(g, ast.GeneratorExp) and norm(g.generators[0].iter) == "factors" for g in ast.walk(lp)), "C20.R2",
              "symbols are taken from the CURRENT factor set on every pass", f.module.line(lp), ctx.construct(f, text="current factors"),
              "affected factors must be recomputed from the running `factors` for each variable (a precomputed map misses factors produced by earlier passes)")
    init = [n for n in fn.body if isinstance(n, ast.Assign) and norm(n.targets[0]) == "factors"]
    ctx.check(bool(init) and norm(init[0].value) == "OrderedSet(term.factors)", "C20.R2", "the term's factors are kept in order", f.where, ctx.construct(f, text="init"),
              "factors must start as OrderedSet(term.factors)")
    s = P.func("formulaic.utils.calculus._factor_symbols")
    rs = returns_of(s.node)
    ok = bool(rs) and norm(rs[-1].value) == "{factor.expr}"
    ctx.check(ok, "C20.R2", "without sympy a factor's only symbol is its own expression", s.where, ctx.construct(s, text="symbols"), f"returns `{norm(rs[-1].value) if rs else None}`")
    d = P.func("formulaic.utils.calculus._differentiate_factors")
    t = norm(d.node)
    ok = "if len(factors) != 1:" in t and "expr = 1" in t and "if expr == 1:" in t and "return set()" in t
    ctx.check(ok, "C20.R2", "without sympy the derivative of a single factor w.r.t. itself is 1 (no factor remains)", d.where, ctx.construct(d, text="derivative one"),
              "_differentiate_factors (no sympy): exactly one factor, derivative 1 → empty set")



def f1(ctx):
    """generic same-name parameter forwarding over this property's modules (see shared.generic_forwarding)."""
    from . import shared as _sh
    _sh.generic_forwarding(ctx, "C20.F1", _sh.PROPERTY_MODULES["C20"])


RULES = [("C20.R1", r1), ("C20.R2", r2), ("C20.F1", f1)]
