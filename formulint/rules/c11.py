"""C11 — built-in contrast codings: shapes and metadata for every level count (symbolic in n)."""
from __future__ import annotations

import ast
import itertools
import re
from typing import Dict, List, Optional, Tuple, Union

from ..core import AnalysisError, FunctionInfo, Project, dotted, is_const, kwarg, norm, param_names, walk_no_nested
from ..util import count_negations, returns_of, strip_casts
from .. import sym
from . import c03

CONTRASTS = "formulaic.transforms.contrasts"

EXPLANATION = (
    "Static rules, symbolic in the number of levels n: (R1) for each registered contrast class except `custom`, "
    "_get_coding_matrix is abstractly evaluated with len(levels)=n symbolic, reduced_rank=True, for sparse∈{False,True} and "
    "every value of the class's boolean options, over a frozen constructor table (eye, zeros, lil_matrix, repeat/arange, "
    "column selection by a filtered range, poly, shape-preserving conversions and item assignments); the result must have "
    "shape (n, n−1) as polynomials in n on every path; (R2) get_coding_column_names has symbolic length n−1 when reduced and "
    "n when full; (R3) with reduced_rank=False every class returns eye(n) (dense) / eye(n).tocsc() (sparse), "
    "get_spans_intercept is n>0 ∧ ¬reduced, get_drop_field is None when reduced; (R4) reference-level agreement (= C03.R5) "
    "and a reduced factor format per class; (R5) every registry entry overrides the abstract methods and the coefficient "
    "matrix prepends the ones column only when reduced. The numerical entries (textbook values, zero column sums, "
    "invertibility, dense=sparse) are NOT decided."
)
ASSUMPTIONS = [
    "shape table: eye(a[,b])→(a,b|a); zeros/ones/lil_matrix((a,b))→(a,b); arange(a,b)→(b−a,); repeat([v],k,axis=0)→(k,len v); "
    "M[:, [i for i in range(k) if i != j]]→(rows M, k−1); poly(x, degree=d)→(len x, d); tocsc/tolil/csc_matrix/array/cast, scalar "
    "arithmetic, item and augmented assignment preserve shape",
]


class Lin:
    """a*n + b"""

    def __init__(self, a: int, b: int):
        self.a, self.b = a, b

    def __add__(self, o):
        return Lin(self.a + o.a, self.b + o.b)

    def __sub__(self, o):
        return Lin(self.a - o.a, self.b - o.b)

    def __eq__(self, o):
        return isinstance(o, Lin) and (self.a, self.b) == (o.a, o.b)

    def __hash__(self):
        return hash((self.a, self.b))

    def __repr__(self):
        if self.a == 0:
            return str(self.b)
        s = "n" if self.a == 1 else f"{self.a}n"
        return s if self.b == 0 else f"{s}{self.b:+d}"


N = Lin(1, 0)


class Unknown(Exception):
    pass


class PathEnd(Exception):
    pass


class LoopNext(Exception):
    pass


class ShapeEval:
    def __init__(self, P: Project, f: FunctionInfo, consts: Dict[str, bool]):
        self.P, self.f, self.consts = P, f, consts
        self.env: Dict[str, object] = {"levels": ("seq", N)}
        self.returns: List[object] = []
        self.trace: List[str] = []  # value-affecting statements executed on this path (item stores, augmented assignments)

    # ---- integers
    def integer(self, e: ast.AST) -> Lin:
        e = strip_casts(e)
        if isinstance(e, ast.Constant) and isinstance(e.value, int) and not isinstance(e.value, bool):
            return Lin(0, e.value)
        if isinstance(e, ast.UnaryOp) and isinstance(e.op, ast.USub):
            v = self.integer(e.operand)
            return Lin(-v.a, -v.b)
        if isinstance(e, ast.Name):
            v = self.env.get(e.id)
            if isinstance(v, Lin):
                return v
            raise Unknown(f"integer `{e.id}`")
        if isinstance(e, ast.BinOp) and isinstance(e.op, (ast.Add, ast.Sub)):
            l, r = self.integer(e.left), self.integer(e.right)
            return l + r if isinstance(e.op, ast.Add) else l - r
        if isinstance(e, ast.Call) and dotted(e.func) == "len" and e.args:
            v = self.value(e.args[0])
            if isinstance(v, tuple) and v[0] == "seq":
                return v[1]
            if isinstance(v, tuple) and v[0] == "vec":
                return v[1]
            raise Unknown(f"len of `{norm(e.args[0])}`")
        if isinstance(e, ast.Subscript) and isinstance(e.value, ast.Attribute) and e.value.attr == "shape":
            m = self.value(e.value.value)
            if isinstance(m, tuple) and m[0] == "mat" and isinstance(e.slice, ast.Constant) and e.slice.value in (0, 1):
                return m[1 + e.slice.value]
        raise Unknown(f"integer expression `{norm(e)[:60]}`")

    # ---- values: ("mat", rows, cols) | ("vec", len) | ("seq", len) | Lin | ("scalar",)
    def value(self, e: ast.AST):
        e = strip_casts(e)
        if isinstance(e, ast.Name):
            if e.id in self.env:
                return self.env[e.id]
            raise Unknown(f"name `{e.id}`")
        if isinstance(e, ast.Constant):
            return ("scalar",)
        if isinstance(e, ast.IfExp):
            t = self.test(e.test)
            if t is None:
                a, b = self.value(e.body), self.value(e.orelse)
                if a != b:
                    raise Unknown(f"conditional with different shapes: {a} vs {b}")
                return a
            return self.value(e.body if t else e.orelse)
        if isinstance(e, ast.BoolOp) and isinstance(e.op, ast.Or):
            # `self.scores or numpy.arange(n)`: shape of the fallback (the given option is validated to have that length)
            return self.value(e.values[-1])
        if isinstance(e, ast.Attribute) and dotted(e.value) == "self":
            return ("opt", e.attr)
        if isinstance(e, ast.List):
            if len(e.elts) == 1:
                return ("list1", self.value(e.elts[0]))
            return ("seq", Lin(0, len(e.elts)))
        if isinstance(e, ast.BinOp):
            l, r = self._try(e.left), self._try(e.right)
            mats = [x for x in (l, r) if isinstance(x, tuple) and x[0] in ("mat", "vec")]
            if mats:
                if isinstance(e.op, ast.MatMult):
                    raise Unknown("matrix product")
                return mats[0]
            try:
                return self.integer(e)
            except Unknown:
                return ("scalar",)
        if isinstance(e, ast.Subscript):
            base = self.value(e.value)
            s = e.slice
            if isinstance(base, tuple) and base[0] == "seq" and isinstance(s, ast.Slice):
                lo = 0 if s.lower is None else self._const(s.lower)
                hi = 0 if s.upper is None else self._const(s.upper)
                if lo is None or hi is None or lo < 0 or hi > 0 or s.step is not None:
                    raise Unknown(f"slice `{norm(e)}`")
                return ("seq", base[1] - Lin(0, lo - hi))
            if isinstance(base, tuple) and base[0] == "mat" and isinstance(s, ast.Tuple) and len(s.elts) == 2:
                r_, c_ = s.elts
                if isinstance(r_, ast.Slice) and r_.lower is None and r_.upper is None:
                    if isinstance(c_, ast.ListComp):
                        return ("mat", base[1], self._filtered_range_len(c_))
                    if isinstance(c_, ast.Name) and isinstance(self.env.get(c_.id), tuple) and self.env[c_.id][0] == "mask":
                        return ("mat", base[1], self.env[c_.id][1])
            raise Unknown(f"subscript `{norm(e)[:60]}`")
        if isinstance(e, ast.ListComp):
            return ("seq", self._comp_len(e))
        if isinstance(e, ast.Call):
            d = dotted(e.func) or ""
            tail = d.split(".")[-1] if d else (e.func.attr if isinstance(e.func, ast.Attribute) else "")
            if tail == "eye" and e.args:
                a = self.integer(e.args[0])
                b = self.integer(e.args[1]) if len(e.args) > 1 else a
                return ("mat", a, b)
            if tail in ("zeros", "ones", "empty", "lil_matrix") and e.args and isinstance(e.args[0], ast.Tuple) and len(e.args[0].elts) == 2:
                return ("mat", self.integer(e.args[0].elts[0]), self.integer(e.args[0].elts[1]))
            if tail == "arange":
                if len(e.args) == 1:
                    return ("vec", self.integer(e.args[0]))
                if len(e.args) == 2:
                    return ("vec", self.integer(e.args[1]) - self.integer(e.args[0]))
            if tail == "repeat" and len(e.args) >= 2 and is_const(kwarg(e, "axis") or ast.Constant(None), 0):
                v = self.value(e.args[0])
                if isinstance(v, tuple) and v[0] == "list1" and isinstance(v[1], tuple) and v[1][0] == "vec":
                    return ("mat", self.integer(e.args[1]), v[1][1])
            if tail in ("tocsc", "tolil", "tocsr", "toarray", "todense", "copy") and isinstance(e.func, ast.Attribute):
                return self.value(e.func.value)
            if tail in ("csc_matrix", "csr_matrix", "array", "asarray") and e.args:
                return self.value(e.args[0])
            if tail == "poly" and e.args:
                x = self.value(e.args[0])
                dg = kwarg(e, "degree") or (e.args[1] if len(e.args) > 1 else None)
                ln = x[1] if isinstance(x, tuple) and x[0] in ("vec", "seq") else None
                if ln is not None and dg is not None:
                    return ("mat", ln, self.integer(dg))
            if tail == "len":
                return self.integer(e)
            if tail == "_find_base_index":
                return ("index",)
            if tail == "list" and e.args:
                return self.value(e.args[0])
            if tail == "range":
                if len(e.args) == 1:
                    return ("seq", self.integer(e.args[0]))
                if len(e.args) == 2:
                    return ("seq", self.integer(e.args[1]) - self.integer(e.args[0]))
        raise Unknown(f"expression `{norm(e)[:70]}`")

    def _try(self, e):
        try:
            return self.value(e)
        except Unknown:
            return None

    def _const(self, e) -> Optional[int]:
        try:
            v = self.integer(e)
        except Unknown:
            return None
        return v.b if v.a == 0 else None

    def _filtered_range_len(self, lc: ast.ListComp) -> Lin:
        if len(lc.generators) != 1:
            raise Unknown("nested comprehension")
        g = lc.generators[0]
        base = self.value(g.iter)
        if not (isinstance(base, tuple) and base[0] == "seq"):
            raise Unknown(f"comprehension over `{norm(g.iter)}`")
        if not g.ifs:
            return base[1]
        if len(g.ifs) == 1 and isinstance(g.ifs[0], ast.Compare) and len(g.ifs[0].ops) == 1 and isinstance(g.ifs[0].ops[0], ast.NotEq):
            return base[1] - Lin(0, 1)
        raise Unknown(f"comprehension filter `{norm(g.ifs[0])}`")

    def _comp_len(self, lc: ast.ListComp) -> Lin:
        g = lc.generators[0]
        it = g.iter
        if isinstance(it, ast.Call) and dotted(it.func) == "enumerate" and it.args:
            base = self.value(it.args[0])
            if not g.ifs:
                return base[1]
            if len(g.ifs) == 1 and isinstance(g.ifs[0], ast.Compare) and isinstance(g.ifs[0].ops[0], ast.NotEq) and isinstance(g.target, ast.Tuple) \
                    and norm(g.ifs[0].left) == norm(g.target.elts[0]):
                return base[1] - Lin(0, 1)
            raise Unknown(f"filter `{norm(g.ifs[0])}`")
        return self._filtered_range_len(lc)

    # ---- tests
    def test(self, e: ast.AST) -> Optional[bool]:
        t, neg = count_negations(e)
        val = None
        if isinstance(t, ast.Name) and t.id in self.consts:
            val = self.consts[t.id]
        elif isinstance(t, ast.Attribute) and dotted(t.value) == "self" and ("self." + t.attr) in self.consts:
            val = self.consts["self." + t.attr]
        elif isinstance(t, ast.BoolOp):
            vals = [self.test(v) for v in t.values]
            if isinstance(t.op, ast.And):
                val = False if any(v is False for v in vals) else (True if all(v is True for v in vals) else None)
            else:
                val = True if any(v is True for v in vals) else (False if all(v is False for v in vals) else None)
        if val is None:
            return None
        return val ^ (neg % 2 == 1)

    def resolved(self, node: ast.AST) -> ast.AST:
        """``node`` with every conditional expression whose test is decided by the constants replaced by the chosen arm."""
        import copy
        ev = self

        class R(ast.NodeTransformer):
            def visit_IfExp(self, n):
                self.generic_visit(n)
                t = ev.test(n.test)
                if t is None:
                    return n
                return n.body if t else n.orelse
        return ast.fix_missing_locations(R().visit(copy.deepcopy(node)))

    def _trace_text(self, st: ast.stmt, stored: Optional[str]) -> str:
        """Text of a value-affecting statement with the matrices stored into named by order of first store (the spelling of
        the local that holds the matrix under construction is not part of the trace)."""
        if not hasattr(self, "_mats"):
            self._mats = {}
        if stored is not None and stored not in self._mats:
            self._mats[stored] = f"_M{len(self._mats)}"
        node = self.resolved(st)
        for n in ast.walk(node):
            if isinstance(n, ast.Name) and n.id in self._mats:
                n.id = self._mats[n.id]
        return norm(node)

    # ---- statements
    def run(self, stmts: List[ast.stmt]) -> None:
        for st in stmts:
            if isinstance(st, ast.Expr) and isinstance(st.value, ast.Constant):
                continue
            if isinstance(st, ast.Continue):
                raise LoopNext()
            if isinstance(st, ast.Pass):
                continue
            if isinstance(st, ast.Return):
                self.returns.append((st, self.value(st.value)))
                raise PathEnd()
            if isinstance(st, ast.Raise):
                raise PathEnd()
            if isinstance(st, (ast.Assign, ast.AnnAssign)):
                tgt = st.targets[0] if isinstance(st, ast.Assign) else st.target
                if isinstance(tgt, ast.Name):
                    if isinstance(st.value, ast.Call) and (dotted(st.value.func) or "").split(".")[-1] in ("ones", "zeros") and kwarg(st.value, "dtype") is not None \
                            and norm(kwarg(st.value, "dtype")) == "bool":
                        self.env[tgt.id] = ("mask0", self.integer(st.value.args[0]))
                    else:
                        self.env[tgt.id] = self.value(st.value)
                elif isinstance(tgt, ast.Subscript) and isinstance(tgt.value, ast.Name):
                    self.trace.append(self._trace_text(st, tgt.value.id))
                    v = self.env.get(tgt.value.id)
                    if isinstance(v, tuple) and v[0] == "mask0" and isinstance(st.value, ast.Constant) and st.value.value is False:
                        self.env[tgt.value.id] = ("mask", v[1] - Lin(0, 1))
                    # item assignment preserves the shape of the container
                continue
            if isinstance(st, ast.AugAssign):
                b_ = st.target
                while isinstance(b_, (ast.Subscript, ast.Attribute)):
                    b_ = b_.value
                self.trace.append(self._trace_text(st, b_.id if isinstance(b_, ast.Name) else None))
                continue  # shape preserving
            if isinstance(st, ast.If):
                t = self.test(st.test)
                if t is None:
                    if st.body and isinstance(st.body[-1], ast.Raise) and not st.orelse:
                        continue  # a validating guard: the raising path returns nothing; follow the accepting path
                    raise Unknown(f"branch on `{norm(st.test)[:60]}`")
                try:
                    self.run(st.body if t else st.orelse)
                except PathEnd:
                    raise
                continue
            if isinstance(st, ast.For):
                saved = dict(self.env)
                for nm in ast.walk(st.target):
                    if isinstance(nm, ast.Name):
                        self.env[nm.id] = Lin(0, 0)
                self.trace.append("for " + norm(st.target) + " in " + norm(st.iter) + ":")
                try:
                    self.run(st.body)
                except LoopNext:
                    pass
                except PathEnd:
                    raise Unknown("return inside a loop")
                self.trace.append("end for")
                continue
            if isinstance(st, ast.Try):
                self.run(st.body)
                continue
            raise Unknown(f"statement `{norm(st)[:60]}`")


def option_flags(fn: ast.AST) -> List[str]:
    out = []
    for n in ast.walk(fn):
        if isinstance(n, ast.Attribute) and dotted(n.value) == "self" and isinstance(n.ctx, ast.Load):
            p = n
            out.append(n.attr)
    return sorted(set(out))


def registry(P: Project) -> Dict[str, str]:
    R = P.cls(f"{CONTRASTS}.ContrastsRegistry")
    out = {}
    for k, v in R.assigns.items():
        q = P.resolve_expr(R.module, v)
        if q in P.classes:
            out[k] = q
    return out


def _bool_options(P: Project, cq: str) -> List[str]:
    C = P.cls(cq)
    out = []
    for c in P.mro(cq):
        for name, ann in c.annotations.items():
            if norm(ann) == "bool":
                out.append(name)
    return sorted(set(out))


def eval_method(P: Project, m: FunctionInfo, cq: str, reduced: bool, sparse: Optional[bool]):
    """All (option assignment, return statement, value) triples."""
    opts = [o for o in _bool_options(P, cq) if any(isinstance(n, ast.Attribute) and n.attr == o and dotted(n.value) == "self" for n in ast.walk(m.node))]
    extra = [o for o in ("scores",) if any(isinstance(n, ast.Attribute) and n.attr == o and dotted(n.value) == "self" for n in ast.walk(m.node))]
    res = []
    for vals in itertools.product([False, True], repeat=len(opts) + len(extra)):
        consts = {"reduced_rank": reduced}
        if sparse is not None:
            consts["sparse"] = sparse
        for o, v in zip(opts + extra, vals):
            consts["self." + o] = v
        ev = ShapeEval(P, m, consts)
        try:
            ev.run(m.node.body)
        except PathEnd:
            pass
        res.append((dict(zip(opts + extra, vals)), ev.returns))
        TRACES[(m.qualname, reduced, sparse, tuple(sorted(zip(opts + extra, vals))))] = list(ev.trace)
    return res


TRACES: Dict[tuple, List[str]] = {}


def r1(ctx):
    P = ctx.project
    reg = registry(P)
    ctx.floor("C11.R1", len(reg), 7, "registry entries")
    n = 0
    for key, cq in sorted(reg.items()):
        if key == "custom":
            continue
        m = P.method(cq, "_get_coding_matrix")
        for sparse in (False, True):
            try:
                results = eval_method(P, m, cq, True, sparse)
            except Unknown as u:
                ctx.fail("C11.R1", f"{cq.split('.')[-1]} coding matrix is n×(n−1) [sparse={sparse}]", m.where,
                         ctx.construct(m, text=f"shape sparse={sparse}"), f"cannot establish the shape symbolically: unmodelled {u}")
                continue
            for opts, rets in results:
                n += 1
                ctx.look()
                inst = f"{cq.split('.')[-1]}._get_coding_matrix(reduced) is n×(n−1) [sparse={sparse}, {opts}]"
                if not rets:
                    ctx.fail("C11.R1", inst, m.where, ctx.construct(m, text=f"shape sparse={sparse} {opts}"), "no return reached")
                    continue
                for st, v in rets:
                    ok = v == ("mat", N, N - Lin(0, 1))
                    ctx.check(ok, "C11.R1", inst, m.module.line(st), ctx.construct(m, text=f"shape sparse={sparse} {opts}"),
                              f"symbolic shape is {v[1:] if isinstance(v, tuple) else v}; a reduced coding for n levels must be (n, n-1) for every n")
    ctx.floor("C11.R1", n, 16, "symbolic shape evaluations")
    # the treatment fast path (_apply) drops exactly one dummy column
    T = P.cls(f"{CONTRASTS}.TreatmentContrasts")
    ap = T.methods.get("_apply")
    if ap is not None:
        ev = ShapeEval(P, ap, {"reduced_rank": True, "sparse": False})
        t = norm(ap.node)
        ok = "mask = numpy.ones(len(levels), dtype=bool)" in t and "mask[drop_index] = False" in t and "[:, mask]" in t and "drop_index = self._find_base_index(levels)" in t
        ctx.check(ok, "C11.R1", "TreatmentContrasts._apply keeps all dummy columns but the reference level's", ap.where, ctx.construct(ap, text="treatment fast path"),
                  "the fast path must mask exactly the base index")


def r2(ctx):
    P = ctx.project
    reg = registry(P)
    n = 0
    for key, cq in sorted(reg.items()):
        if key == "custom":
            continue
        m = P.method(cq, "get_coding_column_names")
        for reduced, want in ((True, N - Lin(0, 1)), (False, N)):
            try:
                results = eval_method(P, m, cq, reduced, None)
            except Unknown as u:
                ctx.fail("C11.R2", f"{cq.split('.')[-1]} names [reduced={reduced}]", m.where, ctx.construct(m, text=f"names reduced={reduced}"),
                         f"cannot establish the number of names symbolically: unmodelled {u}")
                continue
            for opts, rets in results:
                n += 1
                ctx.look()
                for st, v in rets:
                    ok = isinstance(v, tuple) and v[0] == "seq" and v[1] == want
                    ctx.check(ok, "C11.R2", f"{cq.split('.')[-1]}.get_coding_column_names has {want} entries [reduced={reduced}, {opts}]", m.module.line(st),
                              ctx.construct(m, text=f"names reduced={reduced} {opts}"),
                              f"symbolic length is {v[1] if isinstance(v, tuple) and len(v) > 1 else v}; the coding matrix has {want} columns")
    ctx.floor("C11.R2", n, 14, "symbolic name-length evaluations")
    # names must be pairwise distinct: every alternative of a generated name depends on the loop variable
    for key, cq in sorted(reg.items()):
        if key == "custom":
            continue
        m = P.method(cq, "get_coding_column_names")
        for lc in [x for x in ast.walk(m.node) if isinstance(x, ast.ListComp)]:
            tv = {t.id for t in ast.walk(lc.generators[0].target) if isinstance(t, ast.Name)}
            leaves = _value_leaves(lc.elt)
            ctx.look()
            bad = [l for l in leaves if not any(isinstance(x, ast.Name) and x.id in tv for x in ast.walk(l))]
            ctx.check(not bad, "C11.R2", f"{cq.split('.')[-1]}: every generated column name depends on its position/level", m.module.line(lc),
                      ctx.construct(m, text="distinct names"),
                      f"name alternative `{norm(bad[0]) if bad else ''}` is a constant: several columns get the same name and collapse into one when the encoding becomes a dict of columns")


def _value_leaves(e: ast.AST):
    """Alternatives an expression can evaluate to: both arms of a conditional, the default of dict.get, else the expression."""
    if isinstance(e, ast.IfExp):
        return _value_leaves(e.body) + _value_leaves(e.orelse)
    if isinstance(e, ast.Call) and isinstance(e.func, ast.Attribute) and e.func.attr == "get" and len(e.args) == 2:
        return [ast.Subscript(value=e.func.value, slice=e.args[0], ctx=ast.Load())] + _value_leaves(e.args[1])
    return [e]


def r3(ctx):
    P = ctx.project
    reg = registry(P)
    for key, cq in sorted(reg.items()):
        if key == "custom":
            continue
        m = P.method(cq, "_get_coding_matrix")
        for sparse in (False, True):
            ctx.look()
            try:
                results = eval_method(P, m, cq, False, sparse)
            except Unknown as u:
                ctx.fail("C11.R3", f"{cq.split('.')[-1]} full coding is the identity [sparse={sparse}]", m.where, ctx.construct(m, text=f"full sparse={sparse}"),
                         f"unmodelled {u}")
                continue
            for opts, rets in results:
                for st, v in rets:
                    # which expression is returned under these constants?
                    e = st.value
                    ev = ShapeEval(P, m, {"reduced_rank": False, "sparse": sparse})
                    while isinstance(e, ast.IfExp) and ev.test(e.test) is not None:
                        e = e.body if ev.test(e.test) else e.orelse
                    src = e
                    if isinstance(e, ast.Name):
                        # last assignment chain to the name under these constants: accept eye(n)[.tocsc()] origin with no slicing
                        asg = [s for s in walk_no_nested(m.node) if isinstance(s, ast.Assign) and norm(s.targets[0]) == e.id]
                        cands = []
                        for s in asg:
                            g = P.parent(s)
                            if isinstance(g, ast.If):
                                tv = ev.test(g.test)
                                if tv is not None and ((tv and s not in g.body) or (not tv and s in g.body)):
                                    continue
                            cands.append(s)
                        src = cands[-1].value if cands else e
                    while isinstance(src, ast.IfExp) and ev.test(src.test) is not None:   # a container selected by a conditional expression
                        src = src.body if ev.test(src.test) else src.orelse
                    t = norm(src)
                    want = ("spsparse.eye(n).tocsc()", "scipy.sparse.eye(n).tocsc()") if sparse else ("numpy.eye(n)",)
                    ok = t in want and v == ("mat", N, N)
                    ctx.check(ok, "C11.R3", f"{cq.split('.')[-1]} full coding is the identity [sparse={sparse}]", m.module.line(st),
                              ctx.construct(m, text=f"full sparse={sparse}"), f"with reduced_rank=False the method returns `{t}` (shape {v})")
    c03.r5(ctx, rule="C11.R3")


def r4(ctx):
    P = ctx.project
    c03.r5(ctx, rule="C11.R4")
    reg = registry(P)
    B = P.cls(f"{CONTRASTS}.Contrasts")
    base_fmt = norm(B.assigns.get("FACTOR_FORMAT_REDUCED", ast.Constant(None)))
    for key, cq in sorted(reg.items()):
        if key in ("custom", "poly"):
            continue
        ctx.look()
        fmt = None
        for c in P.mro(cq):
            if "FACTOR_FORMAT_REDUCED" in c.assigns and c.qualname != B.qualname:
                fmt = c.assigns["FACTOR_FORMAT_REDUCED"]
                break
        ok = fmt is not None and isinstance(fmt, ast.Constant) and "{name}" in fmt.value and "{field}" in fmt.value and norm(fmt) != base_fmt
        ctx.check(ok, "C11.R4", f"{cq.split('.')[-1]} names reduced columns with its own marker", P.cls(cq).where, ctx.construct(cq, text="FACTOR_FORMAT_REDUCED"),
                  f"FACTOR_FORMAT_REDUCED is `{norm(fmt) if fmt is not None else None}`")
    gf = B.methods["get_factor_format"]
    r = returns_of(gf.node)
    try:
        tc = sym.truth_cases(sym.outcomes(gf.node), ["reduced_rank"], kinds=("return",))
    except sym.Unmodelled:
        tc = {}
    ok = tc.get((True,)) == [("return", "self.FACTOR_FORMAT_REDUCED")] and tc.get((False,)) == [("return", "self.FACTOR_FORMAT")]
    ctx.check(ok, "C11.R4", "the reduced format is used exactly for reduced codings", gf.where, ctx.construct(gf, text="factor format"), f"returns `{norm(r[0].value) if r else None}`")


def r5(ctx):
    P = ctx.project
    reg = registry(P)
    B = P.cls(f"{CONTRASTS}.Contrasts")
    abstract = [n for n, m in B.methods.items() if any("abstractmethod" in d for d in m.decorators())]
    ctx.floor("C11.R5", len(abstract), 3, "abstract contrast methods")
    for key, cq in sorted(reg.items()):
        ctx.look()
        have = set()
        for c in P.mro(cq):
            if c.qualname != B.qualname:
                have |= set(c.methods)
        missing = [a for a in abstract if a not in have]
        ctx.check(not missing, "C11.R5", f"registry entry `{key}` implements every abstract method", P.cls(cq).where, ctx.construct(cq, text="abstract methods"),
                  f"not implemented: {missing}")
    cm = B.methods["_get_coefficient_matrix"]
    try:
        co = sym.outcomes(cm.node)
    except sym.Unmodelled as e:
        raise AnalysisError(f"C11.R5: _get_coefficient_matrix cannot be summarised: {e}")
    CMX = "self.get_coding_matrix(levels, reduced_rank=reduced_rank, sparse=sparse)"
    want = {(True, False): [f"numpy.linalg.inv(numpy.hstack([numpy.ones((len(levels), 1)), {CMX}]))", f"numpy.linalg.inv(numpy.hstack((numpy.ones((len(levels), 1)), {CMX})))"],
            (True, True): [f"scipy.sparse.linalg.inv(spsparse.hstack([numpy.ones((len(levels), 1)), {CMX}]).tocsc())",
                           f"scipy.sparse.linalg.inv(spsparse.hstack((numpy.ones((len(levels), 1)), {CMX})).tocsc())"],
            (False, False): [f"numpy.linalg.inv({CMX})"], (False, True): [f"scipy.sparse.linalg.inv({CMX}.tocsc())"]}
    got = {}
    ok = True
    for (red, sp), pats in want.items():
        res = sym.eval_under(co, {"reduced_rank": red, "sparse": sp}, kinds=("return", "fall"))
        got[(red, sp)] = [norm(v)[:110] if v is not None else None for _k, v, _e in res]
        alts = pats + [x.replace("reduced_rank=reduced_rank", f"reduced_rank={red}").replace("sparse=sparse", f"sparse={sp}") for x in pats]
        ok = ok and len(res) == 1 and res[0][1] is not None and sym.pm_any(alts, res[0][1]) is not None
    ctx.check(ok, "C11.R5", "the coefficient matrix inverts [1 | coding] when reduced and the coding itself when full", cm.where, ctx.construct(cm, text="coefficient matrix"),
              f"_get_coefficient_matrix changed shape: (reduced, sparse) -> {got}")
    ap = B.methods["_apply"]
    try:
        ao = sym.outcomes(ap.node)
    except sym.Unmodelled as e:
        raise AnalysisError(f"C11.R5: Contrasts._apply cannot be summarised: {e}")
    CM2 = "self.get_coding_matrix(levels, reduced_rank=reduced_rank, sparse=sparse)"
    ok, got = True, {}
    for sp, lhs in ((True, "dummies"), (False, "dummies.values")):
        res = sym.eval_under(ao, {"sparse": sp}, kinds=("return", "fall"))
        got[sp] = [norm(v)[:110] if v is not None else None for _k, v, _e in res]
        ok = ok and len(res) == 1 and res[0][1] is not None and sym.pm_any([f"{lhs} @ {c_}" for c0 in (CM2, CM2.replace("reduced_rank=reduced_rank", "reduced_rank")) for c_ in (c0, c0.replace("sparse=sparse", "sparse=" + str(sp)))], res[0][1]) is not None
    ctx.check(ok, "C11.R5", "encoding = indicator matrix times coding matrix", ap.where, ctx.construct(ap, text="apply"), f"_apply returns (by sparse) {got}")
    app = B.methods["apply"]
    try:
        po = [o for o in sym.outcomes(app.node) if o.kind == "return" and o.value is not None]
    except sym.Unmodelled as e:
        raise AnalysisError(f"C11.R5: Contrasts.apply cannot be summarised: {e}")
    main = [o for o in po if isinstance(o.value, ast.Call) and kwarg(o.value, "column_names") is not None and norm(kwarg(o.value, "column_names")) != "()"]
    ok = bool(main)
    bad = ""
    for o in main:
        cn = kwarg(o.value, "column_names")
        enc = o.value.args[0] if o.value.args else kwarg(o.value, "values")
        calls = sym.find("self._apply(dummies, levels=levels, reduced_rank=reduced_rank, sparse=ANY_s)", enc) if enc is not None else []
        sp_ok = bool(calls) and all(b["ANY_s"] == "output == 'sparse'" or re.fullmatch(r"'(\w+)' == 'sparse'", b["ANY_s"]) for _n, b in calls)
        if not (sym.pm("tuple(self.get_coding_column_names(levels, reduced_rank=reduced_rank))", cn) is not None and len(calls) == 1 and sp_ok):
            ok = False
            bad = f"column_names=`{norm(cn)[:80]}`, encoding `{norm(enc)[:120] if enc is not None else None}`"
    ctx.check(ok, "C11.R5", "names and encoding are produced for the same levels and rank mode", app.where, ctx.construct(app, text="apply names"),
              f"Contrasts.apply must derive names and encoding from the same (levels, reduced_rank): {bad or 'no encoding path found'}")



def r6(ctx):
    """dense and sparse forms agree: the `sparse` flag only selects the container — the sequence of value-affecting statements
    (item stores, augmented assignments) executed by _get_coding_matrix is the same for sparse=False and sparse=True."""
    P = ctx.project
    reg = registry(P)
    n = 0
    for key, cq in sorted(reg.items()):
        if key == "custom":
            continue
        m = P.method(cq, "_get_coding_matrix")
        TRACES.clear()
        try:
            eval_method(P, m, cq, True, False)
            eval_method(P, m, cq, True, True)
        except Unknown as u:
            ctx.fail("C11.R6", f"{cq.split('.')[-1]}: dense/sparse traces", m.where, ctx.construct(m, text="dense=sparse"), f"unmodelled {u}")
            continue
        by_opts: Dict[tuple, Dict[bool, List[str]]] = {}
        for (q, red, sp, opts), tr in TRACES.items():
            by_opts.setdefault(opts, {})[sp] = tr
        for opts, d in sorted(by_opts.items()):
            if True in d and False in d:
                n += 1
                ctx.look()
                ctx.check(d[True] == d[False], "C11.R6", f"{cq.split('.')[-1]}: the same value-affecting statements run for dense and sparse {dict(opts)}", m.where,
                          ctx.construct(m, text=f"dense=sparse {dict(opts)}"),
                          f"dense executes {d[False]} but sparse executes {d[True]}: the two forms of the coding matrix differ (e.g. a sign flip or scaling applied after "
                          f"the sparse result was already returned)")
    ctx.floor("C11.R6", n, 8, "dense/sparse trace comparisons")


def linform(e: ast.AST) -> Optional[Dict[str, int]]:
    """Linear form over integer symbols: {'i': 1, 'n': -1, '': 2} for i - n + 2; None if not linear."""
    e = strip_casts(e)
    if isinstance(e, ast.Constant) and isinstance(e.value, (int, float)) and not isinstance(e.value, bool):
        return {"": e.value}
    if isinstance(e, ast.Name):
        return {e.id: 1}
    if isinstance(e, ast.Call) and dotted(e.func) == "len" and e.args and norm(e.args[0]) == "levels":
        return {"n": 1}
    if isinstance(e, ast.UnaryOp) and isinstance(e.op, ast.USub):
        v = linform(e.operand)
        return None if v is None else {k: -c for k, c in v.items()}
    if isinstance(e, ast.BinOp) and isinstance(e.op, (ast.Add, ast.Sub)):
        l, r = linform(e.left), linform(e.right)
        if l is None or r is None:
            return None
        out = dict(l)
        for k, c in r.items():
            out[k] = out.get(k, 0) + (c if isinstance(e.op, ast.Add) else -c)
        return {k: c for k, c in out.items() if c != 0}
    return None


def _lf(text: str) -> Dict[str, int]:
    return linform(ast.parse(text, mode="eval").body)


def r7(ctx):
    """The defining formulas of the Helmert / difference / sum codings, as linear forms in the loop index i and the level count n
    (hand-verified against the textbook / R definitions for n = 2..5 at design time; any other formula re-opens the obligation)."""
    P = ctx.project
    H = P.method(f"{CONTRASTS}.HelmertContrasts", "_get_coding_matrix")
    ctx.look(6)
    from ..util import atom_mapper, reach_condition, truth_table
    is_rev = lambda c: norm(c).replace("not ", "").strip("()") == "self.reverse"

    def by_direction(st, expr):
        """{'reverse': e1, 'forward': e2} — the value of ``expr`` (part of statement ``st``) per direction, whether the
        direction is tested around the statement (inside or outside the loop) or by a conditional expression within it."""
        if isinstance(expr, ast.IfExp) and is_rev(expr.test):
            pos = not (isinstance(expr.test, ast.UnaryOp) and isinstance(expr.test.op, ast.Not))
            return {"reverse": expr.body if pos else expr.orelse, "forward": expr.orelse if pos else expr.body}
        rc = reach_condition(P, st, keep=is_rev, through_loops=True)
        tt = truth_table(rc, atom_mapper({"self.reverse": 0}), 1) if rc is not None else None
        return {{(False, True): "reverse", (True, False): "forward"}.get(tt): expr}

    lf_key = lambda x: linform(x) and tuple(sorted(linform(x).items()))
    stores, fills, scal = {}, {}, {}
    dup = False
    for st in ast.walk(H.node):
        if isinstance(st, ast.Assign) and isinstance(st.targets[0], ast.Subscript) and norm(st.targets[0].value) == "contr":
            sl = st.targets[0].slice
            if isinstance(sl, ast.Tuple):
                for d, v in by_direction(st, st.value).items():
                    dup = dup or d in stores
                    stores[d] = (tuple(lf_key(x) for x in sl.elts), linform(v))
            else:
                for d, ix in by_direction(st, sl).items():
                    dup = dup or d in fills
                    fills[d] = (norm(ix), norm(st.value))
        if isinstance(st, ast.AugAssign) and isinstance(st.op, ast.Div):
            for d, v in by_direction(st, st.value).items():
                dup = dup or d in scal
                scal[d] = (norm(st.target), linform(v))
    want = {"reverse": ((tuple(sorted(_lf("i + 1").items())), tuple(sorted(_lf("i").items()))), _lf("i + 1")),
            "forward": ((tuple(sorted(_lf("i").items())), tuple(sorted(_lf("i").items()))), _lf("n - i - 1"))}
    ctx.check(stores == want and not dup, "C11.R7", "Helmert: reverse puts i+1 at (i+1, i); forward puts n−i−1 at (i, i)", H.where, ctx.construct(H, text="helmert entries"),
              f"diagonal entries are {stores}; expected {want}")
    ok = fills == {"reverse": ("numpy.triu_indices(n - 1)", "-1"), "forward": ("numpy.tril_indices(n, k=-1)", "-1")} and not dup
    ctx.check(ok, "C11.R7", "Helmert: −1 above the diagonal block (reverse) / below the diagonal (forward)", H.where, ctx.construct(H, text="helmert fill"),
              f"fill statements are `{fills}`")
    okd = scal == {"reverse": ("contr[:, i]", _lf("i + 2")), "forward": ("contr[:, i]", _lf("n - i"))} and not dup
    ctx.check(okd, "C11.R7", "Helmert scaling: column i is divided by i+2 (reverse) / n−i (forward)", H.where, ctx.construct(H, text="helmert scaling"),
              f"scaling is `{scal}`: the forward scaled coding would no longer be 'level minus mean of later levels'")
    D = P.method(f"{CONTRASTS}.DiffContrasts", "_get_coding_matrix")
    t = norm(D.node)
    ok = "contr = numpy.repeat([numpy.arange(1, n)], n, axis=0) / n" in t and "contr[numpy.triu_indices(n, m=n - 1)] -= 1" in t and "if not self.backward: contr *= -1" in t.replace("\n", " ")
    ctx.check(ok, "C11.R7", "difference coding: k/n with 1 subtracted on and above the diagonal, negated for forward differences", D.where, ctx.construct(D, text="diff entries"),
              "DiffContrasts formula changed")
    S = P.method(f"{CONTRASTS}.SumContrasts", "_get_coding_matrix")
    ok = "contr[-1, :] = -1" in norm(S.node)
    ctx.check(ok, "C11.R7", "sum coding: identity with a last row of −1", S.where, ctx.construct(S, text="sum entries"), "SumContrasts formula changed")
    T = P.cls(f"{CONTRASTS}.TreatmentContrasts")
    fb = T.methods["_find_base_index"]
    ok = any(isinstance(x, ast.If) and norm(x.test) == "self.base is UNSET" for x in fb.node.body)
    ctx.check(ok, "C11.R7", "an explicit reference level is recognised by identity with UNSET (0, False and '' are legitimate levels)", fb.where,
              ctx.construct(fb, text="base sentinel"), "the base must be tested with `is UNSET`, not by truthiness")



def r8(ctx, _shared=True):
    """ContrastsState forwards reduced_rank / sparse to the contrasts object; the C() encoder and the encoding cache treat a contrast-coded
    factor correctly (= C03.R6 cache key, C06.R2/R3 positional row removal in the encoder closures)."""
    P = ctx.project
    CS = P.cls(f"{CONTRASTS}.ContrastsState")
    for name in ("get_coding_matrix", "get_coefficient_matrix"):
        m = CS.methods[name]
        r = returns_of(m.node)
        c = r[0].value if r else None
        ctx.look()
        ok = isinstance(c, ast.Call) and norm(c.func) == f"self.contrasts.{name}" and [norm(a) for a in c.args] == ["self.levels"] \
            and {k.arg: norm(k.value) for k in c.keywords} == {"reduced_rank": "reduced_rank", "sparse": "sparse"}
        ctx.check(ok, "C11.R8", f"ContrastsState.{name} forwards levels, reduced_rank and sparse", m.where, ctx.construct(m, text="forward"),
                  f"returns `{norm(c) if c is not None else None}`: a dropped keyword silently returns the matrix for the default rank mode")
    from .shared import relabel
    from . import c06
    if _shared:
        relabel(ctx, "C11.R8", c03.r6, c06.r3)


def _r8_parts():
    from .shared import relabel
    from . import c06
    from .shared import relabel_parts
    return [lambda c: r8(c, _shared=False)] + relabel_parts("C11.R8", c03.r6, c06.r3)


r8.parts = _r8_parts


def f1(ctx):
    """generic same-name parameter forwarding over this property's modules (see shared.generic_forwarding)."""
    from . import shared as _sh
    _sh.generic_forwarding(ctx, "C11.F1", _sh.PROPERTY_MODULES["C11"])


RULES = [("C11.R1", r1), ("C11.R2", r2), ("C11.R3", r3), ("C11.R4", r4), ("C11.R5", r5), ("C11.R6", r6), ("C11.R7", r7), ("C11.R8", r8), ("C11.F1", f1)]
