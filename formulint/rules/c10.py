"""C10 — model-spec metadata indexes the generated columns truthfully."""
from __future__ import annotations

import ast
import re
from typing import List

from ..core import AnalysisError, FunctionInfo, Project, dotted, is_const, kwarg, norm, param_names, walk_no_nested
from .. import sym
from ..util import assignments, returns_of, stmt_text

MS = "formulaic.model_spec.ModelSpec"

EXPLANATION = (
    "Static rules: (R1) term_indices is an accumulate pattern over the structure rows (end = start + number of the row's "
    "columns; indices range(start, end); start = end), column_names concatenates the same rows' columns in the same order, "
    "column_indices enumerates them, term_slices is [first, last+1) or the empty slice; (R2) cross-type EQHASH: for every "
    "class whose __eq__ accepts str, hash(obj) == hash(s) must hold for every s it equals — a normalisation applied to the "
    "string operand that a plain str's hash cannot mirror is reported; (R3) variable_indices is the sorted union of "
    "term_indices over variable_terms, variable_terms inverts term_variables, term_variables reads the structure rows' scoped "
    "terms; (R4) subset selects structure rows by Term equality, emits them in the order of the restricting formula and "
    "rejects terms not present. That the names equal the labels of the produced matrix is covered structurally by C02/C04."
)
ASSUMPTIONS = ["dict lookup requires hash equality before __eq__ is consulted"]


def _prop(P: Project, name: str) -> FunctionInfo:
    return P.method(MS, name, inherited=False)


def _skel(ctx, rule, fi, what, key, alternatives):
    from ..expect import contains_any
    ctx.look()
    ok, why = contains_any(ctx.project, fi, alternatives if isinstance(alternatives, (list, tuple)) else [alternatives])
    ctx.check(ok, rule, what, fi.where, ctx.construct(fi, text=key), why)
    return ok


def r1(ctx):
    P = ctx.project
    ROWS = ("row[2]", "row.columns")
    TERMS = ("row[0]", "row.term")
    _skel(ctx, "C10.R1", _prop(P, "term_indices"),
          "term_indices: contiguous, disjoint ranges in term order (start=0; end=start+len(columns); range(start,end); start=end)", "accumulate",
          [f"""
        def term_indices(self):
            slices = {{}}
            start = 0
            for row in self.__structure:
                end = start + len({c})
                slices[{t}] = list(range(start, end))
                start = end
            return slices
    """ for c in ROWS for t in TERMS])
    _skel(ctx, "C10.R1", _prop(P, "column_names"), "column_names concatenates the same rows' columns in the same order", "column_names",
          [f"def column_names(self):\n    return tuple(feature for row in self.__structure for feature in {c})" for c in ROWS] +
          [f"def column_names(self):\n    return tuple(itertools.chain.from_iterable({c} for row in self.__structure))" for c in ROWS] +
          [f"def column_names(self):\n    return tuple(itertools.chain(*({c} for row in self.__structure)))" for c in ROWS])
    _skel(ctx, "C10.R1", _prop(P, "column_indices"), "column_indices enumerates column_names", "column_indices",
          ["def column_indices(self):\n    return {name: i for i, name in enumerate(self.column_names)}",
           "def column_indices(self):\n    return dict(zip(self.column_names, range(len(self.column_names))))"])
    _skel(ctx, "C10.R1", _prop(P, "term_slices"), "term_slices is [first, last+1) of term_indices, or the empty slice", "term_slices",
          "def term_slices(self):\n    return {k: slice(v[0], v[-1] + 1) if v else slice(0, 0) for k, v in self.term_indices.items()}")
    gci = P.method(MS, "get_column_indices", inherited=False)
    cp = param_names(gci.node)[1]
    try:
        outs = sym.outcomes(gci.node)
    except sym.Unmodelled:
        outs = []
    one = sym.eval_under(outs, {f"isinstance({cp}, str)": True}, kinds=("return",))
    many = sym.eval_under(outs, {f"isinstance({cp}, str)": False}, kinds=("return",))
    ok = len(one) == 1 and len(many) == 1 and sym.pm(f"[self.column_indices[VAR_c] for VAR_c in [{cp}]]", one[0][1]) is not None \
        and sym.pm(f"[self.column_indices[VAR_c] for VAR_c in {cp}]", many[0][1]) is not None
    ctx.check(ok, "C10.R1", "get_column_indices looks each name up in column_indices", gci.where,
              ctx.construct(gci, text="lookup"), f"returns {[norm(v)[:90] for _k, v, _e in one + many]}")
    gs = P.method(MS, "get_slice", inherited=False)
    ci = param_names(gs.node)[1]
    try:
        go = sym.outcomes(gs.node)
    except sym.Unmodelled as e:
        raise AnalysisError(f"C10.R1: get_slice cannot be summarised: {e}")
    F = {f"isinstance({ci}, slice)": False}
    as_int = sym.eval_under(go, dict(F, **{f"isinstance({ci}, int)": True}), kinds=("return",))
    NI = dict(F, **{f"isinstance({ci}, int)": False})
    as_term = sym.eval_under(go, dict(NI, **{f"isinstance({ci}, Term)": True, f"{ci} in self.term_slices": True}), kinds=("return", "raise"))
    term_missing = sym.eval_under(go, dict(NI, **{f"isinstance({ci}, Term)": True, f"{ci} in self.term_slices": False}), kinds=("return", "raise"))
    as_tname = sym.eval_under(go, dict(NI, **{f"isinstance({ci}, Term)": False, f"{ci} in self.term_slices": True}), kinds=("return", "raise"))
    as_col = sym.eval_under(go, dict(NI, **{f"isinstance({ci}, Term)": False, f"{ci} in self.term_slices": False, f"{ci} in self.column_indices": True}), kinds=("return", "raise"))
    none = sym.eval_under(go, dict(NI, **{f"isinstance({ci}, Term)": False, f"{ci} in self.term_slices": False, f"{ci} in self.column_indices": False}), kinds=("return", "raise"))

    def only(res, pat):
        return len(res) == 1 and res[0][0] == "return" and sym.pm(pat, res[0][1]) is not None

    ok = only(as_int, f"slice({ci}, {ci} + 1)") and only(as_term, f"self.term_slices[{ci}]") and only(as_tname, f"self.term_slices[{ci}]") \
        and only(as_col, f"slice(self.column_indices[{ci}], self.column_indices[{ci}] + 1)") \
        and bool(term_missing) and all(k == "raise" for k, _v, _e in term_missing) and bool(none) and all(k == "raise" for k, _v, _e in none)
    ctx.check(ok, "C10.R1", "get_slice: int → [i, i+1); term → its slice; column name → [idx, idx+1)", gs.where, ctx.construct(gs, text="get_slice"),
              f"get_slice dispatch: int {[norm(v) for _k, v, _e in as_int]}, term {[norm(v) for _k, v, _e in as_term]}, term name {[norm(v) for _k, v, _e in as_tname]}, "
              f"column {[norm(v)[:80] for _k, v, _e in as_col]}")
    gti = P.method(MS, "get_term_indices", inherited=False)
    c = None
    try:
        rr = [o for o in sym.outcomes(gti.node) if o.kind == "return"]
        c = rr[0].value if len(rr) == 1 else None
    except sym.Unmodelled:
        pass
    tp = param_names(gti.node)[1]
    hc = _restrict_call(P, f"{tp}, **formula_kwargs")
    ok = sym.pm_any([f"[VAR_i for VAR_t in [*{hc}] for VAR_i in self.term_indices[VAR_t]]",
                     f"[VAR_i for VAR_t in list({hc}) for VAR_i in self.term_indices[VAR_t]]",
                     f"[VAR_i for VAR_t in {hc} for VAR_i in self.term_indices[VAR_t]]"], c) is not None
    ctx.check(ok, "C10.R1", "get_term_indices concatenates term_indices in the order of the requested terms", gti.where, ctx.construct(gti, text="get_term_indices"),
              f"returns `{norm(c)[:140] if c is not None else None}`")


def _restrict_helper(P):
    """The private ModelSpec method that turns a terms spec into a formula restricted to the spec's own terms (today
    `__get_restricted_formula`): found by role — called on self from `subset`, and itself calling `SimpleFormula.from_spec`."""
    sb = P.method(MS, "subset", inherited=False)
    called = [c.func.attr for c in ast.walk(sb.node) if isinstance(c, ast.Call) and isinstance(c.func, ast.Attribute) and norm(c.func.value) == "self"]
    # … or a module-level function that is handed `self`
    called_mod = [c.func.id for c in ast.walk(sb.node) if isinstance(c, ast.Call) and isinstance(c.func, ast.Name) and c.args and norm(c.args[0]) == "self"]
    out = []
    for q, f in P.functions.items():
        is_method = q.startswith(MS + ".") and q.count(".") == MS.count(".") + 1 and f.node.name in called
        is_modfn = q == f"{sb.module.name}.{f.node.name}" and f.node.name in called_mod if not isinstance(f.node, ast.Lambda) else False
        if (is_method or is_modfn) and f not in out and \
                any(isinstance(c, ast.Call) and (dotted(c.func) or "").endswith("from_spec") for c in ast.walk(f.node)):
            out.append(f)
    if len(out) != 1:
        raise AnalysisError(f"C10: the restricting helper of ModelSpec.subset was not found (candidates: {[f.qualname for f in out]})")
    return out[0]


def _restrict_call(P, args: str) -> str:
    """The restricting helper applied to `self`, as the call is spelt: a method call or a module-level function handed self."""
    h = _restrict_helper(P)
    return f"self.{h.node.name}({args})" if h.cls is not None else f"{h.node.name}(self, {args})"


def r2(ctx, rule="C10.R2"):
    P = ctx.project
    n = 0
    for C in P.classes.values():
        eq, hs = C.methods.get("__eq__"), C.methods.get("__hash__")
        if eq is None:
            continue
        ot = (param_names(eq.node) + ["other", "other"])[1]
        if not any(isinstance(c, ast.Call) and norm(c) == f"isinstance({ot}, str)" for c in ast.walk(eq.node)):
            continue
        n += 1
        ctx.look()
        short = C.qualname.split(".")[-1]
        inst = f"{short}: every str it equals hashes like it (lookup by printed form)"
        if hs is None:
            ctx.fail(rule, inst, eq.where, ctx.construct(C.qualname, text="eq(str) without hash"), "__eq__ accepts str but no __hash__ is defined")
            continue
        try:
            eo = sym.outcomes(eq.node)
        except sym.Unmodelled:
            eo = []
        facts = {f"isinstance({ot}, str)": True}
        for c in ast.walk(eq.node):  # the same-type branch, if any, is not the one taken for a str
            if isinstance(c, ast.Call) and dotted(c.func) == "isinstance" and len(c.args) == 2 and norm(c.args[0]) == ot and norm(c.args[1]) != "str":
                facts[norm(c)] = False
        sr = sym.eval_under(eo, facts, kinds=("return",))
        cmp_ = sr[0][1] if len(sr) == 1 else None
        simple = None
        if isinstance(cmp_, ast.Compare) and len(cmp_.ops) == 1 and isinstance(cmp_.ops[0], ast.Eq):
            l, rr = cmp_.left, cmp_.comparators[0]
            if isinstance(rr, ast.Name) and rr.id == ot and isinstance(l, ast.Attribute) and dotted(l.value) == "self":
                simple = l.attr
            elif isinstance(l, ast.Name) and l.id == ot and isinstance(rr, ast.Attribute) and dotted(rr.value) == "self":
                simple = rr.attr
        hr = returns_of(hs.node)
        ht = norm(hr[0].value) if hr else ""
        if simple is not None:
            ok = ht in (f"self.{simple}.__hash__()", f"hash(self.{simple})")
            ctx.check(ok, rule, inst, hs.where, ctx.construct(C.qualname, text="cross-type eq/hash"),
                      f"{short} == str compares `self.{simple}` with the string, but __hash__ returns `{ht}`: an equal string hashes differently")
        else:
            normal = [c for c in ast.walk(cmp_) if isinstance(c, ast.Call) and dotted(c.func) in ("sorted", "set", "frozenset")
                      and any(isinstance(x, ast.Name) and x.id == ot for x in ast.walk(c))] if cmp_ is not None else []
            rp = C.methods.get("__repr__")
            ctx.fail(rule, inst, eq.where, ctx.construct(C.qualname, text="cross-type eq/hash"),
                     f"{short}.__eq__(str) normalises the string operand (`{norm(normal[0])[:70] if normal else norm(cmp_)[:70] if cmp_ is not None else '?'}`) "
                     f"before comparing, so it equals strings that are not in that normal form; a plain str's hash cannot mirror this and "
                     f"{short}.__repr__ prints the original order — dict lookups by printed form (e.g. term_indices['B:A']) miss")
    ctx.floor(rule, n, 3, "classes whose __eq__ accepts str")


def r3(ctx):
    P = ctx.project
    _skel(ctx, "C10.R3", _prop(P, "variable_indices"), "variable_indices is the sorted union of term_indices over the variable's terms", "variable_indices",
          ["""
        def variable_indices(self):
            return {variable: sorted({index for term in terms for index in self.term_indices[term]}) for variable, terms in self.variable_terms.items()}
    """, """
        def variable_indices(self):
            variable_indices = {}
            for variable, terms in self.variable_terms.items():
                indices = set()
                for term in terms:
                    indices.update(self.term_indices[term])
                variable_indices[variable] = sorted(indices)
            return variable_indices
    """])
    _skel(ctx, "C10.R3", _prop(P, "variable_terms"), "variable_terms inverts term_variables", "variable_terms", [f"""
        def variable_terms(self):
            for term, variables in self.term_variables.items():
                for variable in variables:
                    {add}
            ...
    """ for add in ("variable_terms[variable].add(term)", "variable_terms.setdefault(variable, set()).add(term)")])
    _skel(ctx, "C10.R3", _prop(P, "term_variables"), "term_variables reads the scoped terms of the same structure row", "term_variables",
          [f"""
        def term_variables(self):
            term_variables = {{}}
            for row in self.__structure:
                term_variables[{t}] = Variable.union(*(term.variables for term in {s_}))
            return term_variables
    """ for t in ("row[0]", "row.term") for s_ in ("row[1]", "row.scoped_terms")])
    from .c17 import alias_round_trip, variable_traversal
    alias_round_trip(ctx, "C10.R3")
    variable_traversal(ctx, "C10.R3")
    rv = P.method(MS, "required_variables", inherited=False)
    try:
        ro = sym.outcomes(rv.node)
    except sym.Unmodelled:
        ro = []
    mat = sym.eval_under(ro, {"self.structure is None": False}, kinds=("return",))
    ok = len(mat) == 1 and sym.pm_any(["self.variables_by_source.get('data', set())"], mat[0][1]) is not None
    ctx.check(ok, "C10.R3", "after materialisation the required variables are those sourced from the data layer", rv.where, ctx.construct(rv, text="required_variables"),
              f"with a recorded structure required_variables returns {[norm(v) for _k, v, _e in mat]}")


def r4(ctx):
    P = ctx.project
    sb = P.method(MS, "subset", inherited=False)
    tp = param_names(sb.node)[1]
    rf = [_restrict_helper(P)]   # today: __get_restricted_formula
    hn = rf[0].node.name
    _skel(ctx, "C10.R4", sb, "subset selects the parent's structure rows by term and emits them in the restricting formula's order", "subset", f"""
        def subset(self, {tp}, **formula_kwargs):
            formula = {_restrict_call(P, tp + ", **formula_kwargs")}
            terms = list(formula)
            terms_set = set(terms)
            term_structure = {{s.term: s for s in self.__structure if s.term in terms_set}}
            return self.update(formula=formula, structure=[term_structure[term] for term in terms])
    """)
    p0, sp = param_names(rf[0].node)[:2]
    _skel(ctx, "C10.R4", rf[0], "a restriction naming terms the parent does not have is rejected", "restrict", f"""
        def {hn}({p0}, {sp}, **formula_kwargs):
            formula = SimpleFormula.from_spec({sp}, **formula_kwargs)
            missing_terms = set(formula).difference({p0}.terms)
            if missing_terms:
                raise ValueError(f"{{missing_terms}}")
            return formula
    """)



def r5(ctx):
    """a subset (or the spec itself) regenerates the parent's columns: recorded structure is replayed faithfully (= C04.R3) and the
    caller's context / drop set reach the materializer on every path (= C05.R3)."""
    from .shared import relabel, forward_rule
    from . import c04
    from .c05 import forward_data_context
    relabel(ctx, "C10.R5", c04.r3, lambda c: forward_data_context(c, "C10.R5", "context"), lambda c: forward_data_context(c, "C10.R5", "data"))


def _r5_parts():
    from .shared import relabel, forward_rule
    from . import c04
    from .c05 import forward_data_context
    from .shared import relabel_parts
    return relabel_parts("C10.R5", c04.r3, lambda c: forward_data_context(c, "C10.R5", "context"), lambda c: forward_data_context(c, "C10.R5", "data"))


r5.parts = _r5_parts


def f1(ctx):
    """generic same-name parameter forwarding over this property's modules (see shared.generic_forwarding)."""
    from . import shared as _sh
    _sh.generic_forwarding(ctx, "C10.F1", _sh.PROPERTY_MODULES["C10"])


RULES = [("C10.R1", r1), ("C10.R2", r2), ("C10.R3", r3), ("C10.R4", r4), ("C10.R5", r5), ("C10.F1", f1)]
