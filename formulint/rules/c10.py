"""C10 — model-spec metadata indexes the generated columns truthfully."""
from __future__ import annotations

import ast
import re
from typing import List

from ..core import AnalysisError, FunctionInfo, Project, dotted, is_const, kwarg, norm, param_names, walk_no_nested
from ..util import assignments, returns_of, stmt_text

MS = "formulaic.model_spec.ModelSpec"

EXPLANATION = (
    "Static rules: (R1) term_indices is an accumulate pattern over the structure rows (end = start + number of the row's "
    "columns; indices range(start, end); start = end), column_names concatenates the same rows' columns in the same order, "
    "column_indices enumerates them, term_slices is [first, last+1) or the empty slice; (R2) cross-type EQHASH: for every "
    "class whose __eq__ accepts str, hash(obj) == hash(s) must hold for every s it equals — a normalisation applied to the "
    "string operand that a plain str's hash cannot mirror is reported; (R3) variable_indices is the sorted union of "
    "term_indices over variable_terms, variable_terms inverts term_variables, term_variables reads the structure rows' scoped "
    "terms; (R4) subset selects structure rows by Term equality, emits them in the order of the restricting formula and "
    "rejects terms not present. That the names equal the labels of the produced matrix is covered structurally by C02/C04."
)
ASSUMPTIONS = ["dict lookup requires hash equality before __eq__ is consulted"]


def _prop(P: Project, name: str) -> FunctionInfo:
    return P.method(MS, name, inherited=False)


def r1(ctx):
    P = ctx.project
    ti = _prop(P, "term_indices")
    fn = ti.node
    loops = [n for n in walk_no_nested(fn) if isinstance(n, ast.For)]
    ctx.look(4)
    if len(loops) != 1:
        raise AnalysisError("C10.R1: accumulate loop of term_indices not found")
    lp = loops[0]
    row = lp.target.id if isinstance(lp.target, ast.Name) else "?"
    body = [norm(s) for s in lp.body]
    init = [norm(v) for n, v, st in assignments(fn) if n == "start" and st not in lp.body and not any(st is x for x in ast.walk(lp))]
    ok_iter = norm(lp.iter) in ("self.__structure",)
    cols = rf"(?:{row}\[2\]|{row}\.columns)"
    ok_end = any(re.fullmatch(rf"end = start \+ len\({cols}\)", b) for b in body)
    ok_rng = any(re.fullmatch(rf"(\w+)\[(?:{row}\[0\]|{row}\.term)\] = list\(range\(start, end\)\)", b) for b in body)
    ok_adv = body and body[-1] == "start = end"
    ok_init = "0" in init
    ctx.check(ok_iter and ok_end and ok_rng and ok_adv and ok_init, "C10.R1",
              "term_indices: contiguous, disjoint ranges in term order (start=0; end=start+len(columns); range(start,end); start=end)", ti.where,
              ctx.construct(ti, text="accumulate"), f"loop over `{norm(lp.iter)}` with body {body}, start initialised to {init}")
    cn = _prop(P, "column_names")
    r = returns_of(cn.node)
    t = norm(r[0].value) if r else ""
    ok = re.fullmatch(r"tuple\(\((\w+) for (\w+) in self\.__structure for \1 in (?:\2\.columns|\2\[2\])\)\)", t) is not None
    ctx.check(ok, "C10.R1", "column_names concatenates the same rows' columns in the same order", cn.where, ctx.construct(cn, text="column_names"), f"returns `{t}`")
    ci = _prop(P, "column_indices")
    r = returns_of(ci.node)
    t = norm(r[0].value) if r else ""
    ok = re.fullmatch(r"\{(\w+): (\w+) for \(?\2, \1\)? in enumerate\(self\.column_names\)\}", t) is not None
    ctx.check(ok, "C10.R1", "column_indices enumerates column_names", ci.where, ctx.construct(ci, text="column_indices"), f"returns `{t}`")
    ts = _prop(P, "term_slices")
    r = returns_of(ts.node)
    t = norm(r[0].value) if r else ""
    ok = re.fullmatch(r"\{(\w+): slice\((\w+)\[0\], \2\[-1\] \+ 1\) if \2 else slice\(0, 0\) for \(?\1, \2\)? in self\.term_indices\.items\(\)\}", t) is not None
    ctx.check(ok, "C10.R1", "term_slices is [first, last+1) of term_indices, or the empty slice", ts.where, ctx.construct(ts, text="term_slices"), f"returns `{t}`")
    st = P.method(MS, "__structure", inherited=False) if "__structure" in P.cls(MS).methods else None
    gci = P.method(MS, "get_column_indices", inherited=False)
    t = norm(gci.node)
    ctx.check("return [self.column_indices[column] for column in columns]" in t, "C10.R1", "get_column_indices looks each name up in column_indices", gci.where,
              ctx.construct(gci, text="lookup"), "get_column_indices changed shape")
    gs = P.method(MS, "get_slice", inherited=False)
    t = norm(gs.node)
    ok = "return slice(columns_identifier, columns_identifier + 1)" in t and "return term_slices[columns_identifier]" in t and "return slice(idx, idx + 1)" in t \
        and t.index("term_slices[columns_identifier]") < t.index("column_indices[columns_identifier]")
    ctx.check(ok, "C10.R1", "get_slice: int → [i, i+1); term → its slice; column name → [idx, idx+1)", gs.where, ctx.construct(gs, text="get_slice"),
              "get_slice dispatch changed")
    gti = P.method(MS, "get_term_indices", inherited=False)
    ok = "return [idx for term in terms for idx in self.term_indices[term]]" in norm(gti.node)
    ctx.check(ok, "C10.R1", "get_term_indices concatenates term_indices in the order of the requested terms", gti.where, ctx.construct(gti, text="get_term_indices"),
              "get_term_indices changed shape")


def r2(ctx, rule="C10.R2"):
    P = ctx.project
    n = 0
    for C in P.classes.values():
        eq, hs = C.methods.get("__eq__"), C.methods.get("__hash__")
        if eq is None:
            continue
        branches = [b for b in ast.walk(eq.node) if isinstance(b, ast.If) and norm(b.test) == "isinstance(other, str)"]
        if not branches:
            continue
        n += 1
        ctx.look()
        short = C.qualname.split(".")[-1]
        inst = f"{short}: every str it equals hashes like it (lookup by printed form)"
        if hs is None:
            ctx.fail(rule, inst, eq.where, ctx.construct(C.qualname, text="eq(str) without hash"), "__eq__ accepts str but no __hash__ is defined")
            continue
        r = [s for s in branches[0].body if isinstance(s, ast.Return)]
        cmp_ = r[0].value if r else None
        simple = None
        if isinstance(cmp_, ast.Compare) and len(cmp_.ops) == 1 and isinstance(cmp_.ops[0], ast.Eq):
            l, rr = cmp_.left, cmp_.comparators[0]
            if isinstance(rr, ast.Name) and rr.id == "other" and isinstance(l, ast.Attribute) and dotted(l.value) == "self":
                simple = l.attr
            elif isinstance(l, ast.Name) and l.id == "other" and isinstance(rr, ast.Attribute) and dotted(rr.value) == "self":
                simple = rr.attr
        hr = returns_of(hs.node)
        ht = norm(hr[0].value) if hr else ""
        if simple is not None:
            ok = ht in (f"self.{simple}.__hash__()", f"hash(self.{simple})")
            ctx.check(ok, rule, inst, hs.where, ctx.construct(C.qualname, text="cross-type eq/hash"),
                      f"{short} == str compares `self.{simple}` with the string, but __hash__ returns `{ht}`: an equal string hashes differently")
        else:
            normal = [c for c in ast.walk(cmp_) if isinstance(c, ast.Call) and dotted(c.func) in ("sorted", "set", "frozenset")
                      and any(isinstance(x, ast.Name) and x.id == "other" for x in ast.walk(c))] if cmp_ is not None else []
            rp = C.methods.get("__repr__")
            ctx.fail(rule, inst, eq.where, ctx.construct(C.qualname, text="cross-type eq/hash"),
                     f"{short}.__eq__(str) normalises the string operand (`{norm(normal[0])[:70] if normal else norm(cmp_)[:70] if cmp_ is not None else '?'}`) "
                     f"before comparing, so it equals strings that are not in that normal form; a plain str's hash cannot mirror this and "
                     f"{short}.__repr__ prints the original order — dict lookups by printed form (e.g. term_indices['B:A']) miss")
    ctx.floor(rule, n, 3, "classes whose __eq__ accepts str")


def r3(ctx):
    P = ctx.project
    ctx.look(3)
    vi = _prop(P, "variable_indices")
    r = returns_of(vi.node)
    t = norm(r[0].value) if r else ""
    ok = re.fullmatch(r"\{(\w+): sorted\(\{(\w+) for (\w+) in (\w+) for \2 in self\.term_indices\[\3\]\}\) for \(?\1, \4\)? in self\.variable_terms\.items\(\)\}", t) is not None
    ctx.check(ok, "C10.R3", "variable_indices is the sorted union of term_indices over the variable's terms", vi.where, ctx.construct(vi, text="variable_indices"), f"returns `{t}`")
    vt = _prop(P, "variable_terms")
    t = norm(vt.node)
    ok = "for (term, variables) in self.term_variables.items():" in t.replace("for term, variables in", "for (term, variables) in") and "variable_terms[variable].add(term)" in t
    ctx.check(ok, "C10.R3", "variable_terms inverts term_variables", vt.where, ctx.construct(vt, text="variable_terms"), "inversion loop changed")
    tv = _prop(P, "term_variables")
    t = norm(tv.node)
    ok = "for row in self.__structure:" in t and "term_variables[row[0]] = Variable.union(*(term.variables for term in row[1]))" in t
    ctx.check(ok, "C10.R3", "term_variables reads the scoped terms of the same structure row", tv.where, ctx.construct(tv, text="term_variables"), "row pairing changed")
    from .c17 import alias_round_trip, variable_traversal
    alias_round_trip(ctx, "C10.R3")
    variable_traversal(ctx, "C10.R3")
    rv = P.method(MS, "required_variables", inherited=False)
    t = norm(rv.node)
    ok = "return self.variables_by_source.get('data', set())" in t and "if self.structure is None:" in t
    ctx.check(ok, "C10.R3", "after materialisation the required variables are those sourced from the data layer", rv.where, ctx.construct(rv, text="required_variables"),
              "required_variables changed shape")


def r4(ctx):
    P = ctx.project
    sb = P.method(MS, "subset", inherited=False)
    t = norm(sb.node)
    ctx.look(2)
    ok = "term_structure = {s.term: s for s in self.__structure if s.term in terms_set}" in t and \
        "return self.update(formula=formula, structure=[term_structure[term] for term in terms])" in t and "terms: list[Term] = list(formula)" in t
    ctx.check(ok, "C10.R4", "subset selects the parent's structure rows by term and emits them in the restricting formula's order", sb.where,
              ctx.construct(sb, text="subset"), "subset changed shape")
    rf = [f for q, f in P.functions.items() if q.startswith(MS + ".") and q.endswith("__get_restricted_formula")]
    if not rf:
        raise AnalysisError("C10.R4: __get_restricted_formula vanished")
    t = norm(rf[0].node)
    ok = "missing_terms: set[Term] = set(formula).difference(self.terms)" in t and "if missing_terms:" in t and "raise ValueError" in t
    ctx.check(ok, "C10.R4", "a restriction naming terms the parent does not have is rejected", rf[0].where, ctx.construct(rf[0], text="restrict"),
              "the missing-terms check changed")



def r5(ctx):
    """a subset (or the spec itself) regenerates the parent's columns: recorded structure is replayed faithfully (= C04.R3) and the
    caller's context / drop set reach the materializer on every path (= C05.R3)."""
    from .shared import relabel, forward_rule
    from . import c04
    from .c05 import forward_data_context
    relabel(ctx, "C10.R5", c04.r3, lambda c: forward_data_context(c, "C10.R5", "context"), lambda c: forward_data_context(c, "C10.R5", "data"))


def _r5_parts():
    from .shared import relabel, forward_rule
    from . import c04
    from .c05 import forward_data_context
    from .shared import relabel_parts
    return relabel_parts("C10.R5", c04.r3, lambda c: forward_data_context(c, "C10.R5", "context"), lambda c: forward_data_context(c, "C10.R5", "data"))


r5.parts = _r5_parts


def f1(ctx):
    """generic same-name parameter forwarding over this property's modules (see shared.generic_forwarding)."""
    from . import shared as _sh
    _sh.generic_forwarding(ctx, "C10.F1", _sh.PROPERTY_MODULES["C10"])


RULES = [("C10.R1", r1), ("C10.R2", r2), ("C10.R3", r3), ("C10.R4", r4), ("C10.R5", r5), ("C10.F1", f1)]
