"""C03 — rank reduction: structural necessary conditions of Patsy's algorithm."""
from __future__ import annotations

import ast
import itertools
import re
from typing import List, Optional

from ..cfg import CFG, ENTRY, EXIT
from ..core import AnalysisError, FunctionInfo, Project, dotted, is_const, kwarg, norm, param_names, walk_no_nested
from .. import sym
from ..util import assignments, count_negations, doc_order, header_walk, mentions, returns_of, stmt_text
from .shared import MAT

CONTRASTS = "formulaic.transforms.contrasts"

EXPLANATION = (
    "Necessary structural conditions of the rank-reduction algorithm, decided from the source: (R1) in _get_scoped_terms the "
    "already-spanned set is subtracted before simplification and updated with the un-simplified span after it on every "
    "full-rank iteration, and is created once outside the loop; (R2) a factor that spans the intercept contributes exactly "
    "{reduced factor, 1}, any other non-constant factor exactly {full factor}, and the span is the product over these with "
    "the 1s dropped; (R3) recombination merges only when the candidate has exactly one more factor, the difference is one "
    "factor and that factor is reduced, replacing it by its full version, in ascending factor-count order; (R4) ScopedFactor / "
    "ScopedTerm identity (factor + reduced flag; order-insensitive multiset of scoped factors, scale excluded) with hash "
    "consistent with equality; (R5) per contrast class, the reference level used for the coding matrix and the one dropped "
    "from the full encoding are the same level; (R6) the reference column is deleted only under spans_intercept and "
    "reduced_rank, from a copy of the cached encoding. Linear independence and span equality themselves are NOT decided."
)
ASSUMPTIONS = ["the correctness argument of Patsy's span/simplify algorithm (not re-proved here)"]


def r1(ctx):
    P = ctx.project
    f = P.func(f"{MAT}._get_scoped_terms")
    fn = f.node
    loops = [n for n in fn.body if isinstance(n, ast.For)]
    if len(loops) != 1:
        raise AnalysisError("C03.R1: term loop of _get_scoped_terms not found")
    lp = loops[0]
    inits = [st for st in fn.body if isinstance(st, (ast.Assign, ast.AnnAssign)) and norm(st.targets[0] if isinstance(st, ast.Assign) else st.target) == "spanned"]
    ctx.look()
    ctx.check(len(inits) == 1 and norm(inits[0].value) in ("set()", "OrderedSet()") and doc_order(fn)[id(inits[0])] < doc_order(fn)[id(lp)] and
              not any(n == "spanned" for n, _, _ in assignments(lp)), "C03.R1", "`spanned` is created once, empty, before the term loop", f.where,
              ctx.construct(f, text="spanned init"), "the set of already-spanned scoped terms must persist across terms and start empty")
    # one iteration with ensure_full_rank on, read off the path summaries: what is added to `spanned`, and what is yielded
    try:
        outs = sym.outcomes(fn)
    except sym.Unmodelled as e:
        raise AnalysisError(f"C03.R1: _get_scoped_terms cannot be summarised: {e}")
    sl = [l for l in sym.loops_of(outs) if l._sym_orig is lp]
    if not sl:
        raise AnalysisError("C03.R1: term loop of _get_scoped_terms not found in its summaries")
    its = [(k, effs, o) for k, effs, _env, o in sym.iteration_effects(outs, sl[0], {"ensure_full_rank": True}) if k == "yield" and any(pol and norm(c) == "ensure_full_rank" for c, pol in o.conds)]
    if len(its) != 1:
        raise AnalysisError("C03.R1: `if ensure_full_rank` branch not found")
    _k, effs, o = its[0]
    SPAN = "self._get_scoped_terms_spanned_by_evaled_factors(ANY_ef) - spanned"
    upd = [i for i, e in enumerate(effs) if isinstance(e, ast.Expr) and sym.pm("spanned.update(ANY_u)", e.value) is not None]
    frozen = {e.targets[0].id: e.value for e in effs if isinstance(e, ast.Assign) and len(e.targets) == 1 and isinstance(e.targets[0], ast.Name)}
    late = [e for i, e in enumerate(effs) if upd and i > upd[0] and isinstance(e, ast.Assign) and any(isinstance(n, ast.Name) and n.id == "spanned" for n in ast.walk(e.value))]

    def resolve(e):
        return sym.subst(e, frozen) if e is not None else None
    ux = resolve(effs[upd[0]].value.args[0]) if len(upd) == 1 and effs[upd[0]].value.args else None
    bu = sym.pm(SPAN, ux) if ux is not None else None
    y = o.value
    y_reads_late = bool(upd) and y is not None and any(isinstance(n, ast.Name) and n.id == "spanned" for n in ast.walk(y))
    y2 = resolve(y)
    by = sym.pm(f"({norm(lp.target)}, self._simplify_scoped_terms({SPAN}))", y2, dict(bu or {})) if y2 is not None else None
    ctx.look()
    ctx.check(by is not None or bu is not None, "C03.R1", "the term's span has the already-spanned terms subtracted", f.module.line(lp),
              ctx.construct(f, text="span minus spanned"),
              "expected `<span> = self._get_scoped_terms_spanned_by_evaled_factors(evaled_factors) - spanned` in the full-rank branch")
    ctx.check(by is not None and not y_reads_late and not late, "C03.R1", "simplification is applied to the reduced span", f.module.line(lp), ctx.construct(f, text="simplify(span)"),
              f"_simplify_scoped_terms must receive the term's span minus what was spanned before this term; the iteration yields `{norm(y2)[:160] if y2 is not None else None}`")
    ctx.check(len(upd) == 1 and bu is not None and not late, "C03.R1", "`spanned` is updated with the un-simplified span after simplification", f.module.line(lp),
              ctx.construct(f, text="spanned.update(span)"),
              "expected one `spanned.update(<span>)` per term, with the span computed before the update (updating with the simplified terms, or not at all, "
              "lets later terms re-span the same space)")
    # every term of the formula gets a row (possibly with no scoped terms): no iteration ends without a yield
    def ends_yielding(block) -> bool:
        if not block:
            return False
        last = block[-1]
        if isinstance(last, ast.Expr) and isinstance(last.value, ast.Yield):
            return True
        if isinstance(last, ast.Continue):
            return len(block) >= 2 and isinstance(block[-2], ast.Expr) and isinstance(block[-2].value, ast.Yield)
        if isinstance(last, ast.If):
            return ends_yielding(last.body) and ends_yielding(last.orelse)
        return False
    from ..sym import _own_breaks
    conts = []

    def own_continues(stmts):
        for s_ in stmts:
            if isinstance(s_, ast.Continue):
                conts.append(s_)
            elif isinstance(s_, (ast.For, ast.While, ast.FunctionDef)):
                continue
            else:
                for f_ in ("body", "orelse", "finalbody"):
                    own_continues(getattr(s_, f_, []) or [])
    own_continues(lp.body)
    silent = []
    for c_ in conts:
        blk = None
        par = P.parent(c_)
        for f_ in ("body", "orelse", "finalbody"):
            b_ = getattr(par, f_, None)
            if isinstance(b_, list) and any(x is c_ for x in b_):
                blk = b_
        i_ = [k for k, x in enumerate(blk) if x is c_][0] if blk else 0
        if not (blk and i_ >= 1 and isinstance(blk[i_ - 1], ast.Expr) and isinstance(blk[i_ - 1].value, ast.Yield)):
            silent.append(c_)
    ctx.check(ends_yielding(lp.body) and not silent and not _own_breaks(lp), "C03.R1", "every term of the formula yields a row, also one that adds nothing new", f.module.line(lp),
              ctx.construct(f, text="every term yields"),
              f"an iteration can end without yielding (`continue` at line(s) {[x.lineno for x in silent]}): a term that is already spanned by earlier terms then has no "
              f"entry in the spec's structure — term_indices / get_slice / subset no longer know it")
    # the simplified terms are what is yielded
    ctx.check(by is not None, "C03.R1", "each term yields its own simplified scoped terms", f.module.line(lp), ctx.construct(f, text="yield"),
              "the loop must yield (term, scoped_terms)")


def r2(ctx):
    P = ctx.project
    g = P.func(f"{MAT}._get_scoped_terms_spanned_by_evaled_factors")
    try:
        outs = sym.outcomes(g.node)
    except sym.Unmodelled as e:
        raise AnalysisError(f"C03.R2: cannot be summarised: {e}")
    lps = sym.loops_of(outs)
    if not lps:
        raise AnalysisError("C03.R2: factor loop not found")
    lp = lps[0]
    fv = norm(lp._sym_orig.target)
    ctx.look()
    K, S = f"{fv}.metadata.kind is Factor.Kind.CONSTANT", f"{fv}.metadata.spans_intercept"
    span = sym.iteration_effects(outs, lp, {K: False, S: True})
    other = sym.iteration_effects(outs, lp, {K: False, S: False})
    const = sym.iteration_effects(outs, lp, {K: True})
    b1 = sym.pm(f"VAR_alts.append((ScopedFactor({fv}, reduced=True), 1))", span[0][1][0]) if len(span) == 1 and len(span[0][1]) == 1 else None
    ctx.check(b1 is not None, "C03.R2", "a factor spanning the intercept contributes exactly {reduced factor, 1}", g.module.line(lp._sym_orig),
              ctx.construct(g, text="alternatives spans_intercept"),
              f"expected <alternatives>.append((ScopedFactor({fv}, reduced=True), 1)); found {[[norm(e)[:90] for e in x[1]] for x in span]}")
    b2 = sym.pm_any([f"VAR_alts.append((ScopedFactor({fv}),))", f"VAR_alts.append((ScopedFactor({fv}, reduced=False),))"], other[0][1][0]) \
        if len(other) == 1 and len(other[0][1]) == 1 else None
    ctx.check(b2 is not None and (b1 is None or b1["VAR_alts"] == b2["VAR_alts"]) and all(not any("append" in norm(e) for e in x[1]) for x in const), "C03.R2",
              "any other non-constant factor contributes exactly {full factor}", g.module.line(lp._sym_orig),
              ctx.construct(g, text="alternatives other"), f"found {[[norm(e)[:90] for e in x[1]] for x in other]} (constants: {[[norm(e)[:60] for e in x[1]] for x in const]})")
    alts = (b1 or b2 or {}).get("VAR_alts", "factors")
    fin = [o for o in outs if not o.loops and o.kind == "return"]
    PROD = [f"OrderedSet((ScopedTerm(factors=(VAR_p for VAR_p in VAR_c if VAR_p != 1), scale=ANY_s) for VAR_c in itertools.product(*{alts})))",
            f"OrderedSet([ScopedTerm(factors=(VAR_p for VAR_p in VAR_c if VAR_p != 1), scale=ANY_s) for VAR_c in itertools.product(*{alts})])",
            f"OrderedSet((ScopedTerm(factors=[VAR_p for VAR_p in VAR_c if VAR_p != 1], scale=ANY_s) for VAR_c in itertools.product(*{alts})))",
            f"OrderedSet((ScopedTerm(factors=tuple((VAR_p for VAR_p in VAR_c if VAR_p != 1)), scale=ANY_s) for VAR_c in itertools.product(*{alts})))"]
    ok3 = len(fin) == 1 and sym.pm_any(PROD, fin[0].value) is not None
    ctx.check(ok3, "C03.R2", "the span is the ordered product over the alternatives with the 1s dropped",
              g.where, ctx.construct(g, text="product"), f"return is `{norm(fin[0].value)[:130] if fin else None}`")
    # default of ScopedFactor.reduced is False
    sf = P.method("formulaic.materializers.types.scoped_factor.ScopedFactor", "__init__")
    d = sf.node.args.defaults
    ctx.check(len(d) == 1 and is_const(d[0], False), "C03.R2", "ScopedFactor defaults to the full (unreduced) encoding", sf.where,
              ctx.construct(sf, text="reduced default"), "ScopedFactor(reduced=...) must default to False")


def r3(ctx):
    P = ctx.project
    s = P.func(f"{MAT}._simplify_scoped_terms")
    fn = s.node
    outer = [n for n in fn.body if isinstance(n, ast.For)]
    if len(outer) != 1:
        raise AnalysisError("C03.R3: outer loop of _simplify_scoped_terms not found")
    lp = outer[0]
    ctx.look()
    it = lp.iter
    ok = isinstance(it, ast.Call) and dotted(it.func) == "sorted" and len(it.args) == 1 and [k.arg for k in it.keywords] == ["key"] \
        and re.fullmatch(r"lambda (\w+): len\(\1\.factors\)", norm(kwarg(it, "key"))) is not None
    ctx.check(ok, "C03.R3", "scoped terms are processed in ascending factor count (stable)", s.module.line(lp), ctx.construct(s, text="processing order"),
              f"outer loop iterates `{norm(it)[:100]}`; expected sorted(scoped_terms, key=lambda x: len(x.factors))")
    inner = [n for n in lp.body if isinstance(n, ast.For)]
    if len(inner) != 1:
        raise AnalysisError("C03.R3: inner loop over existing terms not found")
    il = inner[0]
    # the condition under which an existing term absorbs the candidate, with the loop's single-assignment locals written out:
    # |F| - 1 == |C|  and  |F - C| == 1  and  the one factor of F - C is a reduced one      (F candidate, C existing)
    from ..util import atom_mapper, inline_locals, reach_condition, truth_table
    F, C = "set(scoped_term.factors)", "set(existing_term.factors)"
    NEW = f"next(iter({F} - {C}))"
    merges = [n for n in ast.walk(il) if isinstance(n, ast.Assign) and any(isinstance(c_, ast.Call) and norm(c_.func) == "cls._simplify_scoped_terms" for c_ in ast.walk(n.value))]
    rc = reach_condition(P, merges[0]) if len(merges) == 1 else None
    rc = inline_locals(rc, fn) if rc is not None else None
    am = atom_mapper({f"len({F}) - 1 == len({C})": 0, f"len({C}) == len({F}) - 1": 0, f"len({C}) + 1 == len({F})": 0, f"len({F}) == len({C}) + 1": 0,
                      f"len({F} - {C}) == 1": 1, f"{NEW}.reduced": 2})
    tt = truth_table(rc, am, 3) if rc is not None else None
    ok_guard = tt == tuple(a_ and b_ and r_ for a_, b_, r_ in itertools.product([False, True], repeat=3))
    ctx.check(ok_guard, "C03.R3", "merge only when the candidate has exactly one more factor and the difference is exactly one factor",
              s.module.line(il), ctx.construct(s, text="merge guard"),
              f"the merge is reached under `{norm(rc)[:200] if rc is not None else None}`; expected |candidate| - 1 == |existing| and |candidate - existing| == 1 and the differing factor reduced")
    ok_sets = isinstance(tt, tuple)   # every atom of the condition was recognised: the difference is candidate-minus-existing, the new factor its single element
    ctx.check(ok_sets, "C03.R3", "the difference is taken candidate-minus-existing and the new factor is its single element", s.module.line(il),
              ctx.construct(s, text="difference"), f"merge condition: `{norm(rc)[:200] if rc is not None else None}` (unrecognised part: {tt if isinstance(tt, str) else None})")
    ctx.check(ok_guard, "C03.R3", "the rule is applied only when the differing factor is reduced", s.module.line(il), ctx.construct(s, text="reduced test"),
              "expected `if factor_new.reduced:` guarding the merge")
    red = [P.parent(merges[0])] if len(merges) == 1 and isinstance(P.parent(merges[0]), (ast.If, ast.For)) else []
    if red:
        b = red[0]
        ct = [c for c in ast.walk(b) if isinstance(c, ast.Call) and dotted(c.func) == "ScopedTerm"]
        ok = False
        if len(ct) == 1 and ct[0].args and isinstance(ct[0].args[0], ast.GeneratorExp):
            g = ct[0].args[0]
            v = g.generators[0].target.id
            e = inline_locals(g.elt, fn)
            ok = (norm(g.generators[0].iter) == "scoped_term.factors" and isinstance(e, ast.IfExp) and norm(e.test) in (f"{v} == {NEW}", f"{NEW} == {v}")
                  and norm(e.body) == f"ScopedFactor({NEW}.factor, reduced=False)" and norm(e.orelse) == v)
        ctx.check(ok, "C03.R3", "the merged term keeps the other factors and replaces the reduced one by its full version", s.module.line(b),
                  ctx.construct(s, text="merged term"), f"merged ScopedTerm is `{norm(ct[0])[:140] if ct else None}`")
        rec = [c for c in ast.walk(b) if isinstance(c, ast.Call) and norm(c.func) == "cls._simplify_scoped_terms"]
        ok = len(rec) == 1 and "terms - (existing_term,)" in norm(rec[0].args[0])
        ctx.check(ok, "C03.R3", "the existing term is removed and the result re-simplified", s.module.line(b), ctx.construct(s, text="recursion"),
                  "expected cls._simplify_scoped_terms(terms - (existing_term,) | (merged,))")
        # "merged" is signalled to the code after the inner loop either by a flag or by leaving the loop with `break` (for … else)
        APPEND = "terms = terms | (scoped_term,)"
        for_else = bool(il.orelse) and [norm(x) for x in il.orelse] == [APPEND]
        ctx.check(any(isinstance(x, ast.Break) for x in b.body) and (any(norm(x) == "combined = True" for x in b.body) or for_else), "C03.R3",
                  "after a merge the candidate is not also appended", s.module.line(b), ctx.construct(s, text="combined flag"),
                  "the merge branch must set combined = True and break")
    from ..util import atom_mapper, reach_condition, truth_table
    inner = {id(x) for x in ast.walk(il)}
    apps_ = [n for n in ast.walk(lp) if isinstance(n, ast.Assign) and norm(n) == "terms = terms | (scoped_term,)" and id(n) not in inner]
    rc_ = reach_condition(P, apps_[0], mention="combined") if len(apps_) == 1 else None
    ok = (rc_ is not None and truth_table(rc_, atom_mapper({"combined": 0}), 1) == (True, False)) or \
        (bool(il.orelse) and [norm(x) for x in il.orelse] == ["terms = terms | (scoped_term,)"] and not apps_)
    ctx.check(ok, "C03.R3", "an unmerged candidate is appended unchanged", s.module.line(lp), ctx.construct(s, text="append"),
              "expected `if not combined: terms = terms | (scoped_term,)`")


def eqhash(ctx, rule: str, cls_qual: str, identity_attrs: List[str], excluded: List[str] = ()):
    """EQHASH: __eq__ (same-type branch) compares exactly the identity attributes; __hash__ is derived only from them."""
    P = ctx.project
    C = P.cls(cls_qual)
    eq, hs = C.methods.get("__eq__"), C.methods.get("__hash__")
    if eq is None or hs is None:
        raise AnalysisError(f"{rule}: {cls_qual} lacks __eq__/__hash__")
    short = cls_qual.split(".")[-1]
    ctx.look(2)
    used_eq = set()
    other = param_names(eq.node)[1]
    try:
        same = sym.eval_under(sym.outcomes(eq.node), {f"isinstance({other}, {short})": True}, kinds=("return",))
    except sym.Unmodelled as e:
        raise AnalysisError(f"{rule}: {cls_qual}.__eq__ cannot be summarised: {e}")
    for _k, v, _e in same:
        if v is not None:
            used_eq |= {a.attr for a in ast.walk(v) if isinstance(a, ast.Attribute) and dotted(a.value) in ("self", other)}
    ctx.check(used_eq == set(identity_attrs), rule, f"{short}.__eq__ compares exactly {sorted(identity_attrs)}", eq.where,
              ctx.construct(eq, text="eq attrs"), f"same-type equality reads {sorted(used_eq)}")
    hashed = {a.attr for a in ast.walk(hs.node) if isinstance(a, ast.Attribute) and dotted(a.value) == "self"}
    via_repr = any(isinstance(c, ast.Call) and dotted(c.func) == "repr" and norm(c.args[0]) == "self" for c in ast.walk(hs.node))
    if via_repr and "__repr__" in C.methods:
        hashed |= {a.attr for a in ast.walk(C.methods["__repr__"].node) if isinstance(a, ast.Attribute) and dotted(a.value) == "self"}
    ctx.check(hashed and hashed <= set(identity_attrs) and not (hashed & set(excluded)), rule,
              f"{short}.__hash__ derives only from what equality compares", hs.where, ctx.construct(hs, text="hash attrs"),
              f"hash reads {sorted(hashed)}; equality compares {sorted(identity_attrs)} — equal objects could hash differently / unequal identity")
    return C, eq, hs


def r4(ctx):
    P = ctx.project
    eqhash(ctx, "C03.R4", "formulaic.materializers.types.scoped_factor.ScopedFactor", ["factor", "reduced"])
    C, eq, hs = eqhash(ctx, "C03.R4", "formulaic.materializers.types.scoped_term.ScopedTerm", ["factors"], excluded=["scale"])
    # order-insensitive on both sides with the same normalisation
    try:
        _same = sym.eval_under(sym.outcomes(eq.node), {"isinstance(other, ScopedTerm)": True}, kinds=("return",))
    except sym.Unmodelled:
        _same = []

    class _R:  # the same-type comparison, whichever way the branch is written
        def __init__(self, v):
            self.value = v
    r = [_R(v) for _k, v, _e in _same if isinstance(v, ast.Compare)]
    ok = bool(r) and norm(r[0].value) in ("sorted(self.factors) == sorted(other.factors)", "set(self.factors) == set(other.factors)",
                                           "frozenset(self.factors) == frozenset(other.factors)")
    hr = returns_of(hs.node)
    ok_h = bool(hr) and norm(hr[0].value) in ("hash(tuple(sorted(self.factors)))", "hash(frozenset(self.factors))")
    ctx.check(ok and ok_h, "C03.R4", "ScopedTerm identity is the order-insensitive collection of its scoped factors", eq.where,
              ctx.construct(eq, text="order-insensitive"), f"eq: `{norm(r[0].value) if r else None}`, hash: `{norm(hr[0].value) if hr else None}`")
    init = C.methods["__init__"]
    st = [s for s in walk_no_nested(init.node) if isinstance(s, ast.Assign) and norm(s.targets[0]) == "self.factors"]
    ctx.check(len(st) == 1 and norm(st[0].value) == "tuple(dict.fromkeys(factors))", "C03.R4", "ScopedTerm factors are duplicate-free, in first-appearance order",
              init.where, ctx.construct(init, text="factors"), f"self.factors = `{norm(st[0].value) if st else None}`")
    # ScopedFactor repr (used for hashing) distinguishes reduced from full
    SF = P.cls("formulaic.materializers.types.scoped_factor.ScopedFactor")
    rp = returns_of(SF.methods["__repr__"].node)
    ok = bool(rp) and "self.reduced" in norm(rp[0].value) and "repr(self.factor)" in norm(rp[0].value)
    ctx.check(ok, "C03.R4", "the printed form of a scoped factor (its hash key) carries factor and reduced flag", SF.where,
              ctx.construct(SF.qualname, text="repr"), f"repr = `{norm(rp[0].value) if rp else None}`")


def r5(ctx, rule="C03.R5"):
    """Reference-level agreement per contrast class: default base index <-> default dropped level, explicit base honoured by both."""
    P = ctx.project
    pairs = {"TreatmentContrasts": ("0", "levels[0]"), "SASContrasts": ("len(levels) - 1", "levels[-1]")}
    n = 0
    for cname, (want_idx, want_lvl) in pairs.items():
        C = P.cls(f"{CONTRASTS}.{cname}")
        # the methods in effect for this class (its own, or the nearest one inherited)
        fb = gd = None
        for K in P.mro(C.qualname):
            fb = fb or K.methods.get("_find_base_index")
            gd = gd or K.methods.get("get_drop_field")
        if fb is None or gd is None:
            raise AnalysisError(f"{rule}: {cname} has no _find_base_index/get_drop_field in its hierarchy")
        n += 1
        ctx.look()
        # path-wise: what each method returns when no base was given / when one was / when the coding is reduced
        U = "self.base is UNSET"
        try:
            fo, go = sym.outcomes(fb.node), sym.outcomes(gd.node)
        except sym.Unmodelled as e:
            raise AnalysisError(f"{rule}: {cname} reference-level methods cannot be summarised: {e}")
        dflt = sym.eval_under(fo, {U: True}, kinds=("return", "fall"))
        d_idx = norm(dflt[0][1]) if len(dflt) == 1 and dflt[0][0] == "return" and dflt[0][1] is not None else None
        expl = sym.eval_under(fo, {U: False}, kinds=("return", "fall"))
        explicit_idx = len(expl) == 1 and expl[0][0] == "return" and expl[0][1] is not None and norm(expl[0][1]) == "levels.index(self.base)"
        red = sym.eval_under(go, {"reduced_rank": True}, kinds=("return", "fall"))
        red_none = len(red) == 1 and (red[0][1] is None or is_const(red[0][1], None))
        fd = sym.eval_under(go, {"reduced_rank": False, U: True}, kinds=("return", "fall"))
        d_lvl = norm(fd[0][1]) if len(fd) == 1 and fd[0][0] == "return" and fd[0][1] is not None else None
        fe = sym.eval_under(go, {"reduced_rank": False, U: False}, kinds=("return", "fall"))
        explicit_idx = explicit_idx and len(fe) == 1 and fe[0][1] is not None and norm(fe[0][1]) == "self.base"
        ok = d_idx == want_idx and d_lvl == want_lvl and explicit_idx and red_none
        # agreement: index expr i <-> levels[i]
        agree = (d_idx, d_lvl) in (("0", "levels[0]"), ("len(levels) - 1", "levels[-1]"), ("len(levels) - 1", "levels[len(levels) - 1]"))
        ctx.check(ok and agree, rule, f"{cname}: the default reference level of the coding matrix and the level dropped from the full encoding agree",
                  gd.where, ctx.construct(C.qualname, text="reference level"),
                  f"_find_base_index default `{d_idx}` vs get_drop_field default `{d_lvl}`; explicit base honoured by index={explicit_idx}; "
                  f"reduced -> None = {red_none}")
    ctx.floor(rule, n, 2, "contrast classes with a selectable reference level")
    # base class: the dropped field of other contrasts is the first coding column of the FULL coding
    B = P.cls(f"{CONTRASTS}.Contrasts")
    gd = B.methods["get_drop_field"]
    rets = returns_of(gd.node)
    try:
        bo = sym.outcomes(gd.node)
    except sym.Unmodelled as e:
        raise AnalysisError(f"{rule}: Contrasts.get_drop_field cannot be summarised: {e}")
    red = sym.eval_under(bo, {"reduced_rank": True}, kinds=("return", "fall"))
    full = sym.eval_under(bo, {"reduced_rank": False}, kinds=("return", "fall"))
    ok = len(red) == 1 and (red[0][1] is None or is_const(red[0][1], None)) and len(full) == 1 and full[0][1] is not None and \
        sym.pm_any(["self.get_coding_column_names(levels, reduced_rank=reduced_rank)[0]", "self.get_coding_column_names(levels, reduced_rank=False)[0]"], full[0][1]) is not None
    ctx.check(ok, rule, "base Contrasts.get_drop_field: None when reduced, else the first full-coding column", gd.where,
              ctx.construct(gd, text="drop field"), f"returns: {[norm(r_.value) for r_ in rets]}")
    gs = B.methods["get_spans_intercept"]
    rets = returns_of(gs.node)
    from ..util import atom_mapper, predicate_table
    # atoms: 0 = there is at least one level, 1 = the coding is the reduced one; the property wants exactly (some level, full coding)
    am = atom_mapper({"len(levels) > 0": 0, "len(levels) != 0": 0, "len(levels) >= 1": 0, "0 < len(levels)": 0, "0 != len(levels)": 0,
                      "1 <= len(levels)": 0, "len(levels)": 0, "levels": 0, "bool(levels)": 0, "bool(len(levels))": 0, "reduced_rank": 1})
    try:
        ok = predicate_table(gs.node, am, 2) == (False, False, True, False)
    except sym.Unmodelled:
        ok = False
    ctx.check(ok, rule, "a coding spans the intercept exactly when it is the full coding of at least one level", gs.where,
              ctx.construct(gs, text="spans intercept"), f"returns `{norm(rets[0].value) if rets else None}`")


def r6(ctx):
    P = ctx.project
    f = P.func(f"{MAT}._encode_evaled_factor")
    dels = [n for n in walk_no_nested(f.node) if isinstance(n, ast.Delete)]
    ctx.floor("C03.R6", len(dels), 1, "reference-column deletions")
    from ..util import doc_order
    _pos6 = doc_order(f.node)
    for d in dels:
        ctx.look()
        g = P.parent(d)
        t = norm(g.test) if isinstance(g, ast.If) else ""
        conj = [norm(v) for v in (g.test.values if isinstance(g, ast.If) and isinstance(g.test, ast.BoolOp) and isinstance(g.test.op, ast.And) else [])]
        ok_guard = isinstance(g, ast.If) and sorted(conj) == sorted(["isinstance(encoded, dict)", "encoded.__formulaic_metadata__.spans_intercept", "reduced_rank"])
        tgt = d.targets[0]
        ok_tgt = isinstance(tgt, ast.Subscript) and norm(tgt.slice).endswith(".drop_field") and isinstance(tgt.value, ast.Name)
        # the deleted-from object is a fresh copy made in the same branch
        name = tgt.value.id if ok_tgt else "?"
        prior = [s for s in (g.body if isinstance(g, ast.If) else []) if isinstance(s, ast.Assign) and norm(s.targets[0]) == name and _pos6[id(s)] < _pos6[id(d)]]
        ok_copy = bool(prior) and f"{name}.copy()" in norm(prior[-1].value)
        ctx.check(ok_guard and ok_tgt and ok_copy, "C03.R6",
                  "the reference column is deleted only under spans_intercept and reduced_rank, from a copy of the cached encoding", f.module.line(d),
                  ctx.construct(f, text="del drop_field"),
                  f"guard ok={ok_guard} (`{t[:110]}`; expected exactly isinstance(encoded, dict) ∧ spans_intercept ∧ reduced_rank — an extra truthiness test on the "
                  f"drop field skips the reduction for a falsy reference level such as 0 or ''), target ok={ok_tgt}, copy before delete={ok_copy} (deleting from the cached dict would corrupt the "
                  f"full-rank use of the same factor)")
        if isinstance(g, ast.If) and prior:
            ok_red = kwarg(prior[-1].value, "reduced") is not None and is_const(kwarg(prior[-1].value, "reduced"), True) if isinstance(prior[-1].value, ast.Call) else False
            ctx.check(ok_red, "C03.R6", "the reduced copy is marked reduced (so that the reduced name format is used)", f.module.line(prior[-1]),
                      ctx.construct(f, text="reduced=True"), "FactorValues(..., reduced=True) expected for the reduced copy")
    # the encoding cache is keyed by (expr, reduced_rank) unless the FACTOR ITSELF declares that its reduced form is "full minus one field"
    # the key under which a fresh encoding is stored: the subscript of the store into self.encoded_cache (through a local, or inline)
    from ..util import single_assignment_env, strip_casts
    env_ck = single_assignment_env(f.node)
    ck = []
    for st in walk_no_nested(f.node):
        if isinstance(st, ast.Assign) and len(st.targets) == 1 and isinstance(st.targets[0], ast.Subscript) and norm(st.targets[0].value) == "self.encoded_cache":
            k_ = st.targets[0].slice
            if isinstance(k_, ast.Name) and k_.id in env_ck:
                k_ = env_ck[k_.id]
            ck.append((st, k_))
    ctx.floor("C03.R6", len(ck), 1, "encoding cache key definitions")
    for st, v in ck:
        ctx.look()
        v = strip_casts(v)
        if isinstance(v, ast.IfExp) and not (norm(v.body) == "factor.expr"):
            # the other polarity: `(expr, reduced_rank) if not (…) else expr`
            from ..normalize import negate, as_test
            v = ast.IfExp(test=as_test(negate(v.test)), body=v.orelse, orelse=v.body)
        ok = isinstance(v, ast.IfExp) and norm(v.body) == "factor.expr" and isinstance(v.orelse, ast.Tuple) and [norm(e) for e in v.orelse.elts] == ["factor.expr", "reduced_rank"]
        drops = [a for a in ast.walk(v.test) if isinstance(a, ast.Attribute) and a.attr == "drop_field"] if isinstance(v, ast.IfExp) else []
        ok_src = bool(drops) and all(norm(a.value) == "factor.metadata" for a in drops)
        if ok and ok_src:
            # … and under nothing else: the bare-expression key is used exactly when the encoding is a dict AND the factor declares a drop field
            from ..util import atom_mapper, truth_table
            tt = truth_table(v.test, atom_mapper({"isinstance(encoded, dict)": 0, "factor.metadata.drop_field": 1, "factor.metadata.drop_field is not None": 1,
                                                  "bool(factor.metadata.drop_field)": 1}), 2)
            ok_src = tt == (False, False, False, True)
        ctx.check(ok and ok_src, "C03.R6", "a full-rank encoding is shared with reduced-rank requests only when the factor's own metadata declares a drop field",
                  f.module.line(st), ctx.construct(f, text="cache key"),
                  f"cache_key = `{norm(v)[:140]}`: keying on the *encoded* value's metadata (or dropping reduced_rank) lets a full-rank contrast coding be reused for a "
                  f"reduced-rank request of a factor with its own encoder (e.g. C(g, contr.sum))")
    looks = [(c.lineno, c.col_offset, norm(c.left)) for c in ast.walk(f.node) if isinstance(c, ast.Compare) and len(c.ops) == 1 and isinstance(c.ops[0], (ast.In, ast.NotIn))
             and norm(c.comparators[0]) == "self.encoded_cache"]
    reads = {norm(s_.slice) for s_ in ast.walk(f.node) if isinstance(s_, ast.Subscript) and norm(s_.value) == "self.encoded_cache" and isinstance(s_.ctx, ast.Load)}
    shapes = {k for _l, _c, k in looks}
    ok = shapes == {"factor.expr", "(factor.expr, reduced_rank)"} and reads == shapes and bool(ck) \
        and sorted(looks)[0][2] == "factor.expr"
    ctx.check(ok, "C03.R6", "the cache is consulted with the same two key shapes it is filled with", f.where, ctx.construct(f, text="cache lookup"), "cache lookup / store key shapes changed")
    # the builder passes the scoped factor's own reduced flag
    b = P.func(f"{MAT}._build_model_matrix")
    calls = [c for c in ast.walk(b.node) if isinstance(c, ast.Call) and isinstance(c.func, ast.Attribute) and c.func.attr == "_encode_evaled_factor"]
    ctx.floor("C03.R6", len(calls), 1, "_encode_evaled_factor call sites")
    for c in calls:
        a = kwarg(c, "reduced_rank")
        ctx.check(a is not None and norm(a) == "scoped_factor.reduced" and norm(c.args[0]) == "scoped_factor.factor", "C03.R6",
                  "each factor is encoded with its own scoped `reduced` flag", b.module.line(c), ctx.construct(b, text="encode(reduced_rank=)"),
                  f"reduced_rank argument is `{norm(a) if a is not None else 'missing'}`")



def s1(ctx):
    """shared mechanisms: every built-in contrast has n-1 distinct reduced columns (= C11.R1/R2); the working spec owns its encoder state (= C18.R1)"""
    from .shared import relabel
    from . import c11, c18
    relabel(ctx, "C03.S1", c11.r1, c11.r2, c18.r1)


def _s1_parts():
    from .shared import relabel
    from . import c11, c18
    from .shared import relabel_parts
    return relabel_parts("C03.S1", c11.r1, c11.r2, c18.r1)


s1.parts = _s1_parts


RULES = [("C03.R1", r1), ("C03.R2", r2), ("C03.R3", r3), ("C03.R4", r4), ("C03.R5", r5), ("C03.R6", r6), ("C03.S1", s1)]


def generic_eqhash(ctx, rule: str):
    """Package-wide form of EQHASH (thorough tier): for every class defining both __eq__ and __hash__, the attributes
    __hash__ derives from (directly, through attributes computed in __init__, or through repr(self)) are a subset of
    what the same-type branch of __eq__ compares (same resolution)."""
    P = ctx.project
    n = 0
    for C in sorted(P.classes.values(), key=lambda c: c.qualname):
        eq, hs = C.methods.get("__eq__"), C.methods.get("__hash__")
        if eq is None or hs is None:
            continue
        n += 1
        ctx.look()
        short = C.qualname.split(".")[-1]
        init = C.methods.get("__init__")
        derived = {}
        if init is not None:
            for st in walk_no_nested(init.node):
                if isinstance(st, ast.Assign) and len(st.targets) == 1 and isinstance(st.targets[0], ast.Attribute) and dotted(st.targets[0].value) == "self":
                    src = {a.attr for a in ast.walk(st.value) if isinstance(a, ast.Attribute) and dotted(a.value) == "self"}
                    if src:
                        derived[st.targets[0].attr] = src

        def base_attrs(attrs):
            out, todo = set(), list(attrs)
            while todo:
                a = todo.pop()
                if a in derived and a not in out:
                    todo.extend(derived[a])
                    out.add(a)
                else:
                    out.add(a)
            return {a for a in out if a not in derived} | {a for a in out if a in derived and not derived[a]}

        eq_attrs = set()
        for b in ast.walk(eq.node):
            if isinstance(b, ast.If) and norm(b.test) == f"isinstance(other, {short})":
                for r in [x for x in ast.walk(b) if isinstance(x, ast.Return)]:
                    eq_attrs |= {a.attr for a in ast.walk(r) if isinstance(a, ast.Attribute) and dotted(a.value) in ("self", "other")}
        h_attrs = {a.attr for a in ast.walk(hs.node) if isinstance(a, ast.Attribute) and dotted(a.value) == "self"}
        if any(isinstance(c, ast.Call) and dotted(c.func) == "repr" and c.args and norm(c.args[0]) == "self" for c in ast.walk(hs.node)) and "__repr__" in C.methods:
            h_attrs |= {a.attr for a in ast.walk(C.methods["__repr__"].node) if isinstance(a, ast.Attribute) and dotted(a.value) == "self"}
        he, ee = base_attrs(h_attrs), base_attrs(eq_attrs)
        ctx.check(bool(he) and he <= ee, rule, f"{short}: __hash__ derives only from what __eq__ compares", hs.where, ctx.construct(C.qualname, text="generic eq/hash"),
                  f"hash reads {sorted(he)}, equality compares {sorted(ee)}: equal objects may hash differently")
    ctx.floor(rule, n, 6, "classes defining both __eq__ and __hash__")


THOROUGH = [("C03.T1", lambda ctx: generic_eqhash(ctx, "C03.T1")), ("C03.S1", s1)]
