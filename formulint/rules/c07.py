"""C07 — multi-part formulas give row-aligned parts equal to separate builds."""
from __future__ import annotations

import ast
from typing import List

from ..cfg import CFG, ENTRY, EXIT, reaching_defs
from .. import sym
from ..core import AnalysisError, FunctionInfo, Project, arg_for, dotted, kwarg, norm, param_names, walk_no_nested
from ..util import assignments, header_calls, header_walk, lambdas_in, mentions, returns_of, stmt_text
from . import shared
from .shared import MAT

EXPLANATION = (
    "Static rules: (R1) in FormulaMaterializer.get_model_matrix the loop evaluating the pooled factors is dominated by the "
    "pooling call and dominates the first build, with the drop sequence frozen in between; every other entry point that "
    "returns several parts must hand all parts to ONE such call — a per-part loop is reported, since rows found null by a "
    "later part are still present in an earlier one; (R2) every builder / encoder call inside the build path receives the "
    "one frozen drop sequence; (R3) pooling visits every part (factors and transform state collected through _map over all "
    "leaves) and the pooled transform state is written back to every part before any build; (R4) Structured._map is shape "
    "preserving (same keys, tuples to tuples, nested structures recursed with the same as_type); (R5) the joint path "
    "forwards drop_rows (= C06.R1). Equality of each part with a separate build is not decided."
)
ASSUMPTIONS = ["rows are aligned across parts iff every part is built from the same frozen drop sequence after all factors were evaluated"]


def _stmt_with_call(cfg: CFG, attr: str) -> List[ast.stmt]:
    return [st for st in cfg.stmts() if any(isinstance(c.func, ast.Attribute) and c.func.attr == attr for c in header_calls(st))]


def r1(ctx):
    P = ctx.project
    f = P.func(MAT + ".get_model_matrix")
    cfg = CFG(f.node)
    pool = _stmt_with_call(cfg, "_prepare_factor_evaluation_model_spec")
    evals = [st for st in cfg.stmts() if isinstance(st, ast.Expr) and any(isinstance(c.func, ast.Attribute) and c.func.attr == "_evaluate_factor" for c in header_calls(st))]
    builds = [st for st in cfg.stmts() if any(isinstance(n, ast.Call) and isinstance(n.func, ast.Attribute) and n.func.attr == "_build_model_matrix"
                                              for n in header_walk(st))]
    freeze = [st for st in cfg.stmts() if isinstance(st, (ast.Assign, ast.AnnAssign)) and isinstance(st.value, ast.Call) and dotted(st.value.func) == "sorted"]
    if not (pool and evals and builds and freeze):
        raise AnalysisError("C07.R1: pooling / evaluation / freeze / build statements not all found in get_model_matrix")
    loop = P.parent(evals[0])
    ctx.look(4)
    ok_loop = isinstance(loop, ast.For)
    ctx.check(ok_loop, "C07.R1", "pooled factors are evaluated in one loop", f.module.line(evals[0]), ctx.construct(f, text="eval loop"),
              "_evaluate_factor must be called in a loop over the pooled factors")
    if ok_loop:
        # the loop iterates the pooled factor collection returned by the pooling call
        tgt = pool[0].targets[0] if isinstance(pool[0], ast.Assign) else None
        pooled = [norm(e) for e in tgt.elts] if isinstance(tgt, ast.Tuple) else []
        ctx.check(norm(loop.iter) in pooled[:1], "C07.R1", "the loop iterates the pooled factors of ALL parts", f.module.line(loop),
                  ctx.construct(f, text="eval loop iter"), f"loop iterates `{norm(loop.iter)}`; pooling returns {pooled}")
        ctx.check(cfg.dominates(pool[0], loop), "C07.R1", "pooling precedes factor evaluation", f.module.line(loop), ctx.construct(f, text="pool before eval"),
                  "factors are evaluated before (or without) pooling the parts")
        inside = {id(x) for x in ast.walk(loop)}
        for b in builds:
            ok = cfg.dominates(loop, b) and id(b) not in inside and cfg.dominates(freeze[0], b) and cfg.dominates(loop, freeze[0]) and id(freeze[0]) not in inside
            ctx.check(ok, "C07.R1", "every build happens after all factors were evaluated and the drop sequence was frozen", f.module.line(b),
                      ctx.construct(f, text="evaluate-all-then-build"),
                      "a part can be built while factors of another part are still unevaluated: rows later found null stay in the earlier part")
    # other multi-part entry points: joint generation or report
    for q in ("formulaic.model_spec.ModelSpecs.get_model_matrix", "formulaic.formula.StructuredFormula.get_model_matrix"):
        g = P.func(q)
        per_part = []
        for lam in lambdas_in(g.node):
            if any(isinstance(c, ast.Call) and isinstance(c.func, ast.Attribute) and c.func.attr == "get_model_matrix" for c in ast.walk(lam.body)):
                # is this lambda handed to _map? then each part is built on its own
                par = P.parent(lam)
                if isinstance(par, ast.Call) and isinstance(par.func, ast.Attribute) and par.func.attr == "_map":
                    per_part.append(par)
        loops = [n for n in walk_no_nested(g.node) if isinstance(n, ast.For) and any(
            isinstance(c, ast.Call) and isinstance(c.func, ast.Attribute) and c.func.attr == "get_model_matrix" for c in ast.walk(n))]
        ctx.look()
        for pp in per_part + loops:
            ctx.fail("C07.R1", f"{q.split('.')[-2]}.get_model_matrix hands all parts to one materializer call", g.module.line(pp),
                     ctx.construct(g, text="per-part build"),
                     "parts are materialized one by one (each with its own evaluation pass): a row found null only by a later part has already "
                     "been emitted by an earlier part, so the parts are not row-aligned")
        if not per_part and not loops:
            ctx.ok("C07.R1", f"{q.split('.')[-2]}.get_model_matrix hands all parts to one materializer call", g.where)


def r2(ctx):
    P = ctx.project
    n = 0
    from .shared import dict_mapper
    MAPPER = dict_mapper(P)[0]
    for name in ("_build_model_matrix", "_enforce_structure", "_encode_evaled_factor"):
        f = P.func(f"{MAT}.{name}")
        if "drop_rows" not in param_names(f.node):
            raise AnalysisError(f"C07.R2: {name} has no drop_rows parameter")
        rebound = [st for nm, _, st in assignments(f.node, nested=True) if nm == "drop_rows"]
        ctx.check(not rebound, "C07.R2", f"{name} does not re-bind the drop sequence", f.where, ctx.construct(f, text="rebind drop_rows"),
                  f"drop_rows is re-bound at {[stmt_text(s, 60) for s in rebound]}")
        for c in ast.walk(f.node):
            if not (isinstance(c, ast.Call) and isinstance(c.func, ast.Attribute)):
                continue
            callee = None
            if dotted(c.func.value) == "self":
                for cls in P.mro(MAT):
                    if c.func.attr in cls.methods:
                        callee = cls.methods[c.func.attr]
                        break
            is_encoder = norm(c.func) == "factor.metadata.encoder" or (isinstance(c.func.value, ast.Call) and norm(c.func.value.func) == MAPPER)
            if callee is not None and "drop_rows" in param_names(callee.node):
                n += 1
                ctx.look()
                a = arg_for(c, callee.node, "drop_rows", bound_self=True)
                ctx.check(isinstance(a, ast.Name) and a.id == "drop_rows", "C07.R2", f"{name} -> {c.func.attr} receives the one frozen drop sequence",
                          f.module.line(c), ctx.construct(f, text=f"{c.func.attr}(drop_rows)"),
                          f"drop_rows argument is `{norm(a) if a is not None else 'missing'}`")
        # encoder slot call and map_dict(...)(...) calls
        for c in ast.walk(f.node):
            if isinstance(c, ast.Call) and norm(c.func) == "factor.metadata.encoder":
                n += 1
                a = kwarg(c, "drop_rows")
                ctx.check(isinstance(a, ast.Name) and a.id == "drop_rows", "C07.R2", "custom encoders receive the frozen drop sequence", f.module.line(c),
                          ctx.construct(f, text="encoder(drop_rows=)"), f"drop_rows argument is `{norm(a) if a is not None else 'missing'}`")
            if isinstance(c, ast.Call) and isinstance(c.func, ast.Call) and norm(c.func.func) == MAPPER:
                n += 1
                from ..util import single_assignment_env
                env_ = single_assignment_env(f.node)
                flat_ = []
                for a in c.args:   # `*shared` where shared = (…, drop_rows, …) passes its elements positionally
                    if isinstance(a, ast.Starred) and isinstance(a.value, ast.Name) and isinstance(env_.get(a.value.id), (ast.Tuple, ast.List)):
                        flat_ += list(env_[a.value.id].elts)
                    else:
                        flat_.append(a)
                ok = any(isinstance(a, ast.Name) and a.id == "drop_rows" for a in flat_)
                ctx.check(ok, "C07.R2", f"{norm(c.func.args[0])} receives the frozen drop sequence", f.module.line(c),
                          ctx.construct(f, text=f"{norm(c.func.args[0])}(drop_rows)"), "drop_rows is not among the positional arguments")
    ctx.floor("C07.R2", n, 8, "calls taking the drop sequence on the build path")


def r3(ctx):
    P = ctx.project
    f = P.func(MAT + "._prepare_factor_evaluation_model_spec")
    from .shared import pooling_visitor
    vis, part, every_leaf = pooling_visitor(P)   # today: the nested update_pooled_spec mapped over model_specs
    ctx.look(3)
    ctx.check(every_leaf, "C07.R3", "the pooling visitor is mapped over every leaf of the structured specs", f.where, ctx.construct(f, text="_map(update_pooled_spec)"),
              "expected model_specs._map(update_pooled_spec) (recursive)")
    ok = any(sym.pm_any([f"factors.update(itertools.chain(*(VAR_t.factors for VAR_t in {part}.formula)))",
                         f"factors.update(itertools.chain.from_iterable((VAR_t.factors for VAR_t in {part}.formula)))",
                         f"factors.update((VAR_f for VAR_t in {part}.formula for VAR_f in VAR_t.factors))"], c_) is not None for c_ in ast.walk(vis))
    ctx.check(ok, "C07.R3", "every factor of every term of every part is pooled", f.where, ctx.construct(f, text="factors.update"),
              "expected factors.update(itertools.chain(*(term.factors for term in model_spec.formula)))")
    ok = any(sym.pm(f"transform_state.update({part}.transform_state)", c_) is not None for c_ in ast.walk(vis))
    ctx.check(ok, "C07.R3", "the transform state of every part is pooled", f.where, ctx.construct(f, text="transform_state.update"),
              "expected transform_state.update(model_spec.transform_state)")
    ret = returns_of(f.node)
    ok = bool(ret) and isinstance(ret[0].value, ast.Tuple) and norm(ret[0].value.elts[0]) == "factors"
    ctx.check(ok, "C07.R3", "the pooled factor set is what the caller evaluates", f.where, ctx.construct(f, text="return factors"), "return (factors, spec) expected")
    # write-back to every part before any build
    g = P.func(MAT + ".get_model_matrix")
    cfg = CFG(g.node)
    wb = [st for st in cfg.stmts() if isinstance(st, ast.Expr) and isinstance(st.value, ast.Call) and isinstance(st.value.func, ast.Attribute)
          and st.value.func.attr == "_map" and "transform_state.update" in norm(st.value)]
    builds = [st for st in cfg.stmts() if any(isinstance(n, ast.Call) and isinstance(n.func, ast.Attribute) and n.func.attr == "_build_model_matrix" for n in header_walk(st))]
    ok = len(wb) == 1 and "factor_evaluation_model_spec.transform_state" in norm(wb[0]) and all(cfg.dominates(wb[0], b) for b in builds)
    ctx.check(ok, "C07.R3", "the pooled transform state is written back to every part before any build", g.where,
              ctx.construct(g, text="write back transform state"),
              "expected model_specs._map(lambda ms: ms.transform_state.update(factor_evaluation_model_spec.transform_state)) before the builds")
    # the result has the shape of the INPUT: only a bare (unstructured) spec is unwrapped
    # (read off the path summaries: the test is on the caller's `spec` itself — a rebound `spec` would show up as another expression)
    try:
        go = sym.thaw(sym.outcomes(g.node))
    except sym.Unmodelled as e:
        raise AnalysisError(f"C07.R3: get_model_matrix cannot be summarised: {e}")
    tests = sorted({norm(c) for o in go for c, _ in o.conds if sym.pm("isinstance(ANY_s, ModelSpec)", c) is not None})
    subj = sym.pm("isinstance(ANY_s, ModelSpec)", ast.parse(tests[0], mode="eval").body)["ANY_s"] if len(tests) == 1 else None
    # … the spec as the caller gave it, or as ModelSpec.from_spec returned it (which keeps a structured input structured)
    subj_ok = subj is not None and (subj == "spec" or sym.pm("ModelSpec.from_spec(spec, context=self.layered_context, **spec_overrides)", ast.parse(subj, mode="eval").body) is not None)
    tc = sym.truth_cases(go, tests[:1], kinds=("return",)) if tests else {}
    bare, nested = tc.get((True,), []), tc.get((False,), [])
    ok = subj_ok and bool(bare) and sorted(v for _k, v in bare) == sorted(f"{v}._simplify()" for _k, v in nested) and all("_build_model_matrix" in v for _k, v in nested)
    ctx.check(ok, "C07.R3", "the result keeps the nested shape of the formula: only an unstructured input is unwrapped", g.where, ctx.construct(g, text="should_simplify"),
              f"unstructured input returns {[v[:90] for _k, v in bare]}, structured input returns {[v[:90] for _k, v in nested]} (expected the mapped builds, `._simplify()`-ed only when "
              f"isinstance(spec, ModelSpec) held for the caller's own argument): a structured input with only a "
              f"root would come back as a bare matrix")
    # the builds are mapped over every part, preserving structure
    for b in builds:
        calls = [c for c in ast.walk(b) if isinstance(c, ast.Call) and isinstance(c.func, ast.Attribute) and c.func.attr == "_map" and "_build_model_matrix" in norm(c)]
        ok = len(calls) == 1 and norm(calls[0].func.value) == "model_specs" and kwarg(calls[0], "as_type") is not None
        ctx.check(ok, "C07.R3", "every part is built, into a container of the same shape", g.module.line(b), ctx.construct(g, text="_map(build)"),
                  "expected model_specs._map(lambda model_spec: self._build_model_matrix(...), as_type=ModelMatrices)")


def r4(ctx):
    from .c19 import map_shape_preserving
    map_shape_preserving(ctx, "C07.R4")


def r5(ctx):
    shared.forward_rule(ctx, "C07.R5", "drop_rows")


def r6(ctx):
    """each part's attached spec regenerates that part: recorded structure is reused faithfully (= C04.R3)."""
    from . import c04
    saved = ctx.obligations
    ctx.obligations = []
    c04.r3(ctx)
    for o in ctx.obligations:
        o.rule = "C07.R6"
    ctx.obligations = saved + ctx.obligations


def r7(ctx):
    """all parts contain the same rows: every encoder on the build path removes the one drop sequence by position (= C06.R2/R3)."""
    from . import c06
    saved = ctx.obligations
    ctx.obligations = []
    c06.r2(ctx)
    c06.r3(ctx)
    c06.r8(ctx)
    for o in ctx.obligations:
        o.rule = "C07.R7"
    ctx.obligations = saved + ctx.obligations


def r8(ctx):
    """factors evaluated once are shared by all parts: the encoding cache never hands a part an encoding made for another rank mode (= C03.R6)."""
    from . import c03
    saved = ctx.obligations
    ctx.obligations = []
    c03.r6(ctx)
    for o in ctx.obligations:
        o.rule = "C07.R8"
    ctx.obligations = saved + ctx.obligations


def r9(ctx):
    from .c09 import encoder_state_recorded_on_every_path
    encoder_state_recorded_on_every_path(ctx, "C07.R9")


RULES = [("C07.R1", r1), ("C07.R2", r2), ("C07.R3", r3), ("C07.R4", r4), ("C07.R5", r5), ("C07.R6", r6), ("C07.R7", r7), ("C07.R8", r8), ("C07.R9", r9)]
