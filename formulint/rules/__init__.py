"""Per-property rule sets.  Each module defines RULES (list of (rule_id, callable(ctx))),
optionally THOROUGH (same shape; package-wide generic forms), EXPLANATION and ASSUMPTIONS."""
import importlib

CLAIMED = ["C01", "C02", "C03", "C04", "C05", "C06", "C07", "C08", "C09", "C10", "C11",
           "C13", "C14", "C15", "C16", "C17", "C18", "C19", "C20"]


def load(prop: str):
    return importlib.import_module(f"formulint.rules.{prop.lower()}")
