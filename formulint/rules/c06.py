"""C06 — missing-data policy removes exactly the right rows, by position, and reports it."""
from __future__ import annotations

import ast
import os
from typing import List, Optional

from ..cfg import CFG, ENTRY, EXIT, reaching_defs
from .. import sym
from ..core import (AnalysisError, FunctionInfo, Project, arg_for, dotted, first_param_annotation, kwarg, norm,
                    param_names, walk_no_nested)
from ..report import VERIF
from ..util import (count_negations, derived_names, header_calls, header_walk, inline_locals, mentions, returns_of,
                    stmt_text, strip_casts, assignments)
from . import shared
from .shared import MAT, NARWHALS, PANDAS

NULLS = "formulaic.utils.null_handling"

EXPLANATION = (
    "Static rules over /repo's source: (R1) FORWARD — every delegating call inside each model-matrix entry point passes the "
    "caller's own drop_rows set; (R2) row removal in the drop path uses positional primitives only and each drop_rows() "
    "registration keeps exactly the rows NOT listed (idiom + polarity); (R3) every encoder (encoder= closures and _encode_* "
    "overrides) applies drop_rows to the values it encodes on every returning path; (R4) _check_for_nulls handles every "
    "NAAction member with the right effect (IGNORE returns before searching, RAISE raises iff nulls, DROP only adds the null "
    "positions to the shared set); (R5) the set handed to _evaluate_factor is the caller's object and the builders get "
    "sorted() of it; (R6) find_nulls/drop_rows registries agree; (R7) find_nulls leaf implementations select null positions "
    "with even negation parity; (R8) row counts in functions taking drop_rows subtract len(drop_rows). Decides these "
    "structural necessary conditions, not the equality of removed rows with null rows for all data."
)
ASSUMPTIONS = [
    "pandas .iloc / Index.delete / numpy.delete remove by position; Series.drop(index=...) / Index.drop remove by label",
    "isnull/isna/is_null/numpy.isnan are null tests; flatnonzero/arg_true return the positions of true entries",
    "CPython ast as the definition of syntax",
]


# ----------------------------------------------------------------------------- R1
def r1(ctx):
    shared.forward_rule(ctx, "C06.R1", "drop_rows")
    # "no drop set given" is None on every entry point — a mutable default would be shared by all calls of the process
    P = ctx.project
    for fi in shared.entry_points(P):
        if "drop_rows" not in param_names(fi.node):
            continue
        a = fi.node.args
        pos = list(a.posonlyargs) + list(a.args)
        defaults = dict(zip([p.arg for p in pos][len(pos) - len(a.defaults):], a.defaults))
        defaults.update({k.arg: d for k, d in zip(a.kwonlyargs, a.kw_defaults) if d is not None})
        d = defaults.get("drop_rows")
        ctx.look()
        ctx.check(d is not None and isinstance(d, ast.Constant) and d.value is None, "C06.R1", f"{fi.qualname}: `drop_rows` defaults to None", fi.where,
                  ctx.construct(fi, text="drop_rows default"),
                  f"default is `{norm(d) if d is not None else 'missing'}`: a literal set would collect the dropped rows of every earlier call and drop them again from later data")


# ----------------------------------------------------------------------------- helpers
def drop_path_functions(P: Project) -> List[FunctionInfo]:
    """Functions on the row-drop path: drop_rows() registrations, encoder= closures, _encode_* and
    _combine_columns of every materializer."""
    out = list(P.registrations(f"{NULLS}.drop_rows"))
    out += encoder_closures(P)
    for c in [P.cls(MAT)] + P.subclasses(MAT):
        for m in ("_encode_constant", "_encode_numerical", "_encode_categorical", "_combine_columns"):
            if m in c.methods:
                out.append(c.methods[m])
    return out


def encoder_closures(P: Project) -> List[FunctionInfo]:
    """Functions stored in the ``encoder=`` slot of a FactorValues(...) construction."""
    out = []
    for f in P.functions.values():
        for c in walk_no_nested(f.node):
            if isinstance(c, ast.Call) and (dotted(c.func) or "").split(".")[-1] == "FactorValues":
                e = kwarg(c, "encoder")
                if isinstance(e, ast.Name):
                    q = f"{f.qualname}.<locals>.{e.id}"
                    if q in P.functions and P.functions[q] not in out:
                        out.append(P.functions[q])
    return out


def label_removals(fn: ast.AST) -> List[ast.AST]:
    """Label-based removal constructs: X.drop(index=...)/X.drop(labels)/X.drop(Y.index[...]),
    Index.difference(...), X.loc[...] used to select survivors by label, reindex."""
    hits = []
    for n in ast.walk(fn):
        if isinstance(n, ast.Call) and isinstance(n.func, ast.Attribute):
            a = n.func.attr
            if a == "drop":
                if kwarg(n, "columns") is not None and kwarg(n, "index") is None and not n.args:
                    continue  # column removal, not rows
                hits.append(n)
            elif a in ("difference", "reindex", "drop_duplicates") and _mentions_index(n):
                hits.append(n)
        elif isinstance(n, ast.Subscript) and isinstance(n.value, ast.Attribute) and n.value.attr == "loc":
            hits.append(n)
    return hits


def _mentions_index(n: ast.AST) -> bool:
    return any(isinstance(x, ast.Attribute) and x.attr == "index" for x in ast.walk(n))


# ----------------------------------------------------------------------------- R2
def r2(ctx):
    P = ctx.project
    fns = drop_path_functions(P)
    ctx.floor("C06.R2", len(fns), 12, "functions on the row-drop path")
    for f in fns:
        ctx.look()
        hits = label_removals(f.node)
        inst = f"{f.qualname}[{first_param_annotation(f)}] removes rows by position only"
        if hits:
            for h in hits:
                ctx.fail("C06.R2", inst, f.module.line(h), ctx.construct(f, h),
                         "label-based row removal on the drop path: every row carrying the same index label is removed "
                         "(or the call raises) when the index is not unique")
        else:
            ctx.ok("C06.R2", inst, f.where)
    # positive fixture: the matcher must still recognise the label-based idioms
    fx = os.path.join(VERIF, "fixtures", "label_removal.py")
    tree = ast.parse(open(fx).read())
    n = sum(len(label_removals(fn)) for fn in tree.body if isinstance(fn, ast.FunctionDef))
    if n < 4:
        raise AnalysisError(f"C06.R2 fixture: label-removal matcher found {n} of 4 known idioms")
    # per-registration idiom + polarity
    regs = P.registrations(f"{NULLS}.drop_rows")
    ctx.floor("C06.R2", len(regs), 5, "drop_rows() registrations")
    for f in regs:
        ctx.look()
        verdict = removal_polarity(f)
        inst = f"drop_rows[{first_param_annotation(f)}] keeps exactly the rows not listed"
        ctx.check(verdict is None, "C06.R2", inst, f.where,
                  ctx.construct(f"{NULLS}.drop_rows[{first_param_annotation(f)}]", text="removal idiom"),
                  verdict or "")


def removal_polarity(f: FunctionInfo) -> Optional[str]:
    """None if the body is one of the recognised positional idioms with the right polarity;
    otherwise a description of what is wrong."""
    fn = f.node
    params = param_names(fn)
    if len(params) < 2:
        return "drop_rows implementation must take (values, indices)"
    vals, idx = params[0], params[1]
    rets = returns_of(fn)
    if not rets:
        return "no return"
    idx_names = derived_names(fn, [idx])
    ok_any = False
    for r in rets:
        e = inline_locals(r.value, fn)
        v = _positional_ok(e, fn, vals, idx_names)
        if v is not None:
            return v
        ok_any = True
    return None if ok_any else "no recognised removal"


def _positional_ok(e: ast.AST, fn: ast.AST, vals: str, idx_names: set) -> Optional[str]:
    e = strip_casts(e)
    # (a) [v for i, v in enumerate(values) if i not in indices]
    if isinstance(e, ast.ListComp) and len(e.generators) == 1:
        g = e.generators[0]
        if (isinstance(g.iter, ast.Call) and dotted(g.iter.func) == "enumerate" and isinstance(g.target, ast.Tuple)
                and len(g.target.elts) == 2 and all(isinstance(x, ast.Name) for x in g.target.elts)):
            i, v = g.target.elts[0].id, g.target.elts[1].id
            if not (isinstance(e.elt, ast.Name) and e.elt.id == v):
                return "list removal must yield the enumerated value itself"
            if len(g.ifs) != 1:
                return "list removal must filter on the enumerate index exactly once"
            t, neg = count_negations(g.ifs[0])
            if not (isinstance(t, ast.Compare) and len(t.ops) == 1 and isinstance(t.left, ast.Name) and t.left.id == i
                    and mentions(t.comparators[0], idx_names)):
                return f"list removal filter `{norm(g.ifs[0])}` does not test the enumerate index against the indices"
            keep_if_not_in = isinstance(t.ops[0], ast.NotIn) ^ (neg % 2 == 1)
            if not isinstance(t.ops[0], (ast.In, ast.NotIn)):
                return f"list removal filter `{norm(g.ifs[0])}` is not a membership test"
            return None if keep_if_not_in else "polarity inverted: keeps the rows that should be dropped"
    # (b) numpy.delete(values, indices, axis=0)
    if isinstance(e, ast.Call) and (dotted(e.func) or "").endswith("delete") and len(e.args) >= 2:
        if not mentions(e.args[1], idx_names):
            return "numpy.delete is not given the indices"
        ax = kwarg(e, "axis") or (e.args[2] if len(e.args) > 2 else None)
        if ax is None or not (isinstance(ax, ast.Constant) and ax.value == 0):
            return "numpy.delete must remove along axis=0 (rows)"
        return None
    # (c) values.iloc[numpy.delete(numpy.arange(n), indices)]  /  values.iloc[mask]
    if isinstance(e, ast.Subscript) and isinstance(e.value, ast.Attribute) and e.value.attr == "iloc":
        s = e.slice
        if isinstance(s, ast.Call) and (dotted(s.func) or "").endswith("delete") and len(s.args) >= 2:
            a0 = s.args[0]
            if not (isinstance(a0, ast.Call) and (dotted(a0.func) or "").endswith("arange")):
                return "iloc positional removal must delete from arange(n)"
            if not mentions(s.args[1], idx_names):
                return "iloc positional removal is not given the indices"
            return None
        return _mask_ok(s, fn, idx_names)
    # (d) values[mask] with mask = ones(bool); mask[indices] = False
    if isinstance(e, ast.Subscript) and isinstance(e.value, ast.Name):
        return _mask_ok(e.slice, fn, idx_names)
    if isinstance(e, ast.Name):
        # returned a local assigned several times (e.g. masked = values[mask]; masked = masked.tocsc())
        cands = [v for n, v, _ in assignments(fn) if n == e.id]
        for v in cands:
            v = inline_locals(v, fn, depth=2)
            if isinstance(v, ast.Subscript):
                r = _positional_ok(v, fn, vals, idx_names)
                return r
        return f"cannot see how `{e.id}` is derived"
    # (e) narwhals: frame.with_row_index(tmp).filter(~col(tmp).is_in(indices))[name]
    filt = [c for c in ast.walk(e) if isinstance(c, ast.Call) and isinstance(c.func, ast.Attribute) and c.func.attr == "filter"]
    if filt:
        c = filt[0]
        if not any(isinstance(x, ast.Call) and isinstance(x.func, ast.Attribute) and x.func.attr == "with_row_index"
                   for x in ast.walk(c.func.value)):
            return "filter-based removal must filter on a generated row index (with_row_index)"
        t, neg = count_negations(c.args[0]) if c.args else (None, 0)
        if not (isinstance(t, ast.Call) and isinstance(t.func, ast.Attribute) and t.func.attr == "is_in"
                and t.args and mentions(t.args[0], idx_names)):
            return "filter-based removal must test the row index with is_in(indices)"
        return None if neg % 2 == 1 else "polarity inverted: keeps the rows that should be dropped"
    return f"removal idiom not recognised as positional: `{norm(e)[:100]}`"


def _mask_ok(s: ast.AST, fn: ast.AST, idx_names: set) -> Optional[str]:
    t, neg = count_negations(s)
    if not isinstance(t, ast.Name):
        return f"subscript `{norm(s)[:80]}` is not a boolean mask variable"
    mask = t.id
    init = [v for n, v, _ in assignments(fn) if n == mask]
    if len(init) != 1 or not isinstance(init[0], ast.Call):
        return f"mask `{mask}` must be initialised once"
    ctor = (dotted(init[0].func) or "").split(".")[-1]
    if ctor not in ("ones", "zeros"):
        return f"mask `{mask}` must be numpy.ones/zeros(..., dtype=bool)"
    stores = [n for n in walk_no_nested(fn) if isinstance(n, ast.Assign) and any(
        isinstance(tg, ast.Subscript) and isinstance(tg.value, ast.Name) and tg.value.id == mask for tg in n.targets)]
    if len(stores) != 1:
        return f"mask `{mask}` must be updated exactly once at the indices"
    tg = [tg for tg in stores[0].targets if isinstance(tg, ast.Subscript)][0]
    if not mentions(tg.slice, idx_names):
        return f"mask `{mask}` is not updated at the indices"
    val = stores[0].value
    if not (isinstance(val, ast.Constant) and isinstance(val.value, bool)):
        return f"mask `{mask}` must be set to a boolean literal at the indices"
    keep_default = ctor == "ones"
    dropped_marked = val.value is False if keep_default else val.value is True
    if not dropped_marked:
        return f"mask `{mask}` is set to its default value at the indices (no row is removed)"
    keeps_unlisted = keep_default ^ (neg % 2 == 1)
    return None if keeps_unlisted else "polarity inverted: keeps the rows that should be dropped"


# ----------------------------------------------------------------------------- R3
def _consumes_drop(P: Project, f: FunctionInfo, n: ast.AST, names: set) -> bool:
    """Is ``n`` a row-removal primitive applied with the drop sequence?"""
    if isinstance(n, ast.Call):
        q = P.resolve_in(f, n.func) or ""
        tail = q.split(".")[-1]
        if q == f"{NULLS}.drop_rows" or (tail == "delete" and (q.startswith("numpy") or isinstance(n.func, ast.Attribute))):
            idx = kwarg(n, "indices") or kwarg(n, "obj") or (n.args[1] if len(n.args) > 1 else (n.args[0] if tail == "delete" and n.args and not q.startswith("numpy") else None))
            return idx is not None and mentions(idx, names)
    return False


def r3(ctx):
    P = ctx.project
    subjects = encoder_closures(P)
    ctx.floor("C06.R3", len(subjects), 2, "encoder= closures")
    n_enc = 0
    for c in P.subclasses(MAT):
        for m in ("_encode_numerical", "_encode_categorical"):
            if m in c.methods:
                subjects.append(c.methods[m])
                n_enc += 1
    ctx.floor("C06.R3", n_enc, 4, "_encode_numerical/_encode_categorical overrides")
    for f in subjects:
        ctx.look()
        inst = f"{f.qualname} applies drop_rows to the values it encodes on every returning path"
        if "drop_rows" not in param_names(f.node):
            ctx.fail("C06.R3", inst, f.where, ctx.construct(f, text="signature"), "encoder has no drop_rows parameter")
            continue
        names = derived_names(f.node, ["drop_rows"])

        def prune(test, _n=names):
            # assume a non-empty drop sequence
            t, neg = count_negations(test)
            if isinstance(t, ast.Name) and t.id == "drop_rows":
                return neg % 2 == 0
            return None

        cfg = CFG(f.node, prune=prune)
        consumed_into = set()

        def gate(st):
            for n in header_walk(st):
                if _consumes_drop(P, f, n, {"drop_rows"}):
                    if isinstance(st, ast.Assign):
                        for t in st.targets:
                            if isinstance(t, ast.Name):
                                consumed_into.add(t.id)
                    elif isinstance(st, ast.Return):
                        consumed_into.add("<return>")
                    return True
            return False

        w = cfg.must_pass(gate)
        if w is not None:
            ctx.fail("C06.R3", inst, f.where, ctx.construct(f, text="path without row removal"),
                     "a returning path encodes the values without removing the rows listed in drop_rows (row count differs "
                     "from every other column)", w)
            continue
        # the reduced values must be what is encoded / returned
        used = "<return>" in consumed_into
        flow = derived_names(f.node, consumed_into - {"<return>"})
        for r in returns_of(f.node):
            if r.value is not None and mentions(r.value, flow):
                used = True
        ctx.check(used, "C06.R3", inst, f.where, ctx.construct(f, text="result of row removal unused"),
                  "rows are removed into a value that does not reach the encoder's result")
    # constants: the generated column has nrows - len(drop_rows) rows
    for c in P.subclasses(MAT):
        if "_encode_constant" in c.methods:
            f = c.methods["_encode_constant"]
            ctx.look()
            ok = _counts_account_for_drop(f)
            ctx.check(not ok, "C06.R3", f"{f.qualname} sizes the constant column as nrows - len(drop_rows)", f.where,
                      ctx.construct(f, text="row count"), "; ".join(ok))


def _row_count_exprs(fn: ast.AST) -> List[ast.AST]:
    out = []
    for n in walk_no_nested(fn):
        d = dotted(n) if isinstance(n, ast.Attribute) else None
        if d == "self.nrows":
            out.append(n)
        elif isinstance(n, ast.Subscript) and dotted(n.value) in ("self.data.shape", "self.data_context.shape") and isinstance(
                n.slice, ast.Constant) and n.slice.value == 0:
            out.append(n)
        elif isinstance(n, ast.Call) and dotted(n.func) == "len" and n.args and dotted(n.args[0]) in ("self.data", "self.data_context"):
            out.append(n)
    return out


def _counts_account_for_drop(f: FunctionInfo) -> List[str]:
    """Messages for row-count expressions that are not the left operand of ``- len(drop_rows)``."""
    P = f.module.project
    msgs = []
    exprs = _row_count_exprs(f.node)
    if not exprs and f.name == "_encode_constant":
        msgs.append("no row-count expression found (expected nrows - len(drop_rows))")
    for e in exprs:
        par = P.parent(e)
        ok = (isinstance(par, ast.BinOp) and isinstance(par.op, ast.Sub) and par.left is e
              and isinstance(par.right, ast.Call) and dotted(par.right.func) == "len" and par.right.args
              and isinstance(par.right.args[0], ast.Name) and par.right.args[0].id == "drop_rows")
        if not ok:
            msgs.append(f"`{norm(e)}` at line {e.lineno} is the undropped row count (not reduced by len(drop_rows))")
    return msgs


# ----------------------------------------------------------------------------- R4
def r4(ctx):
    P = ctx.project
    f = P.func(MAT + "._check_for_nulls")
    enum = P.cls("formulaic.materializers.types.enums.NAAction")
    members = [k for k in enum.assigns]
    ctx.floor("C06.R4", len(members), 3, "NAAction members")
    fn = f.node
    cfg = CFG(fn)
    find_calls = [st for st in cfg.stmts() if any((P.resolve_in(f, c.func) or "") == f"{NULLS}.find_nulls" for c in header_calls(st))]
    if not find_calls:
        raise AnalysisError("C06.R4: _check_for_nulls no longer calls find_nulls")
    nulls_var = None
    for st in find_calls:
        if isinstance(st, ast.Assign) and isinstance(st.targets[0], ast.Name):
            nulls_var = st.targets[0].id
    # what the function does under each policy, read off its path summaries (if/elif chains, early returns, nested else
    # branches and conditional expressions all give the same summaries)
    try:
        outs = sym.outcomes(fn)
    except sym.Unmodelled as e:
        raise AnalysisError(f"C06.R4: _check_for_nulls cannot be summarised: {e}")
    ATOM = {m: f"na_action is NAAction.{m}" for m in members}
    tested = {norm(c) for o in outs for c, _ in o.conds}

    def under(m, extra=None):
        facts = {a: (k == m) for k, a in ATOM.items()}
        facts.update({t: False for t in tested if t.startswith("except_")})
        facts.update(extra or {})
        return sym.select(outs, facts)

    def drop_effects(o):
        return [e for e in o.effects if any(isinstance(n, ast.Name) and n.id == "drop_rows" for n in ast.walk(e))]

    def searches(o):
        return any("find_nulls(" in norm(c) for c, _ in o.conds) or any("find_nulls(" in norm(e) for e in o.effects) \
            or any("find_nulls(" in norm(v) for v in o.env.values())   # … or was bound on the way, even if never looked at
    for m in members:
        ctx.look()
        ctx.check(ATOM[m] in tested, "C06.R4", f"_check_for_nulls handles NAAction.{m}", f.where,
                  ctx.construct(f, text=f"NAAction.{m}"), f"no branch tests `na_action is NAAction.{m}`; that policy falls "
                  f"through to another policy's behaviour or to the error branch")
    if "IGNORE" in members and ATOM["IGNORE"] in tested:
        ig = under("IGNORE")
        ok = bool(ig) and all(o.kind in ("return", "fall") and not o.effects and not searches(o) for o in ig)
        ctx.check(ok, "C06.R4", "IGNORE returns before any null search", f.where,
                  ctx.construct(f, text="IGNORE"), "the IGNORE policy must return before find_nulls is consulted (every row is kept and "
                  "null-invalid constants must not raise)")
    if "RAISE" in members and ATOM["RAISE"] in tested:
        rs = under("RAISE")
        nul = sorted({norm(c) for o in rs for c, _ in o.conds if "find_nulls(" in norm(c)})
        ok = len(nul) == 1 and nul[0] in ("find_nulls(values)", "len(find_nulls(values)) > 0", "len(find_nulls(values)) == 0")
        if ok:
            nonempty = nul[0] != "len(find_nulls(values)) == 0"
            some = under("RAISE", {nul[0]: nonempty})
            none_ = under("RAISE", {nul[0]: not nonempty})
            ok = bool(some) and all(o.kind == "raise" for o in some) and bool(none_) and all(o.kind in ("return", "fall") for o in none_)
        ctx.check(ok, "C06.R4", "RAISE raises iff the null set is non-empty", f.where, ctx.construct(f, text="RAISE"),
                  "under the RAISE policy the `raise` must be guarded by exactly the non-emptiness of the found null positions")
        ctx.check(not any(drop_effects(o) for o in rs), "C06.R4", "RAISE does not touch the drop set", f.where,
                  ctx.construct(f, text="RAISE mutates drop_rows"), "the RAISE policy must not alter the caller's drop set")
    if "DROP" in members and ATOM["DROP"] in tested:
        dr = under("DROP")
        good = bool(dr) and all(o.kind in ("return", "fall") and [norm(e) for e in drop_effects(o)] == ["drop_rows.update(find_nulls(values))"] for o in dr)
        ctx.check(good, "C06.R4", "DROP adds exactly the found null positions to the shared set", f.where,
                  ctx.construct(f, text="DROP update"), "under the DROP policy the only effect must be "
                  f"`drop_rows.update(<found nulls>)`; found: {[[norm(e)[:70] for e in drop_effects(o)] for o in dr]}")
        others = [norm(e)[:60] for o in outs if o not in dr for e in drop_effects(o)]
        ctx.check(not others, "C06.R4", "the drop set is only written under DROP", f.where,
                  ctx.construct(f, text="drop_rows written outside DROP"),
                  f"drop_rows is written outside the DROP branch: {others}")
    # a failure of the null search itself (a null constant, a container it cannot inspect) is reported, never swallowed
    handled = [o for o in outs if any(pol and norm(c).startswith("except_") for c, pol in o.conds)]
    ctx.check(all(o.kind == "raise" for o in handled), "C06.R4", "an error raised while searching for nulls is re-raised", f.where, ctx.construct(f, text="handler re-raises"),
              "an exception handler of _check_for_nulls returns normally: a value whose nulls cannot be determined (or a null constant) is then treated as free "
              "of nulls — rows that should be dropped or reported are kept silently")
    unknown = under(None)
    ctx.check(bool(unknown) and all(o.kind == "raise" for o in unknown), "C06.R4", "an unknown policy is rejected", f.where, ctx.construct(f, text="unknown policy"),
              "a value of na_action that is none of the NAAction members must raise, not fall through to another policy's behaviour")
    # the null search is applied to the evaluated values
    for st in find_calls:
        for c in header_calls(st):
            if (P.resolve_in(f, c.func) or "") == f"{NULLS}.find_nulls":
                ctx.check(bool(c.args) and isinstance(c.args[0], ast.Name) and c.args[0].id == "values", "C06.R4",
                          "find_nulls is applied to the evaluated factor values", f.module.line(c), ctx.construct(f, c),
                          "null discovery must inspect the evaluated factor values")
    # caller: _evaluate_factor passes the shared set and the spec's policy
    ef = P.func(MAT + "._evaluate_factor")
    calls = [c for c in ast.walk(ef.node) if isinstance(c, ast.Call) and isinstance(c.func, ast.Attribute) and c.func.attr == "_check_for_nulls"]
    ctx.floor("C06.R4", len(calls), 1, "_check_for_nulls call sites")
    for c in calls:
        a_drop = arg_for(c, fn, "drop_rows", bound_self=True)
        a_val = arg_for(c, fn, "values", bound_self=True)
        a_na = arg_for(c, fn, "na_action", bound_self=True)
        ctx.check(isinstance(a_drop, ast.Name) and a_drop.id == "drop_rows", "C06.R4",
                  "_evaluate_factor hands the shared drop set to the null check", ef.module.line(c), ctx.construct(ef, c),
                  "the null check must update the shared drop set itself")
        ctx.check(a_na is not None and norm(a_na) == "spec.na_action", "C06.R4", "the null check uses the spec's na_action",
                  ef.module.line(c), ctx.construct(ef, c), f"na_action passed is `{norm(a_na) if a_na else None}`")
        ctx.check(isinstance(a_val, ast.Name) and a_val.id == "value", "C06.R4", "the null check sees the evaluated value",
                  ef.module.line(c), ctx.construct(ef, c), f"values passed is `{norm(a_val) if a_val else None}`")
        # and the check happens before the value is cached, on every path that caches
        cfg2 = CFG(ef.node)
        st_c = P.enclosing_stmt(c)
        stores = [st for st in cfg2.stmts() if isinstance(st, ast.Assign) and any(
            isinstance(t, ast.Subscript) and dotted(t.value) == "self.factor_cache" for t in st.targets)]
        ctx.floor("C06.R4", len(stores), 1, "factor_cache stores")
        for s in stores:
            ctx.check(cfg2.dominates(st_c, s), "C06.R4", "nulls are checked before an evaluated factor is cached",
                      ef.module.line(s), ctx.construct(ef, s), "a factor can be cached without its nulls having been recorded")


def _is_nonempty_test(t: ast.Compare) -> bool:
    # len(x) > 0, len(x) != 0, len(x) >= 1
    if isinstance(t.left, ast.Call) and dotted(t.left.func) == "len" and isinstance(t.comparators[0], ast.Constant):
        v = t.comparators[0].value
        return (isinstance(t.ops[0], (ast.Gt, ast.NotEq)) and v == 0) or (isinstance(t.ops[0], ast.GtE) and v == 1)
    return False


def _inside(P: Project, node: ast.AST, body: List[ast.stmt]) -> bool:
    ids = {id(x) for st in body for x in ast.walk(st)}
    return id(node) in ids


# ----------------------------------------------------------------------------- R5
def r5(ctx):
    P = ctx.project
    f = P.func(MAT + ".get_model_matrix")
    fn = f.node

    def prune(test):
        # analyse under the assumption "the caller supplied a set" (drop_rows is not None)
        t, neg = count_negations(test)
        if (isinstance(t, ast.Compare) and len(t.ops) == 1 and isinstance(t.left, ast.Name) and t.left.id == "drop_rows"
                and isinstance(t.comparators[0], ast.Constant) and t.comparators[0].value is None
                and isinstance(t.ops[0], (ast.Is, ast.IsNot))):
            return isinstance(t.ops[0], ast.IsNot) ^ (neg % 2 == 1)
        return None

    cfg = CFG(fn, prune=prune)
    evals = [st for st in cfg.stmts() for c in header_calls(st)
             if isinstance(c.func, ast.Attribute) and c.func.attr == "_evaluate_factor"]
    ctx.floor("C06.R5", len(evals), 1, "_evaluate_factor call statements")
    ef = P.func(MAT + "._evaluate_factor").node
    for st in evals:
        for c in header_calls(st):
            if not (isinstance(c.func, ast.Attribute) and c.func.attr == "_evaluate_factor"):
                continue
            ctx.look()
            a = arg_for(c, ef, "drop_rows", bound_self=True)
            inst = "the set updated during factor evaluation is the caller's own drop_rows object"
            if not isinstance(a, ast.Name):
                ctx.fail("C06.R5", inst, f.module.line(c), ctx.construct(f, c),
                         f"_evaluate_factor receives `{norm(a) if a else None}` (a fresh object): rows found null are not reported "
                         f"back to the caller")
                continue
            bad = _alias_breaks(cfg, st, a.id, "drop_rows", set())
            ctx.check(not bad, "C06.R5", inst, f.module.line(c), ctx.construct(f, text=bad[0] if bad else ""),
                      f"`{a.id}` does not alias the caller's set whenever one is supplied: {bad}")
    # builders receive sorted(<that same set>) computed after evaluation
    builds = [c for c in ast.walk(fn) if isinstance(c, ast.Call) and isinstance(c.func, ast.Attribute) and c.func.attr == "_build_model_matrix"]
    ctx.floor("C06.R5", len(builds), 1, "_build_model_matrix calls")
    bfn = P.func(MAT + "._build_model_matrix").node
    for c in builds:
        ctx.look()
        a = arg_for(c, bfn, "drop_rows", bound_self=True)
        st = P.enclosing_stmt(c)
        inst = "the builders receive sorted(drop set) frozen after all factors were evaluated"
        if not isinstance(a, ast.Name):
            ctx.fail("C06.R5", inst, f.module.line(c), ctx.construct(f, c), f"drop_rows argument is `{norm(a) if a else None}`")
            continue
        defs = reaching_defs(cfg, st, a.id)
        ok = bool(defs)
        why = ""
        for d in defs:
            if d == ENTRY:
                ok, why = False, "the raw parameter (unsorted, possibly None) reaches the builders"
                break
            v = d.value if isinstance(d, (ast.Assign, ast.AnnAssign)) else None
            if not (isinstance(v, ast.Call) and dotted(v.func) == "sorted" and len(v.args) == 1 and not v.keywords
                    and isinstance(v.args[0], ast.Name)):
                ok, why = False, f"reaching definition `{stmt_text(d)}` is not sorted(<drop set>)"
                break
            if _alias_breaks(cfg, d, v.args[0].id, "drop_rows", set()):
                ok, why = False, "the sorted sequence is not computed from the shared drop set"
                break
            if not all(_after_all_iterations(P, cfg, e, d) for e in evals):
                ok, why = False, "the drop sequence is frozen before factor evaluation has finished"
                break
        ctx.check(ok, "C06.R5", inst, f.module.line(c), ctx.construct(f, c), why)


def _after_all_iterations(P: Project, cfg: CFG, evalst: ast.stmt, d: ast.stmt) -> bool:
    """``d`` runs only after the statement ``evalst`` has run for every iteration of its enclosing loops."""
    outer = evalst
    n = P.parent(evalst)
    while n is not None and not isinstance(n, (ast.FunctionDef, ast.Lambda)):
        if isinstance(n, (ast.For, ast.While)):
            outer = n
        n = P.parent(n)
    inside = {id(x) for x in ast.walk(outer)} if outer is not evalst else set()
    return cfg.dominates(outer, d) and id(d) not in inside and d is not outer


def _alias_breaks(cfg: CFG, at: ast.stmt, name: str, param: str, seen: set) -> List[str]:
    """Reaching definitions of ``name`` at ``at`` that do not evaluate to the parameter object
    whenever the parameter is not None."""
    bad = []
    for d in reaching_defs(cfg, at, name):
        if d == ENTRY:
            if name != param:
                bad.append(f"`{name}` is not the parameter")
            continue
        if id(d) in seen:
            continue
        seen.add(id(d))
        v = d.value if isinstance(d, (ast.Assign, ast.AnnAssign)) else None
        v = strip_casts(v) if v is not None else None
        src = _alias_source(v, param)
        if src is None:
            bad.append(stmt_text(d))
        else:
            bad += _alias_breaks(cfg, d, src, param, seen)
    return bad


def _alias_source(v: Optional[ast.AST], param: str) -> Optional[str]:
    """Name that ``v`` evaluates to under the assumption `param is not None`, or None."""
    if isinstance(v, ast.Name):
        return v.id
    if isinstance(v, ast.IfExp):
        t = v.test
        if (isinstance(t, ast.Compare) and len(t.ops) == 1 and isinstance(t.left, ast.Name)
                and isinstance(t.comparators[0], ast.Constant) and t.comparators[0].value is None):
            if isinstance(t.ops[0], ast.IsNot) and isinstance(v.body, ast.Name) and v.body.id == t.left.id:
                return v.body.id
            if isinstance(t.ops[0], ast.Is) and isinstance(v.orelse, ast.Name) and v.orelse.id == t.left.id:
                return v.orelse.id
    return None


# ----------------------------------------------------------------------------- R6
def r6(ctx):
    P = ctx.project
    fr = {first_param_annotation(f) for f in P.registrations(f"{NULLS}.find_nulls")}
    dr = {first_param_annotation(f) for f in P.registrations(f"{NULLS}.drop_rows")}
    ctx.floor("C06.R6", len(fr), 5, "find_nulls registrations")
    ctx.floor("C06.R6", len(dr), 5, "drop_rows registrations")
    for t in sorted(dr):
        ctx.look()
        ctx.check(t in fr, "C06.R6", f"type {t} registered for drop_rows is registered for find_nulls", "",
                  f"{NULLS}:drop_rows[{t}]", f"rows of a `{t}` can be dropped but its nulls are never found")
    for base in ("find_nulls", "drop_rows"):
        f = P.func(f"{NULLS}.{base}")
        body = [s for s in f.node.body if not (isinstance(s, ast.Expr) and isinstance(s.value, ast.Constant))]
        ctx.check(len(body) >= 1 and isinstance(body[-1], ast.Raise) and not returns_of(f.node), "C06.R6",
                  f"{base} base implementation rejects unregistered types", f.where, ctx.construct(f, text="fallback"),
                  "the singledispatch fallback must raise for unregistered value types rather than silently return")


# ----------------------------------------------------------------------------- R7
NULL_TESTS = {"isnull", "isna", "is_null", "isnan"}
POSITIONS = {"flatnonzero", "arg_true"}


REDUCTIONS = {"sum", "nansum", "mean", "nanmean", "prod", "nanprod", "cumsum", "cumprod", "dot", "matmul", "max", "min", "amax", "amin", "std", "var", "average", "trace"}


def r7(ctx):
    P = ctx.project
    regs = P.registrations(f"{NULLS}.find_nulls")
    leaves = 0
    for f in regs:
        fn = f.node
        ann = first_param_annotation(f)
        for r in returns_of(fn):
            e = inline_locals(r.value, fn)
            pos = [c for c in ast.walk(e) if isinstance(c, ast.Call) and (dotted(c.func) or getattr(c.func, "attr", "")).split(".")[-1] in POSITIONS]
            if not pos:
                continue
            leaves += 1
            ctx.look()
            c = pos[0]
            arg = c.args[0] if (c.args and not isinstance(c.func, ast.Attribute)) or (c.args and dotted(c.func)) else (
                c.func.value if isinstance(c.func, ast.Attribute) else None)
            if isinstance(c.func, ast.Attribute) and c.func.attr == "arg_true":
                arg = c.func.value
            neg_total, cur = 0, arg
            found = False
            for _ in range(12):
                cur, n = count_negations(cur)
                neg_total += n
                if isinstance(cur, ast.Call):
                    name = (dotted(cur.func) or getattr(cur.func, "attr", "")).split(".")[-1]
                    if name in NULL_TESTS:
                        found = True
                        break
                    if name in ("any",) and cur.args:  # numpy.any(x, axis=1): "some column of the ROW is null"
                        ax = kwarg(cur, "axis") or (cur.args[1] if len(cur.args) > 1 else None)
                        if not (isinstance(ax, ast.Constant) and ax.value in (1, -1)):
                            break  # reduces over the wrong axis (or over everything): positions are not row positions
                        cur = cur.args[0]
                        continue
                    if name == "all":
                        break  # all-null is not "has a null"
                    if isinstance(cur.func, ast.Attribute) and name in ("to_numpy", "astype", "to_list"):
                        cur = cur.func.value
                        continue
                    break
                if isinstance(cur, ast.Attribute) and cur.attr in ("values", "array"):
                    cur = cur.value
                    continue
                break
            if found:
                # the null test looks at the entries themselves: an arithmetic reduction underneath it (`isnan(sum(row))`) also reports
                # rows without any null (inf + -inf) and is not "has a null entry"
                tested = (cur.args[0] if cur.args else None) if not (isinstance(cur.func, ast.Attribute) and not dotted(cur.func)) else cur.func.value
                if isinstance(cur.func, ast.Attribute) and not cur.args:
                    tested = cur.func.value
                agg = [norm(x)[:60] for x in (ast.walk(tested) if tested is not None else []) if isinstance(x, ast.Call)
                       and (dotted(x.func) or getattr(x.func, "attr", "")).split(".")[-1] in REDUCTIONS]
                ctx.check(not agg, "C06.R7", f"find_nulls[{ann}] tests the entries themselves for nullness", f.module.line(r), ctx.construct(f, text=f"entries {ann}"),
                          f"the null test is applied to an aggregate `{agg[0] if agg else ''}`: a row whose entries cancel to NaN (inf − inf) would be reported although none is null")
            inst = f"find_nulls[{ann}] returns the positions of null entries"
            ctx.check(found and neg_total % 2 == 0, "C06.R7", inst, f.module.line(r), ctx.construct(f, r.value),
                      ("null test negated an odd number of times: the non-null rows are reported as null" if found else
                       f"position extraction is not fed by a null test (isnull/isna/is_null/isnan): `{norm(arg)[:80]}`"))
    ctx.floor("C06.R7", leaves, 4, "leaf null tests")
    # containers delegate and union
    for f in regs:
        ann = first_param_annotation(f)
        if ann == "dict":
            ctx.look()
            rec = [c for c in ast.walk(f.node) if isinstance(c, ast.Call) and dotted(c.func) == "find_nulls"]
            upd = [c for c in ast.walk(f.node) if isinstance(c, ast.Call) and isinstance(c.func, ast.Attribute) and c.func.attr in ("update", "union")]
            # the iteration over all values: a loop or a comprehension / generator over values(.values())
            its = [n.iter for n in ast.walk(f.node) if isinstance(n, ast.For)] + \
                  [g.iter for n in ast.walk(f.node) if isinstance(n, (ast.GeneratorExp, ast.ListComp, ast.SetComp)) for g in n.generators]
            pv = param_names(f.node)[0]
            ok = bool(rec) and bool(upd) and bool(its) and norm(its[0]) in (f"{pv}.values()", pv + ".values()") and not any(
                isinstance(n, (ast.GeneratorExp, ast.ListComp, ast.SetComp)) and any(g.ifs for g in n.generators) for n in ast.walk(f.node))
            ctx.check(ok, "C06.R7", "find_nulls[dict] unions the nulls of every value", f.where, ctx.construct(f, text="dict"),
                      "nulls of multi-column factors must be the union over all columns")
        if ann == "list":
            ctx.look()
            rec = [c for c in ast.walk(f.node) if isinstance(c, ast.Call) and dotted(c.func) == "find_nulls"]
            ctx.check(bool(rec), "C06.R7", "find_nulls[list] delegates to find_nulls", f.where, ctx.construct(f, text="list"),
                      "list values must be searched for nulls")


# ----------------------------------------------------------------------------- R8
def r8(ctx):
    P = ctx.project
    n = 0
    for c in [P.cls(MAT)] + P.subclasses(MAT):
        for name, f in c.methods.items():
            if "drop_rows" in param_names(f.node) and name != "get_model_matrix":
                exprs = _row_count_exprs(f.node)
                if not exprs:
                    continue
                n += len(exprs)
                ctx.look(len(exprs))
                msgs = [m for m in _counts_account_for_drop(f)]
                ctx.check(not msgs, "C06.R8", f"{f.qualname}: row counts subtract len(drop_rows)", f.where,
                          ctx.construct(f, text="row count"), "; ".join(msgs))
    # one of the four row-count expressions may have been replaced by something else: that is what W2 (empty matrix rows) reports
    ctx.floor("C06.R8", n, 3, "row-count expressions in functions taking drop_rows")
    # the output index of the pandas materializer is reduced by drop_rows before ANY frame is built from it (also the zero-column frame)
    f = P.cls(PANDAS).methods["_combine_columns"]
    from .c05 import eval_output_test
    cfg = CFG(f.node, prune=lambda test: eval_output_test(test, "pandas", {}))  # the index only matters for the pandas output
    red = [st for st in cfg.stmts() if isinstance(st, ast.Assign) and norm(st.targets[0]) == "pandas_index" and "delete(drop_rows)" in norm(st.value)]
    uses = [st for st in cfg.stmts() if isinstance(st, ast.Return) and any(isinstance(x, ast.Name) and x.id == "pandas_index" for x in ast.walk(st))]
    ctx.floor("C06.R8", len(uses), 2, "frames built from the output index")
    for u in uses:
        ctx.look()
        guard = [g for g in cfg.stmts() if isinstance(g, ast.If) and norm(g.test) == "drop_rows" and any(r is x for r in red for x in g.body)]
        ok = bool(red) and bool(guard) and all(cfg.dominates(g, u) for g in guard)
        ctx.check(ok, "C06.R8", "every pandas frame is built from the index with the dropped rows removed", f.module.line(u), ctx.construct(f, text=f"index use @ {stmt_text(u, 50)}"),
                  "a frame is returned with the undropped index: a part without columns keeps all rows while the other parts lost the dropped ones")



def f1(ctx):
    """generic same-name parameter forwarding over this property's modules (see shared.generic_forwarding)."""
    from . import shared as _sh
    _sh.generic_forwarding(ctx, "C06.F1", _sh.PROPERTY_MODULES["C06"])


RULES = [("C06.R1", r1), ("C06.R2", r2), ("C06.R3", r3), ("C06.R4", r4), ("C06.R5", r5), ("C06.R6", r6), ("C06.R7", r7),
         ("C06.R8", r8), ("C06.F1", f1)]
