"""Rules shared by several properties (FORWARD over the model-matrix entry points, sibling
comparison of the two concrete materializers, ...)."""
from __future__ import annotations

import ast
from typing import Dict, List, Optional, Tuple

from ..cfg import CFG, ENTRY, EXIT
from ..core import AnalysisError, FunctionInfo, Project, arg_for, dotted, kwarg, norm, param_names
from ..util import derived_names, header_calls, mentions, strip_casts, stmt_text, assignments

MAT = "formulaic.materializers.base.FormulaMaterializer"
PANDAS = "formulaic.materializers.pandas.PandasMaterializer"
NARWHALS = "formulaic.materializers.narwhals.NarwhalsMaterializer"

DELEGATE_ATTRS = {"get_model_matrix", "_build_model_matrix"}


def relabel(ctx, rule: str, *fns):
    """Run rule functions of another property module and file their obligations under ``rule`` (a mechanism that is an anchor of
    both properties is a necessary condition of both)."""
    saved = ctx.obligations
    ctx.obligations = []
    try:
        for fn in fns:
            fn(ctx)
        for o in ctx.obligations:
            o.rule = rule
    finally:
        ctx.obligations = saved + ctx.obligations


def entry_points(project: Project) -> List[FunctionInfo]:
    """Every function of the package through which a caller asks for a model matrix: all defs named
    ``get_model_matrix`` / ``model_matrix`` that are not abstract stubs.  Discovered, with the
    hand-confirmed anchors required to be among them."""
    eps = []
    for f in project.functions.values():
        if f.name in ("get_model_matrix", "model_matrix") and isinstance(f.node, ast.FunctionDef):
            if any("abstractmethod" in d for d in f.decorators()):
                continue
            eps.append(f)
    need = [
        "formulaic.sugar.model_matrix",
        "formulaic.formula.SimpleFormula.get_model_matrix",
        "formulaic.formula.StructuredFormula.get_model_matrix",
        "formulaic.model_spec.ModelSpec.get_model_matrix",
        "formulaic.model_spec.ModelSpecs.get_model_matrix",
        MAT + ".get_model_matrix",
    ]
    have = {f.qualname for f in eps}
    for q in need:
        if q not in have:
            raise AnalysisError(f"anchor vanished: entry point {q}")
    return sorted(eps, key=lambda f: f.qualname)


def materializer_ctor_names(fn: ast.AST) -> set:
    """Local names bound to a materializer *class* (result of for_data / for_materializer)."""
    out = set()
    for name, value, _ in assignments(fn, nested=True):
        for c in ast.walk(value):
            if isinstance(c, ast.Call) and isinstance(c.func, ast.Attribute) and c.func.attr in ("for_data", "for_materializer"):
                out.add(name)
    return out


def receiver_kind(project: Project, fi: FunctionInfo, call: ast.Call) -> str:
    """'materializer' | 'spec' | 'function' for a delegating call inside entry point ``fi``."""
    if isinstance(call.func, ast.Name):
        return "function"
    recv = strip_casts(call.func.value)
    if isinstance(recv, ast.Name) and recv.id == "self" and fi.cls is not None and project.is_subclass(fi.cls.qualname, MAT):
        return "materializer"
    if isinstance(recv, ast.Call):
        if isinstance(recv.func, ast.Attribute) and recv.func.attr == "get_materializer":
            return "materializer"
        if isinstance(recv.func, ast.Name) and recv.func.id in materializer_ctor_names(fi.node):
            return "materializer"
    if isinstance(recv, ast.Name) and recv.id in materializer_ctor_names(fi.node):
        return "materializer"
    return "spec"


def callee_formals(project: Project, kind: str, attr: str) -> Tuple[ast.AST, bool]:
    if kind == "function":
        return project.func("formulaic.sugar.model_matrix").node, False
    if attr == "_build_model_matrix":
        return project.func(MAT + "._build_model_matrix").node, True
    if kind == "materializer":
        return project.func(MAT + ".get_model_matrix").node, True
    return project.func("formulaic.model_spec.ModelSpec.get_model_matrix").node, True


def delegations(project: Project, fi: FunctionInfo) -> List[ast.Call]:
    out = []
    for c in ast.walk(fi.node):
        if isinstance(c, ast.Call):
            if isinstance(c.func, ast.Attribute) and c.func.attr in DELEGATE_ATTRS:
                out.append(c)
            elif isinstance(c.func, ast.Name) and c.func.id == "model_matrix":
                out.append(c)
    return out


def forward_rule(ctx, rule: str, param: str) -> None:
    """FORWARD: inside every entry point that has formal ``param``, every delegating call binds the
    callee's ``param`` to the caller's (for ``drop_rows``: to the very same object)."""
    P = ctx.project
    n_calls = 0
    eps = [f for f in entry_points(P) if param in param_names(f.node)]
    for fi in eps:
        dn = derived_names(fi.node, [param])
        rebinding = [st for name, _, st in assignments(fi.node, nested=True) if name == param]
        for call in delegations(P, fi):
            ctx.look()
            kind = receiver_kind(P, fi, call)
            attr = call.func.attr if isinstance(call.func, ast.Attribute) else "model_matrix"
            formal_fn, bound = callee_formals(P, kind, attr)
            if param not in param_names(formal_fn):
                continue  # this callee takes the value elsewhere (e.g. data/context went to the constructor)
            n_calls += 1
            actual = arg_for(call, formal_fn, param, bound_self=bound)
            inst = f"{fi.qualname} -> .{attr}(...) [{kind}] forwards `{param}`"
            where = fi.module.line(call)
            cons = ctx.construct(fi, call)
            if actual is None:
                ctx.fail(rule, inst, where, cons,
                         f"delegating call does not pass `{param}`; the callee falls back to its default and the caller's "
                         f"value is neither honoured nor updated")
                continue
            if param == "drop_rows" and attr != "_build_model_matrix":
                same = isinstance(actual, ast.Name) and actual.id == param and not rebinding
                ctx.check(same, rule, inst, where, cons,
                          f"`{param}` must reach the callee as the caller's own set object (so that rows dropped downstream "
                          f"are reported back); got `{norm(actual)}`" + (" after a re-binding" if rebinding else ""))
            else:
                ctx.check(mentions(actual, dn), rule, inst, where, cons,
                          f"value bound to `{param}` is `{norm(actual)}`, which is not derived from the caller's `{param}`")
    ctx.floor(rule, len(eps), 5, f"entry points with `{param}`")
    ctx.floor(rule, n_calls, 7, f"delegating calls binding `{param}`")
