"""Rules shared by several properties (FORWARD over the model-matrix entry points, sibling
comparison of the two concrete materializers, ...)."""
from __future__ import annotations

import ast
from typing import Dict, List, Optional, Tuple

from ..cfg import CFG, ENTRY, EXIT
from ..core import AnalysisError, FunctionInfo, Project, arg_for, dotted, kwarg, norm, param_names, walk_no_nested, kwarg
from ..util import derived_names, header_calls, mentions, strip_casts, stmt_text, assignments

MAT = "formulaic.materializers.base.FormulaMaterializer"
PANDAS = "formulaic.materializers.pandas.PandasMaterializer"
NARWHALS = "formulaic.materializers.narwhals.NarwhalsMaterializer"

DELEGATE_ATTRS = {"get_model_matrix", "_build_model_matrix"}


def relabel(ctx, rule: str, *fns):
    """Run rule functions of another property module and file their obligations under ``rule`` (a mechanism that is an anchor of
    both properties is a necessary condition of both)."""
    saved = ctx.obligations
    ctx.obligations = []
    try:
        for fn in fns:
            fn(ctx)
        for o in ctx.obligations:
            o.rule = rule
    finally:
        ctx.obligations = saved + ctx.obligations


def relabel_parts(rule: str, *fns):
    """One closure per shared rule function, so that the views of the program are consulted for each mechanism separately."""
    def mk(fn):
        def part(ctx):
            relabel(ctx, rule, fn)
        return part
    return [mk(fn) for fn in fns]


def entry_points(project: Project) -> List[FunctionInfo]:
    """Every function of the package through which a caller asks for a model matrix: all defs named
    ``get_model_matrix`` / ``model_matrix`` that are not abstract stubs.  Discovered, with the
    hand-confirmed anchors required to be among them."""
    eps = []
    for f in project.functions.values():
        if f.name in ("get_model_matrix", "model_matrix") and isinstance(f.node, ast.FunctionDef):
            if any("abstractmethod" in d for d in f.decorators()):
                continue
            eps.append(f)
    need = [
        "formulaic.sugar.model_matrix",
        "formulaic.formula.SimpleFormula.get_model_matrix",
        "formulaic.formula.StructuredFormula.get_model_matrix",
        "formulaic.model_spec.ModelSpec.get_model_matrix",
        "formulaic.model_spec.ModelSpecs.get_model_matrix",
        MAT + ".get_model_matrix",
    ]
    have = {f.qualname for f in eps}
    for q in need:
        if q not in have:
            raise AnalysisError(f"anchor vanished: entry point {q}")
    return sorted(eps, key=lambda f: f.qualname)


def materializer_ctor_names(fn: ast.AST) -> set:
    """Local names bound to a materializer *class* (result of for_data / for_materializer)."""
    out = set()
    for name, value, _ in assignments(fn, nested=True):
        for c in ast.walk(value):
            if isinstance(c, ast.Call) and isinstance(c.func, ast.Attribute) and c.func.attr in ("for_data", "for_materializer"):
                out.add(name)
    return out


def receiver_kind(project: Project, fi: FunctionInfo, call: ast.Call) -> str:
    """'materializer' | 'spec' | 'function' for a delegating call inside entry point ``fi``."""
    if isinstance(call.func, ast.Name):
        return "function"
    recv = strip_casts(call.func.value)
    if isinstance(recv, ast.Name) and recv.id == "self" and fi.cls is not None and project.is_subclass(fi.cls.qualname, MAT):
        return "materializer"
    if isinstance(recv, ast.Call):
        if isinstance(recv.func, ast.Attribute) and recv.func.attr == "get_materializer":
            return "materializer"
        if isinstance(recv.func, ast.Name) and recv.func.id in materializer_ctor_names(fi.node):
            return "materializer"
    if isinstance(recv, ast.Name) and recv.id in materializer_ctor_names(fi.node):
        return "materializer"
    return "spec"


def callee_formals(project: Project, kind: str, attr: str) -> Tuple[ast.AST, bool]:
    if kind == "function":
        return project.func("formulaic.sugar.model_matrix").node, False
    if attr == "_build_model_matrix":
        return project.func(MAT + "._build_model_matrix").node, True
    if kind == "materializer":
        return project.func(MAT + ".get_model_matrix").node, True
    return project.func("formulaic.model_spec.ModelSpec.get_model_matrix").node, True


def delegations(project: Project, fi: FunctionInfo) -> List[ast.Call]:
    out = []
    for c in ast.walk(fi.node):
        if isinstance(c, ast.Call):
            if isinstance(c.func, ast.Attribute) and c.func.attr in DELEGATE_ATTRS:
                out.append(c)
            elif isinstance(c.func, ast.Name) and c.func.id == "model_matrix":
                out.append(c)
    return out


def forward_rule(ctx, rule: str, param: str) -> None:
    """FORWARD: inside every entry point that has formal ``param``, every delegating call binds the
    callee's ``param`` to the caller's (for ``drop_rows``: to the very same object)."""
    P = ctx.project
    n_calls = 0
    eps = [f for f in entry_points(P) if param in param_names(f.node)]
    for fi in eps:
        dn = derived_names(fi.node, [param])
        rebinding = [st for name, _, st in assignments(fi.node, nested=True) if name == param]
        for call in delegations(P, fi):
            ctx.look()
            kind = receiver_kind(P, fi, call)
            attr = call.func.attr if isinstance(call.func, ast.Attribute) else "model_matrix"
            formal_fn, bound = callee_formals(P, kind, attr)
            if param not in param_names(formal_fn):
                continue  # this callee takes the value elsewhere (e.g. data/context went to the constructor)
            n_calls += 1
            actual = arg_for(call, formal_fn, param, bound_self=bound)
            inst = f"{fi.qualname} -> .{attr}(...) [{kind}] forwards `{param}`"
            where = fi.module.line(call)
            cons = ctx.construct(fi, call)
            if actual is None:
                ctx.fail(rule, inst, where, cons,
                         f"delegating call does not pass `{param}`; the callee falls back to its default and the caller's "
                         f"value is neither honoured nor updated")
                continue
            if param == "drop_rows" and attr != "_build_model_matrix":
                same = isinstance(actual, ast.Name) and actual.id == param and not rebinding
                ctx.check(same, rule, inst, where, cons,
                          f"`{param}` must reach the callee as the caller's own set object (so that rows dropped downstream "
                          f"are reported back); got `{norm(actual)}`" + (" after a re-binding" if rebinding else ""))
            else:
                ctx.check(mentions(actual, dn), rule, inst, where, cons,
                          f"value bound to `{param}` is `{norm(actual)}`, which is not derived from the caller's `{param}`")
    ctx.floor(rule, len(eps), 5, f"entry points with `{param}`")
    ctx.floor(rule, n_calls, 7, f"delegating calls binding `{param}`")


# ----------------------------------------------------------------------------- generic same-name forwarding (FORWARD, package-wide)
PROPERTY_MODULES = {
    "C01": ("formulaic.formula", "formulaic.parser"),
    "C02": ("formulaic.materializers", "formulaic.utils.cast"),
    "C04": ("formulaic.utils.stateful_transforms", "formulaic.transforms.scale", "formulaic.transforms.poly", "formulaic.transforms.basis_spline",
            "formulaic.transforms.cubic_spline", "formulaic.transforms.patsy_compat", "formulaic.materializers.types.scoped_term"),
    "C05": ("formulaic.model_spec", "formulaic.sugar", "formulaic.materializers"),
    "C06": ("formulaic.utils.null_handling", "formulaic.materializers", "formulaic.transforms.hashed"),
    "C10": ("formulaic.model_spec",),
    "C11": ("formulaic.transforms.contrasts", "formulaic.utils.sparse"),
    "C13": ("formulaic.transforms.scale", "formulaic.transforms.poly", "formulaic.transforms.patsy_compat", "formulaic.utils.stateful_transforms"),
    "C14": ("formulaic.parser", "formulaic.utils.code", "formulaic.utils.iterators"),
    "C16": ("formulaic.utils.constraints",),
    "C17": ("formulaic.utils.variables", "formulaic.utils.code", "formulaic.utils.layered_mapping"),
    "C19": ("formulaic.utils.structured", "formulaic.utils.layered_mapping", "formulaic.formula"),
    "C20": ("formulaic.utils.calculus", "formulaic.formula", "formulaic.model_spec"),
}

# (caller qualname suffix, callee name, parameter) -> reason the caller legitimately does not forward its same-named value
FORWARD_EXEMPT = {
    ("formula._FormulaMeta.__call__", "__init__", "_ordering"): "Formula() with no arguments builds the empty SimpleFormula([]) (nothing to order yet)",
    ("formula._FormulaMeta.__call__", "__init__", "_parser"): "empty formula: nothing to parse",
    ("formula._FormulaMeta.__call__", "__init__", "_nested_parser"): "empty formula: nothing to parse",
    ("formula._FormulaMeta.__call__", "__init__", "_context"): "empty formula: nothing to parse",
    ("transforms.contrasts.encode_contrasts", "categorical_encode_series_to_sparse_csc_matrix", "levels"): "the series passed is already a Categorical pinned to `levels`",
    ("utils.layered_mapping.LayeredMapping.get_with_layer_name", "get_with_layer_name", "default"): "the nested call is guarded by `key in layer`: the default cannot be needed",
    ("utils.structured.Structured._simplify.<locals>.simplify_obj", "_simplify", "unwrap"): "nested structures are always unwrapped; `unwrap` only concerns the outermost container",
    ("utils.structured.Structured._simplify.<locals>.simplify_obj", "_simplify", "inplace"): "nested structures are simplified into new objects; `inplace` only concerns the outermost container",
}


def generic_forwarding(ctx, rule: str, modules):
    """When a function calls a package function that has a formal parameter with the SAME NAME as one of the caller's own
    parameters (or of an enclosing function), the call must bind that formal (positionally, by keyword or through */** expansion):
    silently falling back to the callee's default loses the caller's option.  Frozen exemptions carry their reasons."""
    P = ctx.project
    SKIP = {"self", "cls", "args", "kwargs"}
    n_calls = n_formals = 0
    for f in sorted(P.functions.values(), key=lambda x: x.qualname):
        if isinstance(f.node, ast.Lambda) or not f.module.name.startswith(tuple(modules)):
            continue
        avail, g = set(), f
        while g is not None:
            avail |= {p.lstrip("*") for p in param_names(g.node)}
            g = g.parent
        avail -= SKIP
        deco = {id(x) for d in getattr(f.node, "decorator_list", []) for x in ast.walk(d)}
        from ..core import walk_no_nested
        for c in walk_no_nested(f.node):
            if not isinstance(c, ast.Call) or id(c) in deco:
                continue
            callee = _unique_callee(P, f, c)
            if callee is None:
                continue
            n_calls += 1
            pos = [p for p in param_names(callee.node) if not p.startswith("*")]
            if pos and pos[0] in ("self", "cls") and (isinstance(c.func, ast.Attribute) or callee.name in ("__init__", "__new__")):
                pos = pos[1:]
            if any(k.arg is None for k in c.keywords) or any(isinstance(a, ast.Starred) for a in c.args):
                continue
            bound = {k.arg for k in c.keywords if k.arg} | {pos[i] for i in range(min(len(pos), len(c.args)))}
            for p in [x for x in param_names(callee.node) if not x.startswith("*") and x not in SKIP]:
                if p in avail and p not in bound:
                    if _disjoint_annotations(_annotation_of(f, p), _annotation_of(callee, p)):
                        continue  # same spelling, different thing: the two annotated types share no constituent (e.g. a FactorValues named `encoded` vs the flag `encoded: bool`)
                    n_formals += 1
                    ctx.look()
                    ex = [why for (cs, cn, pp), why in FORWARD_EXEMPT.items() if f.qualname.endswith(cs) and callee.name == cn and pp == p]
                    inst = f"{f.qualname.replace('formulaic.', '')} -> {callee.name}(...): caller's `{p}` is forwarded"
                    if ex:
                        ctx.ok(rule, inst + f" [exempt: {ex[0]}]", f.module.line(c), trivial=True)
                    else:
                        ctx.fail(rule, inst, f.module.line(c), ctx.construct(f, text=f"{callee.name}(… {p} not forwarded): {norm(c)[:70]}"),
                                 f"`{norm(c)[:90]}` does not pass `{p}` although the caller has a `{p}` of its own and `{callee.name}` takes one: the callee silently uses "
                                 f"its default instead of the caller's value")
    ctx.notes.append(f"{rule}: {n_calls} resolved intra-package calls inspected, {n_formals} same-name formals left unbound (all exempt) in {list(modules)}")
    ctx.ok(rule, f"same-name parameters are forwarded at all {n_calls} resolved call sites of {', '.join(m.replace('formulaic.', '') for m in modules)}", "formulaic/")


def _annotation_of(f: FunctionInfo, p: str) -> Optional[ast.expr]:
    g = f
    while g is not None:
        a = g.node.args
        for x in list(a.posonlyargs) + list(a.args) + list(a.kwonlyargs):
            if x.arg == p:
                return x.annotation
        g = g.parent
    return None


def _annotation_leaves(a: ast.expr) -> Optional[set]:
    """The constituent type names of an annotation (Optional/Union/| unfolded, subscripts reduced to their head); None when it
    cannot be read or is open (Any, object, a TypeVar-like single capital letter)."""
    if isinstance(a, ast.Constant) and isinstance(a.value, str):
        try:
            a = ast.parse(a.value, mode="eval").body
        except SyntaxError:
            return None
    out: set = set()

    def go(e) -> bool:
        if isinstance(e, ast.BinOp) and isinstance(e.op, ast.BitOr):
            return go(e.left) and go(e.right)
        if isinstance(e, ast.Subscript):
            head = norm(e.value).split(".")[-1]
            if head in ("Optional", "Union"):
                els = e.slice.elts if isinstance(e.slice, ast.Tuple) else [e.slice]
                return all(go(x) for x in els)
            out.add(head)
            return True
        if isinstance(e, ast.Constant) and e.value is None:
            return True
        if isinstance(e, ast.Constant) and isinstance(e.value, str):
            try:
                return go(ast.parse(e.value, mode="eval").body)
            except SyntaxError:
                return False
        if isinstance(e, (ast.Name, ast.Attribute)):
            leaf = norm(e).split(".")[-1]
            if leaf in ("Any", "object") or len(leaf) == 1:
                return False
            out.add(leaf)
            return True
        return False

    return out if go(a) and out else None


def _disjoint_annotations(a: Optional[ast.expr], b: Optional[ast.expr]) -> bool:
    if a is None or b is None:
        return False
    la, lb = _annotation_leaves(a), _annotation_leaves(b)
    if la is None or lb is None:
        return False
    # containers of one family under different names count as overlapping
    fam = [{"Sequence", "List", "list", "Tuple", "tuple", "Iterable", "Collection", "Set", "set", "FrozenSet", "frozenset"},
           {"Mapping", "Dict", "dict", "MutableMapping", "OrderedDict", "LayeredMapping"}, {"int", "float", "bool"} - {"bool"}]
    def widen(s):
        w = set(s)
        for f_ in fam:
            if w & f_:
                w |= f_
        return w
    return not (widen(la) & widen(lb))


def _unique_callee(P: Project, f: FunctionInfo, c: ast.Call) -> Optional[FunctionInfo]:
    q = P.resolve_in(f, c.func)
    if q in P.functions:
        return P.functions[q]
    if q in P.classes:
        for k in P.mro(q):
            for nm in ("__init__", "__new__"):
                if nm in k.methods:
                    return k.methods[nm]
        return None
    if isinstance(c.func, ast.Attribute):
        name = c.func.attr
        recv = c.func.value
        owner = f.cls
        p = f
        while owner is None and p is not None:
            p = p.parent
            owner = p.cls if p is not None else None
        if isinstance(recv, ast.Name) and recv.id in ("self", "cls") and owner is not None:
            for k in P.mro(owner.qualname):
                if name in k.methods:
                    return k.methods[name]
            return None
        head = recv
        while isinstance(head, ast.Attribute):
            head = head.value
        if isinstance(head, ast.Name) and head.id in f.module.imports and not f.module.imports[head.id].startswith(P.PKG) and not f.module.imports[head.id].startswith("."):
            return None  # a third-party / stdlib module function (numpy.x, ast.parse, …)
        if isinstance(recv, ast.Name) and recv.id in ("str", "dict", "list", "set", "tuple", "object", "super"):
            return None
        cands = [m for k in P.classes.values() for n_, m in k.methods.items() if n_ == name]
        sigs = {tuple(param_names(m.node)) for m in cands}
        if cands and len(sigs) == 1:
            return cands[0]
    return None


def dict_mapper(P: Project):
    """The decorator through which `_encode_evaled_factor` applies an encoder to every field of a dict-valued factor (today the
    nested `map_dict`), found by ROLE: the callee of the curried calls `<mapper>(self._encode_…)(…)` in that method — nested in
    it, at module level, or a method of the class.  Returns (name as written at the call sites, its FunctionInfo, the
    FunctionInfo of the wrapper it returns)."""
    outer = P.func(MAT + "._encode_evaled_factor")
    names = []
    for c in ast.walk(outer.node):
        if isinstance(c, ast.Call) and isinstance(c.func, ast.Call) and len(c.func.args) == 1 and norm(c.func.args[0]).startswith("self._encode_"):
            n = norm(c.func.func)
            if n not in names:
                names.append(n)
    if len(names) != 1:
        raise AnalysisError(f"the dict-mapping decorator of _encode_evaled_factor was not found (curried encoder calls use {names})")
    name = names[0]
    base = name.split(".")[-1]
    cands = [outer.qualname + ".<locals>." + base, outer.module.name + "." + base, MAT + "." + base]
    f = next((P.functions[q] for q in cands if q in P.functions), None)
    if f is None:
        raise AnalysisError(f"the dict-mapping decorator `{name}` cannot be resolved")
    inner = [g for q, g in P.functions.items() if q.startswith(f.qualname + ".<locals>.") and not isinstance(g.node, ast.Lambda)]
    if len(inner) != 1:
        raise AnalysisError(f"`{name}` is expected to return one nested wrapper; found {[g.qualname for g in inner]}")
    return name, f, inner[0]


def spec_binder(P: Project):
    """The function `_prepare_model_specs` maps over every part of a spec to bind it to this materializer (today the nested
    `prepare_model_spec`), found by ROLE: the first argument of the `._map(…)` call in that method — a nested function, a
    method of the class (`self.<name>`) or a module-level function."""
    outer = P.func(MAT + "._prepare_model_specs")
    targets = []
    for c in ast.walk(outer.node):
        if isinstance(c, ast.Call) and isinstance(c.func, ast.Attribute) and c.func.attr == "_map" and c.args:
            targets.append(c.args[0])
    out = []
    for t in targets:
        base = norm(t).split(".")[-1]
        for q in (outer.qualname + ".<locals>." + base, MAT + "." + base, outer.module.name + "." + base):
            if q in P.functions and P.functions[q] not in out:
                out.append(P.functions[q])
                break
    if len(out) != 1:
        raise AnalysisError(f"the per-part binding function of _prepare_model_specs was not found (mapped: {[norm(t) for t in targets]})")
    return out[0]


def pooling_visitor(P: Project):
    """Where `_prepare_factor_evaluation_model_spec` visits every part of the structured specs to pool factors and state
    (today the nested `update_pooled_spec`, mapped with `model_specs._map`), found by ROLE: the function handed to `._map` on
    the specs parameter, or the body of a loop over `<specs>._flatten()`.  Returns (node holding the visiting statements,
    name of the variable naming the visited part, True if every leaf is visited)."""
    f = P.func(MAT + "._prepare_factor_evaluation_model_spec")
    specs = param_names(f.node)[1]
    for c in walk_no_nested(f.node):
        if isinstance(c, ast.Call) and isinstance(c.func, ast.Attribute) and c.func.attr == "_map" and norm(c.func.value) == specs and c.args:
            base = norm(c.args[0]).split(".")[-1]
            for q in (f.qualname + ".<locals>." + base, MAT + "." + base, f.module.name + "." + base):
                g = P.functions.get(q)
                if g is not None:
                    ps = [p_ for p_ in param_names(g.node) if p_ not in ("self", "cls")]
                    return g.node, ps[0], kwarg(c, "recurse") is None or norm(kwarg(c, "recurse")) == "True"
    for lp in walk_no_nested(f.node):
        if isinstance(lp, ast.For) and norm(lp.iter) == f"{specs}._flatten()" and isinstance(lp.target, ast.Name):
            return lp, lp.target.id, True
    raise AnalysisError("the pooling visitor of _prepare_factor_evaluation_model_spec was not found")
