"""C15 — lexing: quoted material is taken verbatim, whitespace is never part of a token, Python fragments pass through one
normaliser, spans are recorded with one convention.

Only the *structural* clauses of the property are decided here (see EXPLANATION); the metamorphic statements over all
strings (re-spacing never changes the parse, every column name can be referenced) quantify over the tokenizer's runs and are
not decided.
"""
from __future__ import annotations

import ast
import re
from typing import Dict, List, Optional, Set, Tuple

from ..core import AnalysisError, FunctionInfo, Project, dotted, is_const, kwarg, norm, param_names, walk_no_nested
from .. import sym
from ..expect import contains, contains_any
from ..util import guards_of

EXPLANATION = (
    "Static rules over formulaic/parser/algos/tokenize.py, sanitize_tokens.py, parser/types/token.py and utils/code.py. "
    "(R1) verbatim: every character is added to a token through Token.update(char, i) with the loop's own character and index, and "
    "Token.update appends exactly that character and records the index as the end (and as the start when none is set); "
    "(R2) closure: every closer pushed on the quote-context stack is a member of the collection tested by the 'inside a quote: take "
    "the character as is' branch, which is unconditional for its members and precedes every branch that interprets characters — so "
    "whitespace, operators and brackets inside a quote can only be copied; (R3) every pushed closer is the partner of the opener that "
    "pushed it; (R4) inside a Python fragment every delimiter that can hide the enclosing fragment's closer — brackets, braces, "
    "back-quotes and string quotes — opens a nested context; (R5) a backslash inside a quote takes the next character verbatim; "
    "(R6) the whitespace branch is reached only outside quotes, never adds to a token and never touches the quote stack; the default "
    "character classes agree with str.isspace on ASCII and with the operator table (no operator symbol is a word or space character); "
    "(R7) both parsers obtain tokens as sanitize_tokens(tokenize(.)), sanitize_tokens forwards every token and normalises exactly the "
    "Python ones through format_expr (ast.parse → ast.unparse) with the back-quote aliases restored; (R8) the highlighted source "
    "context uses the inclusive [source_start, source_end] convention Token.update records; a Token becomes a factor with its text as "
    "expression and the evaluation method of its kind. NOT decided: that re-spacing a formula never changes its parse, and that spans "
    "of quoted tokens delimit exactly their text (the recorded span of a brace / back-quote token starts at its opening delimiter)."
)
LEVEL_NOTE = ("Partial: decides the structural clauses named in the level text (verbatim copying inside quote contexts, closure and pairing of the "
              "quote-context stack, escape handling, whitespace never entering a token, one normaliser on every path, span convention). The "
              "metamorphic statements of the property over all strings — re-spacing never changes the parse; every column name can be referenced; "
              "spans of quoted tokens delimit exactly their text — are NOT decided: they quantify over runs of the tokenizer.")
ASSUMPTIONS = ["ast.unparse(ast.parse(s)) is a canonical spelling of the expression s (CPython)",
               "str.replace / str.isspace / re character classes behave as documented"]

TOK = "formulaic.parser.algos.tokenize.tokenize"
PARTNER = {"(": ")", "[": "]", "{": "}"}


def _tokenize(P: Project) -> FunctionInfo:
    f = P.functions.get(TOK)
    if f is None:
        raise AnalysisError("C15: tokenize() not found")
    return f


def _loop(f: FunctionInfo):
    loops = [n for n in walk_no_nested(f.node) if isinstance(n, ast.For)]
    for lp in loops:
        if sym.pm("enumerate(ANY_s)", lp.iter) is not None and isinstance(lp.target, ast.Tuple) and len(lp.target.elts) == 2 \
                and all(isinstance(e, ast.Name) for e in lp.target.elts):
            return lp, lp.target.elts[0].id, lp.target.elts[1].id   # (that it runs over `formula` itself is obligation C15.R8)
    raise AnalysisError("C15: the character loop `for i, char in enumerate(formula)` of tokenize() was not found")


def _members(e: ast.AST) -> Optional[List[str]]:
    """Characters of a constant string / tuple-of-strings used as a membership collection."""
    if isinstance(e, ast.Constant) and isinstance(e.value, str):
        return list(e.value)
    if isinstance(e, (ast.Tuple, ast.List, ast.Set)) and all(isinstance(x, ast.Constant) and isinstance(x.value, str) for x in e.elts):
        return [x.value for x in e.elts]
    return None


def _fold(e: ast.AST, char_name: str, c: str) -> Optional[str]:
    """Value of a closer expression when the current character is ``c``."""
    if isinstance(e, ast.Constant) and isinstance(e.value, str):
        return e.value
    if isinstance(e, ast.Name) and e.id == char_name:
        return c
    if isinstance(e, ast.IfExp):
        t = _fold_test(e.test, char_name, c)
        if t is None:
            return None
        return _fold(e.body if t else e.orelse, char_name, c)
    if isinstance(e, ast.Call) and isinstance(e.func, ast.Attribute) and e.func.attr == "replace" and len(e.args) == 2 \
            and all(isinstance(a, ast.Constant) and isinstance(a.value, str) for a in e.args):
        base = _fold(e.func.value, char_name, c)
        return None if base is None else base.replace(e.args[0].value, e.args[1].value)
    if isinstance(e, ast.Subscript) and isinstance(e.value, ast.Dict):
        k = _fold(e.slice, char_name, c)
        for kk, vv in zip(e.value.keys, e.value.values):
            if isinstance(kk, ast.Constant) and kk.value == k:
                return _fold(vv, char_name, c)
    return None


def _fold_test(t: ast.AST, char_name: str, c: str) -> Optional[bool]:
    if isinstance(t, ast.Compare) and len(t.ops) == 1 and isinstance(t.left, ast.Name) and t.left.id == char_name:
        m = _members(t.comparators[0])
        if isinstance(t.ops[0], ast.Eq) and isinstance(t.comparators[0], ast.Constant):
            return c == t.comparators[0].value
        if isinstance(t.ops[0], ast.NotEq) and isinstance(t.comparators[0], ast.Constant):
            return c != t.comparators[0].value
        if isinstance(t.ops[0], ast.In) and m is not None:
            return c in m
        if isinstance(t.ops[0], ast.NotIn) and m is not None:
            return c not in m
    return None


def _char_set(guards: List[Tuple[str, bool]], char_name: str) -> Optional[Set[str]]:
    """The characters for which all guard conditions about ``char`` hold (None if there is no positive constraint)."""
    out: Optional[Set[str]] = None
    for text, pol in guards:
        try:
            e = ast.parse(text, mode="eval").body
        except SyntaxError:
            continue
        if not (isinstance(e, ast.Compare) and len(e.ops) == 1 and isinstance(e.left, ast.Name) and e.left.id == char_name):
            continue
        m = _members(e.comparators[0])
        if isinstance(e.ops[0], ast.Eq) and isinstance(e.comparators[0], ast.Constant) and pol:
            s = {e.comparators[0].value}
        elif isinstance(e.ops[0], ast.In) and m is not None and pol:
            s = set(m)
        else:
            continue
        out = s if out is None else out & s
    return out


def _pushes(P: Project, f: FunctionInfo, char_name: str):
    """(call node, guards, {opener char: closer pushed}) for every quote_context.append(...)"""
    res = []
    for c in ast.walk(f.node):
        if isinstance(c, ast.Call) and isinstance(c.func, ast.Attribute) and c.func.attr == "append" and norm(c.func.value) == "quote_context" and len(c.args) == 1:
            g = guards_of(P, c)
            chars = _char_set(g, char_name)
            table = {}
            if chars is not None:
                for ch in sorted(chars):
                    table[ch] = _fold(c.args[0], char_name, ch)
            res.append((c, g, table))
    return res


def _verbatim_branch(P: Project, f: FunctionInfo, lp: ast.For, char_name: str, idx_name: str):
    """The top-level branch of the loop `if quote_context and quote_context[-1] in <collection>: … token.update(char, i); continue`."""
    for st in lp.body:
        if not isinstance(st, ast.If):
            continue
        conj = st.test.values if isinstance(st.test, ast.BoolOp) and isinstance(st.test.op, ast.And) else [st.test]
        coll = None
        for v in conj:
            if isinstance(v, ast.Compare) and len(v.ops) == 1 and isinstance(v.ops[0], ast.In) and norm(v.left) == "quote_context[-1]":
                coll = _members(v.comparators[0])
        if coll is None or not any(norm(v) == "quote_context" for v in conj):
            continue
        # its body must copy the character unconditionally and end the iteration
        upd = [s for s in st.body if isinstance(s, ast.Expr) and sym.pm(f"VAR_t.update({char_name}, {idx_name})", s.value) is not None]
        if upd and isinstance(st.body[-1], ast.Continue):
            return st, coll
    return None, None


# ---------------------------------------------------------------------------------------------------------------- rules
def r1(ctx):
    P = ctx.project
    f = _tokenize(P)
    lp, idx, ch = _loop(f)
    n = 0
    for c in ast.walk(f.node):
        if isinstance(c, ast.Call) and isinstance(c.func, ast.Attribute) and c.func.attr == "update" and (
                norm(c.func.value) == "token" or (isinstance(c.func.value, ast.Call) and dotted(c.func.value.func) == "Token")):
            n += 1
            ctx.look()
            ok = len(c.args) >= 2 and norm(c.args[0]) == ch and norm(c.args[1]) == idx
            ctx.check(ok, "C15.R1", "every character enters a token as it stands in the source, with its own index", f.module.line(c),
                      ctx.construct(f, c), f"`{norm(c)[:80]}` does not pass the loop's own ({ch}, {idx}): the token text / span would no longer be the source text")
    ctx.floor("C15.R1", n, 8, "Token.update call sites in tokenize()")
    up = P.method("formulaic.parser.types.token.Token", "update")
    pn = param_names(up.node)
    # decided on the path summaries: the three writes touch different attributes, so their order is free
    try:
        uo = [o for o in sym.outcomes(up.node) if o.kind in ("return", "fall")]
    except sym.Unmodelled as e:
        raise AnalysisError(f"C15.R1: Token.update cannot be summarised: {e}")
    ok, why = bool(uo), "no returning path"
    for o in uo:
        effs = [norm(e) for e in o.effects]
        unset = [pol for c, pol in o.conds if norm(c) == "self.source_start is None"] + [not pol for c, pol in o.conds if norm(c) == "self.source_start is not None"]
        want_start = [f"self.source_start = {pn[2]}"] if unset == [True] else []
        got = {"token": [e for e in effs if e.startswith("self.token ")], "start": [e for e in effs if e.startswith("self.source_start ")],
               "end": [e for e in effs if e.startswith("self.source_end ")]}
        good = len(unset) == 1 and got["token"] in ([f"self.token += {pn[1]}"], [f"self.token = self.token + {pn[1]}"]) and got["start"] == want_start \
            and got["end"] == [f"self.source_end = {pn[2]}"] and o.kind == "return" and o.value is not None and norm(o.value) == "self"
        if not good:
            ok, why = False, f"on the path {o.cond_text()} the writes are {got} and the result `{norm(o.value) if o.value is not None else None}`"
    ctx.check(ok, "C15.R1", "Token.update appends exactly the character and records its index as the end (and as the start when unset)", up.where,
              ctx.construct(up, text="update"), f"Token.update: {why}")
    others = [s for s in ast.walk(up.node) if isinstance(s, (ast.Assign, ast.AugAssign)) and any(
        norm(t) in ("self.token", "self.source_start", "self.source_end") for t in (s.targets if isinstance(s, ast.Assign) else [s.target]))]
    ctx.check(len(others) == 3, "C15.R1", "Token.update changes text and span nowhere else", up.where, ctx.construct(up, text="update writes"),
              f"{len(others)} writes to token / source_start / source_end; expected exactly the three above")


def r2(ctx):
    P = ctx.project
    f = _tokenize(P)
    lp, idx, ch = _loop(f)
    vb, coll = _verbatim_branch(P, f, lp, ch, idx)
    ctx.look()
    if vb is None:
        ctx.fail("C15.R2", "inside a quote every character is copied", f.where, ctx.construct(f, text="verbatim branch"),
                 "no branch of the form `if quote_context and quote_context[-1] in <closers>: …; token.update(char, i); continue` was found")
        return
    ctx.ok("C15.R2", "inside a quote every character is copied", f.module.line(vb))
    pushes = _pushes(P, f, ch)
    ctx.floor("C15.R2", len(pushes), 5, "pushes on the quote-context stack")
    for c, g, table in pushes:
        ctx.look()
        vals = set(table.values())
        ok = bool(table) and None not in vals and vals <= set(coll)
        ctx.check(ok, "C15.R2", "every pushed closer is one the copy-verbatim branch recognises", f.module.line(c), ctx.construct(f, c),
                  f"`{norm(c)}` pushes {sorted(v if v is not None else '?' for v in vals)}; the verbatim branch tests membership in {coll}: with another closer on "
                  f"the stack, the characters of the quote fall through to the branches that interpret whitespace, operators and brackets")
    # the verbatim branch precedes every branch that interprets a character outside quotes
    pos = lp.body.index(vb)
    before = lp.body[:pos]
    bad = [s for s in before if isinstance(s, ast.If) and not any(isinstance(n, ast.Name) and n.id in ("quote_context", "take") for n in ast.walk(s.test))]
    ctx.check(not bad, "C15.R2", "no character is interpreted before the quote context has been consulted", f.module.line(vb), ctx.construct(f, text="branch order"),
              f"`if {norm(bad[0].test)[:60]}` is tested before the copy-verbatim branch" if bad else "")
    after = lp.body[pos + 1:]
    leak = [s for s in before if isinstance(s, ast.If) and not isinstance(s.body[-1], (ast.Continue, ast.Raise, ast.Return))]
    ctx.check(not leak, "C15.R2", "every quote-context branch ends the iteration", f.module.line(vb), ctx.construct(f, text="continue"),
              f"`if {norm(leak[0].test)[:60]}` falls through to the following branches" if leak else "")


def r3(ctx):
    P = ctx.project
    f = _tokenize(P)
    lp, idx, ch = _loop(f)
    for c, g, table in _pushes(P, f, ch):
        for opener, closer in sorted(table.items()):
            ctx.look()
            want = PARTNER.get(opener, opener)
            ctx.check(closer == want, "C15.R3", f"the context opened by {opener!r} is closed by {want!r}", f.module.line(c), ctx.construct(f, text=f"pair {opener}"),
                      f"`{norm(c)}` pushes {closer!r} for {opener!r}: the quote would end at the wrong character (or never)")


def r4(ctx):
    P = ctx.project
    f = _tokenize(P)
    lp, idx, ch = _loop(f)
    pushes = _pushes(P, f, ch)
    top = {}      # opener -> closer, pushed outside any quote
    nested = {}   # opener -> closer, pushed while inside a python context
    python_closers: Set[str] = set()
    for c, g, table in pushes:
        inside = [t for t, pol in g if pol and t.startswith("quote_context[-1] in ")]
        if inside:
            nested.update(table)
            m = _members(ast.parse(inside[0], mode="eval").body.comparators[0])
            python_closers |= set(m or [])
        else:
            top.update(table)
    ctx.look()
    # which top-level contexts hold Python code: those opened on a token of kind python (`{`…`}`, call/index brackets)
    want_closers = {top[o] for o in ("{", "(", "[") if o in top}
    ctx.check(python_closers == want_closers and bool(want_closers), "C15.R4", "nested delimiters are tracked in exactly the contexts that hold Python code", f.where,
              ctx.construct(f, text="python contexts"), f"nested tracking is active under {sorted(python_closers)}; Python code is held by contexts closed by {sorted(want_closers)}")
    need = {o for o in top if o != "%"} | {"(", "[", "{"}
    missing = sorted(need - set(nested))
    ctx.check(not missing, "C15.R4", "inside a Python fragment every delimiter that can hide the fragment's closer opens a nested context", f.where,
              ctx.construct(f, text="nested openers"),
              f"inside a Python fragment {missing} do not open a nested context (tracked: {sorted(nested)}): a closing bracket / brace inside a string literal or a nested "
              f"brace ends the fragment early, e.g. `f(\")\")` and `{{\"}}\"}}` are rejected and `{{ {{1: 2}}[1] }}` is split — the fragment is not taken verbatim")


def r5(ctx):
    P = ctx.project
    f = _tokenize(P)
    ok, why = contains(P, f, """
        def tokenize(formula, word_chars=None, numeric_chars=None, whitespace_chars=None):
            take = 0
            for i, char in enumerate(formula):
                if take > 0:
                    token.update(char, i)
                    take -= 1
                    continue
                if quote_context and char == "\\\\":
                    token.update(char, i)
                    take = 1
                    continue
                ...
            ...
    """)
    ctx.look()
    ctx.check(ok, "C15.R5", "a backslash inside a quote takes the following character verbatim", f.where, ctx.construct(f, text="escape"), f"escape handling: {why}")
    lp, idx, ch = _loop(f)
    first = [s for s in lp.body if isinstance(s, ast.If)][:2]
    ok = len(first) == 2 and "take" in norm(first[0].test) and "'\\\\'" in norm(first[1].test)
    ctx.check(ok, "C15.R5", "pending escapes and backslashes are handled before a quote can be closed", f.where, ctx.construct(f, text="escape first"),
              "the `take` and backslash branches must be the first two branches of the character loop (otherwise an escaped closer ends the quote)")


def r6(ctx):
    P = ctx.project
    f = _tokenize(P)
    lp, idx, ch = _loop(f)
    vb, coll = _verbatim_branch(P, f, lp, ch, idx)
    ws = [s for s in lp.body if isinstance(s, ast.If) and any(isinstance(c, ast.Call) and norm(c.func) == "whitespace_chars.match" for c in ast.walk(s.test))]
    ctx.floor("C15.R6", len(ws), 1, "whitespace branches")
    for s in ws:
        ctx.look()
        upd = [c for c in ast.walk(s) if isinstance(c, ast.Call) and isinstance(c.func, ast.Attribute) and c.func.attr in ("update", "append", "pop") and
               norm(c.func.value) in ("token", "quote_context")]
        ctx.check(not upd, "C15.R6", "whitespace is never added to a token and never changes the quote context", f.module.line(s), ctx.construct(f, text="whitespace body"),
                  f"`{norm(upd[0])[:60]}` inside the whitespace branch" if upd else "")
        ctx.check(isinstance(s.body[-1], ast.Continue), "C15.R6", "whitespace ends the iteration", f.module.line(s), ctx.construct(f, text="whitespace continue"),
                  "the whitespace branch must `continue`: the character would otherwise also be read as a word or operator character")
        ctx.check(vb is not None and lp.body.index(s) > lp.body.index(vb), "C15.R6", "the whitespace branch is reached only outside quotes", f.module.line(s),
                  ctx.construct(f, text="whitespace after quotes"), "the whitespace branch precedes the copy-verbatim branch: whitespace inside quotes would be dropped")
    # default character classes
    a = f.node.args
    defaults = dict(zip([x.arg for x in a.args][len(a.args) - len(a.defaults):], a.defaults))
    pats = {}
    for name in ("word_chars", "numeric_chars", "whitespace_chars"):
        d = defaults.get(name)
        if isinstance(d, ast.Call) and dotted(d.func) in ("re.compile", "compile") and d.args and isinstance(d.args[0], ast.Constant) and isinstance(d.args[0].value, str):
            flags = 0
            fl = d.args[1] if len(d.args) > 1 else kwarg(d, "flags")
            unknown = False
            for x in (ast.walk(fl) if fl is not None else []):
                if isinstance(x, ast.Attribute) and dotted(x.value) == "re":
                    flags |= int(getattr(re, x.attr, 0))
                elif isinstance(x, (ast.Call, ast.Name)) and not (isinstance(x, ast.Name) and x.id == "re"):
                    unknown = True
            if unknown:
                continue
            try:
                pats[name] = re.compile(d.args[0].value, flags)
            except re.error:
                pass
    ctx.floor("C15.R6", len(pats), 3, "default character-class patterns that are constant")
    ascii_ws = " \t\n\r\f\v"
    bad = [c for c in ascii_ws if not pats["whitespace_chars"].match(c) or pats["word_chars"].match(c)]
    ctx.check(not bad, "C15.R6", "every ASCII whitespace character is whitespace, and not a word character, for the tokenizer", f.where, ctx.construct(f, text="whitespace class"),
              f"{[repr(c) for c in bad]} are not (only) whitespace under the default patterns: re-spacing with them changes the tokens")
    uni_ws = ["\u00a0", "\u2009", "\u3000", "\u2028", "\u1680", "\u205f"]
    bad = [c for c in uni_ws if c.isspace() and not pats["whitespace_chars"].match(c)]
    ctx.check(not bad, "C15.R6", "Unicode whitespace (no-break space, thin space, ideographic space, …) is whitespace for the tokenizer too", f.where,
              ctx.construct(f, text="unicode whitespace class"),
              f"{[hex(ord(c)) for c in bad]} are str.isspace() characters that the default whitespace pattern does not match (re.ASCII?): they become part of an operator token")
    bad = [c for c in "abzAZ_09." if not pats["word_chars"].match(c)] + [c for c in "0123456789" if not pats["numeric_chars"].match(c)]
    ctx.check(not bad, "C15.R6", "letters, digits, `_` and `.` are word characters; digits are numeric characters", f.where, ctx.construct(f, text="word class"),
              f"{bad} are not recognised")
    from . import c01
    try:
        _, recs = c01.records(P, "formulaic.parser.parser.DefaultOperatorResolver.operators")
        syms = sorted({r.symbol for r in recs})
    except Exception as e:  # pragma: no cover
        raise AnalysisError(f"C15.R6: operator table not readable: {e}")
    ctx.floor("C15.R6", len(syms), 8, "operator symbols")
    # alphabetic symbols (`in`) can only be written through the %-quote (`%in%`) and are not split off by character class
    bad = sorted({c for s_ in syms if not s_.isalpha() for c in s_ if pats["word_chars"].match(c) or pats["whitespace_chars"].match(c)} - {"."})
    ctx.check(not bad, "C15.R6", "no character of an operator symbol is a word or whitespace character", f.where, ctx.construct(f, text="operator class"),
              f"{bad} occur in operator symbols but lex as word / whitespace characters")


def r7(ctx):
    P = ctx.project
    n = 0
    for q in ("formulaic.parser.types.formula_parser.FormulaParser.get_tokens_from_formula", "formulaic.parser.parser.DefaultFormulaParser.get_tokens_from_formula"):
        g = P.functions.get(q)
        if g is None:
            continue
        for c in ast.walk(g.node):
            if isinstance(c, ast.Call) and dotted(c.func) == "tokenize":
                n += 1
                ctx.look()
                par = P.parent(c)
                ok = isinstance(par, ast.Call) and dotted(par.func) == "sanitize_tokens" and par.args and par.args[0] is c
                ctx.check(ok, "C15.R7", f"{q.split('.')[-2]}: the token stream passes through sanitize_tokens", g.module.line(c), ctx.construct(g, text="sanitize(tokenize)"),
                          "tokenize(...) must be wrapped in sanitize_tokens(...): Python fragments that differ only in formatting would be different factors")
    ctx.floor("C15.R7", n, 2, "tokenize call sites in parsers")
    st = P.func("formulaic.parser.algos.sanitize_tokens.sanitize_tokens")
    ok, why = contains(P, st, """
        def sanitize_tokens(tokens):
            for token in tokens:
                ...
                if token.kind is Token.Kind.PYTHON:
                    token.token = sanitize_python_code(token.token)
                yield token
    """)
    ctx.check(ok, "C15.R7", "exactly the Python tokens are normalised, and every token is forwarded", st.where, ctx.construct(st, text="sanitize loop"), f"sanitize_tokens: {why}")
    drops = [x for x in ast.walk(st.node) if isinstance(x, (ast.Continue, ast.Break, ast.Return))]
    ys = [x for x in ast.walk(st.node) if isinstance(x, (ast.Yield, ast.YieldFrom))]
    ctx.check(not drops and len(ys) == 1, "C15.R7", "sanitize_tokens neither drops nor duplicates tokens", st.where, ctx.construct(st, text="no drop"),
              f"{len(drops)} early exits, {len(ys)} yields")
    sp = P.func("formulaic.parser.algos.sanitize_tokens.sanitize_python_code")
    ok, why = contains(P, sp, """
        def sanitize_python_code(expr):
            aliases = {}
            expr = format_expr(sanitize_variable_names(expr, {}, aliases, template="_formulaic_{}"))
            while aliases:
                alias, orig = aliases.popitem()
                expr = ANY_restore
            return expr
    """)
    ctx.check(ok, "C15.R7", "Python fragments are re-spelt canonically with their back-quoted names restored", sp.where, ctx.construct(sp, text="sanitize_python_code"),
              f"sanitize_python_code: {why}")
    # the restoration must act on whole identifiers: an alias is an identifier and may be a substring of another one
    restores = [n for n in ast.walk(sp.node) if isinstance(n, ast.Assign) and isinstance(n.value, ast.Call) and len(n.targets) == 1 and isinstance(n.targets[0], ast.Name)
                and n.targets[0].id == param_names(sp.node)[0]
                and any(isinstance(x, ast.While) and any(n is y for y in ast.walk(x)) for x in ast.walk(sp.node))]
    ctx.floor("C15.R7", len(restores), 1, "alias restoration statements")
    for r_ in restores:
        c = r_.value
        plain = isinstance(c.func, ast.Attribute) and c.func.attr == "replace" and not (dotted(c.func.value) or "").startswith("re")
        bounded = dotted(c.func) in ("re.sub", "re.subn") and c.args and any(
            isinstance(x, ast.Constant) and isinstance(x.value, str) and ("(?<!\\w)" in x.value or "\\b" in x.value) for x in ast.walk(c.args[0])) and any(
            isinstance(x, ast.Call) and dotted(x.func) == "re.escape" for x in ast.walk(c.args[0]))
        ctx.check(bounded and not plain, "C15.R7", "back-quoted names are restored by replacing whole identifiers", sp.module.line(r_), ctx.construct(sp, text="alias restoration"),
                  f"`{norm(r_)[:110]}` substitutes the alias wherever its text occurs: `exp(`x`)` becomes `e`x`p(`x`)` and a name that is a prefix of another "
                  f"alias corrupts it; the alias must be matched between identifier boundaries (re.escape'd)")
    # two different back-quoted names of one fragment must not share an alias (the restoration maps an alias to ONE name)
    sv = P.func("formulaic.utils.code.sanitize_variable_names")
    stores = [n for n in ast.walk(sv.node) if isinstance(n, ast.Assign) and isinstance(n.targets[0], ast.Subscript) and norm(n.targets[0].value) == param_names(sv.node)[2]]
    ctx.floor("C15.R7", len(stores), 1, "alias records in sanitize_variable_names")
    al = param_names(sv.node)[2]
    guarded = any(isinstance(n, (ast.While, ast.If)) and any(isinstance(c_, ast.Compare) and al in norm(c_) and isinstance(c_.ops[0], (ast.In, ast.NotIn, ast.NotEq, ast.Eq))
                                                            for c_ in ast.walk(n.test)) for n in ast.walk(sv.node))
    ctx.check(guarded, "C15.R7", "different back-quoted names of one fragment get different aliases", sv.where, ctx.construct(sv, text="alias collision"),
              f"`{norm(stores[0])}` records the alias without checking that it is not already the alias of another name: `a b` and `a|b` both become "
              f"`_formulaic_a_b`, so `f(`a b`, `a|b`)` is normalised to `f(`a|b`, `a|b`)` (both arguments denote the same column)")
    fe = P.func("formulaic.utils.code.format_expr")
    ok, why = contains_any(P, fe, ["""
        def format_expr(expr):
            code = ast.parse(expr, mode="eval") if isinstance(expr, str) else expr
            return ast.unparse(code).replace("\\n", " ")
    """, """
        def format_expr(expr):
            code = ast.parse(expr, mode="eval") if isinstance(expr, str) else expr
            return ast.unparse(code)
    """])
    ctx.check(ok, "C15.R7", "the canonical spelling is ast.unparse(ast.parse(.))", fe.where, ctx.construct(fe, text="format_expr"), f"format_expr: {why}")


def r8(ctx):
    P = ctx.project
    tf = _tokenize(P)
    lp_, _i, _c = _loop(tf)
    src = param_names(tf.node)[0]
    ctx.look()
    ctx.check(sym.pm(f"enumerate({src})", lp_.iter) is not None and not any(
        isinstance(st, (ast.Assign, ast.AugAssign)) and any(isinstance(t, ast.Name) and t.id == src for t in (st.targets if isinstance(st, ast.Assign) else [st.target]))
        for st in walk_no_nested(tf.node)), "C15.R8", "character positions index the formula text the tokens keep as their source", tf.module.line(lp_),
        ctx.construct(tf, text="positions index the source"),
        f"the character loop runs over `{norm(lp_.iter)}` while every token records `{src}` as its source: stripping or otherwise editing the text that is "
        f"scanned shifts every span against the source the spans refer to")
    T = "formulaic.parser.types.token.Token"
    gs = P.method(T, "get_source_context")
    n = 0
    for sl in ast.walk(gs.node):
        if isinstance(sl, ast.Slice) and any("source_end" in norm(x) for x in (sl.lower, sl.upper) if x is not None):
            for x in (sl.lower, sl.upper):
                if x is not None and "source_end" in norm(x):
                    n += 1
                    ctx.look()
                    ctx.check(norm(x) == "self.source_end + 1", "C15.R8", "the highlighted span is [source_start, source_end] inclusive", gs.module.line(sl),
                              ctx.construct(gs, text=f"slice bound {n}"), f"slice bound `{norm(x)}`: Token.update records the index of the LAST character as source_end")
    ctx.floor("C15.R8", n, 2, "slices of the source by source_end")
    tf = P.method(T, "to_factor")
    ok, why = contains(P, tf, """
        def to_factor(self):
            kind_to_eval_method = {Token.Kind.NAME: "lookup", Token.Kind.PYTHON: "python", Token.Kind.VALUE: "literal"}
            return Factor(expr=self.token, eval_method=kind_to_eval_method[self.kind], token=self)
    """)
    ctx.check(ok, "C15.R8", "a token becomes a factor with its own text and the evaluation method of its kind", tf.where, ctx.construct(tf, text="to_factor"), f"to_factor: {why}")
    loc = P.method(T, "source_loc")
    c = None
    try:
        rr = [o for o in sym.outcomes(loc.node) if o.kind == "return"]
        c = rr[0].value if len(rr) == 1 else None
    except sym.Unmodelled:
        pass
    ctx.check(sym.pm("(self.source_start, self.source_end)", c) is not None, "C15.R8", "source_loc reports the recorded span", loc.where, ctx.construct(loc, text="source_loc"),
              f"source_loc returns `{norm(c) if c is not None else None}`")


RULES = [("C15.R1", r1), ("C15.R2", r2), ("C15.R3", r3), ("C15.R4", r4), ("C15.R5", r5), ("C15.R6", r6), ("C15.R7", r7), ("C15.R8", r8)]
