"""C02 — every model-matrix column holds the product its name denotes."""
from __future__ import annotations

import ast
import re
from typing import Dict, List, Optional, Set, Tuple

from ..core import AnalysisError, FunctionInfo, Project, arg_for, dotted, is_const, kwarg, norm, param_names, walk_no_nested
from .. import sym
from ..util import assignments, count_negations, mentions, returns_of, stmt_text, strip_casts
from .shared import MAT, NARWHALS, PANDAS

EXPLANATION = (
    "Static rules: (R1) in every _get_columns_for_term the column label joins the names and the value multiplies the values of "
    "one and the same enumeration of itertools.product over the same factor sequence in the same orientation (for the "
    "pandas/narwhals overrides: names precomputed before the factor list is mutated, indexed by the value loop's own enumerate "
    "index); (R2) every stored column is multiplied by the term's scale on both the sparse and dense branch, the builder "
    "passes scale=scoped_term.scale and the intercept is scale * constant(1) named Intercept; (R3) the solo-factor fast path "
    "only pops factors proven to have exactly one column and appends exactly one merged single-key dict; (R4) package-wide, "
    "every identity comparison with an Enum member has an enum-typed other operand and every `<enum>.value == literal` uses a "
    "value some member has; (R5) literal factors fold into the scale in both rank modes (complementary filters / CONSTANT "
    "branch); (R6) flattened sub-names and values come from the same item; (R7) pandas and narwhals twins are identical; "
    "(R8) one interaction separator. Numerical equality of columns with products is not decided."
)
ASSUMPTIONS = [
    "itertools.product enumerates the last argument fastest; dict.items()/keys()/values() iterate in the same (insertion) order",
    "`x is <Enum member>` is false for any non-member x (str values in particular)",
]

GCT = "_get_columns_for_term"


def _gct_functions(P: Project) -> List[FunctionInfo]:
    out = [P.func(f"{MAT}.{GCT}")]
    for c in P.subclasses(MAT):
        if GCT in c.methods:
            out.append(c.methods[GCT])
    return out


_SYNTH: Dict[int, tuple] = {}   # id(fn) -> (fn, stores): holding fn keeps its id from being reused


def _out_stores(fn: ast.AST, P: Optional[Project] = None) -> List[ast.Assign]:
    rets = [r.value.id for r in returns_of(fn) if isinstance(r.value, ast.Name)]
    comps = [r.value for r in returns_of(fn) if isinstance(r.value, ast.DictComp) and len(r.value.generators) == 1 and not r.value.generators[0].ifs]
    if comps and not rets and P is not None:
        # `return {k: v for t in it}` is `out = {}; for t in it: out[k] = v; return out`: the loop form is synthesised (and hung
        # into the project's parent map under the function) so that the store-based reading below applies to both spellings
        if id(fn) not in _SYNTH or _SYNTH[id(fn)][0] is not fn:
            c = comps[0]
            g = c.generators[0]
            asg = ast.Assign(targets=[ast.Subscript(value=ast.Name(id="out", ctx=ast.Load()), slice=c.key, ctx=ast.Store())], value=c.value)
            loop = ast.For(target=g.target, iter=g.iter, body=[asg], orelse=[])
            for n in (asg, loop):
                ast.copy_location(n, c)
            ast.fix_missing_locations(loop)
            P.parents[id(loop)] = fn
            for n in ast.walk(loop):
                for ch in ast.iter_child_nodes(n):
                    P.parents[id(ch)] = n
            _SYNTH[id(fn)] = (fn, [asg])
        return list(_SYNTH[id(fn)][1])
    out = []
    for st in walk_no_nested(fn):
        if isinstance(st, ast.Assign) and len(st.targets) == 1 and isinstance(st.targets[0], ast.Subscript) \
                and isinstance(st.targets[0].value, ast.Name) and st.targets[0].value.id in rets:
            out.append(st)
    return out


def _is_reversed_of(e: ast.AST, name: str) -> bool:
    t = norm(e)
    return t in (f"reversed({name})", f"{name}[::-1]")


def _product_spec(call: ast.AST) -> Optional[Tuple[str, str]]:
    """For itertools.product(*X): ('items'|'keys', base sequence text) where X = (f.items() for f in reversed(S)) or reversed(S)."""
    if isinstance(call, ast.Call) and dotted(call.func) == "enumerate" and call.args:
        call = call.args[0]
    if isinstance(call, ast.Call) and dotted(call.func) == "zip" and len(call.args) == 2 and isinstance(call.args[0], ast.Name):
        call = call.args[1]   # zip(<labels>, <product>): the labels travel with the tuples
    if not (isinstance(call, ast.Call) and (dotted(call.func) or "").endswith("product") and len(call.args) == 1
            and isinstance(call.args[0], ast.Starred) and not call.keywords):
        return None
    x = call.args[0].value
    if isinstance(x, ast.GeneratorExp) and len(x.generators) == 1 and not x.generators[0].ifs:
        g = x.generators[0]
        v = g.target.id if isinstance(g.target, ast.Name) else None
        if v and norm(x.elt) == f"{v}.items()":
            return "items", norm(g.iter)
        if v and norm(x.elt) in (v, f"{v}.keys()"):
            return "keys", norm(g.iter)
    return "keys", norm(x)


def r1(ctx):
    P = ctx.project
    fns = _gct_functions(P)
    ctx.floor("C02.R1", len(fns), 3, f"{GCT} implementations")
    n_stores = 0
    for f in fns:
        fn = f.node
        factors = param_names(fn)[1]
        stores = _out_stores(fn, P)
        if not stores:
            raise AnalysisError(f"C02.R1: no stores into the result dict in {f.qualname}")
        names_def = [(n, v, st) for n, v, st in assignments(fn) if isinstance(v, ast.ListComp) and "join" in norm(v)]
        for st in stores:
            n_stores += 1
            ctx.look()
            inst = f"{f.qualname}: label and value of a stored column come from the same product tuple"
            where = f.module.line(st)
            cons = ctx.construct(f, st)
            # enclosing for loop over the product
            lp = P.parent(st)
            while lp is not None and not isinstance(lp, ast.For):
                lp = P.parent(lp)
            if lp is None:
                ctx.fail("C02.R1", inst, where, cons, "column store is not inside the product loop")
                continue
            spec = _product_spec(lp.iter)
            enumerated = isinstance(lp.iter, ast.Call) and dotted(lp.iter.func) == "enumerate"
            zipped = isinstance(lp.iter, ast.Call) and dotted(lp.iter.func) == "zip" and len(lp.iter.args) == 2 and isinstance(lp.iter.args[0], ast.Name)
            if spec is None or spec[0] != "items" or spec[1] != f"reversed({factors})":
                ctx.fail("C02.R1", inst, where, cons,
                         f"value loop iterates `{norm(lp.iter)[:100]}`; expected itertools.product(*(f.items() for f in reversed({factors})))")
                continue
            if enumerated or zipped:
                if not (isinstance(lp.target, ast.Tuple) and len(lp.target.elts) == 2 and all(isinstance(e, ast.Name) for e in lp.target.elts)):
                    ctx.fail("C02.R1", inst, where, cons, "enumerate target is not (index, tuple)")
                    continue
                idx, tup = lp.target.elts[0].id, lp.target.elts[1].id
            else:
                idx, tup = None, lp.target.id if isinstance(lp.target, ast.Name) else None
            # names bound from the loop tuple in re-reversed orientation
            local = {n: v for n, v, s_ in assignments(lp)}
            def oriented(e) -> bool:
                """e iterates the loop tuple in original factor order (reversed back)."""
                if isinstance(e, ast.Name) and e.id in local:
                    return _is_reversed_of(local[e.id], tup)
                return _is_reversed_of(e, tup)
            # value: scale * reduce(mul, (p[1] ... for p in <oriented>))
            val = st.value

            def arms(e):
                return arms(e.body) + arms(e.orelse) if isinstance(e, ast.IfExp) else [e]

            ok_val = True
            for arm in arms(val):  # `x if sparse else y`: every alternative must be the oriented product
                red = [c for c in ast.walk(arm) if isinstance(c, ast.Call) and (dotted(c.func) or "").endswith("reduce")]
                ok_arm = False
                if len(red) == 1 and len(red[0].args) == 2 and isinstance(red[0].args[1], ast.GeneratorExp):
                    g = red[0].args[1]
                    gv = g.generators[0].target.id if isinstance(g.generators[0].target, ast.Name) else "?"
                    picks_value = any(isinstance(s_, ast.Subscript) and isinstance(s_.value, ast.Name) and s_.value.id == gv and is_const(s_.slice, 1)
                                      for s_ in ast.walk(g.elt)) and not any(
                        isinstance(s_, ast.Subscript) and isinstance(s_.value, ast.Name) and s_.value.id == gv and is_const(s_.slice, 0) for s_ in ast.walk(g.elt))
                    ok_arm = picks_value and oriented(g.generators[0].iter) and not g.generators[0].ifs
                ok_val = ok_val and ok_arm
            if not ok_val:
                ctx.fail("C02.R1", inst, where, cons,
                         f"value `{norm(val)[:120]}` is not the product of the values (p[1]) of the loop tuple in factor order")
                continue
            # label
            key = st.targets[0].slice
            by_index = enumerated and isinstance(key, ast.Subscript) and isinstance(key.value, ast.Name) and isinstance(key.slice, ast.Name)
            by_zip = zipped and isinstance(key, ast.Name)
            if by_index or by_zip:
                names_var = key.value.id if by_index else lp.iter.args[0].id
                ok = (key.slice.id == idx if by_index else key.id == idx) and any(n == names_var for n, _, _ in names_def)
                msg = f"label `{norm(key)}` is not the precomputed name list indexed by the loop's own enumerate index `{idx}`" if by_index else \
                    f"label `{norm(key)}` is not the element of the precomputed name list that is zipped with the product tuple"
                if ok:
                    nv = [v for n, v, _ in names_def if n == names_var][0]
                    nst = [s_ for n, v, s_ in names_def if n == names_var][0]
                    g = nv.generators[0]
                    pv = g.target.id if isinstance(g.target, ast.Name) else "?"
                    nspec = _product_spec(g.iter)
                    jn = nv.elt
                    ok_names = (len(nv.generators) == 1 and not g.ifs and nspec == ("keys", f"reversed({factors})")
                                and isinstance(jn, ast.Call) and isinstance(jn.func, ast.Attribute) and jn.func.attr == "join"
                                and len(jn.args) == 1 and _is_reversed_of(jn.args[0], pv))
                    if not ok_names:
                        ok, msg = False, (f"name list `{norm(nv)[:110]}` does not enumerate itertools.product(*reversed({factors})) with each "
                                          f"tuple re-reversed — it would pair labels with the wrong value columns")
                    else:
                        # names are computed before the factor list is mutated
                        muts = [c for c in ast.walk(fn) if isinstance(c, ast.Call) and isinstance(c.func, ast.Attribute)
                                and isinstance(c.func.value, ast.Name) and c.func.value.id == factors
                                and c.func.attr in ("pop", "append", "insert", "remove", "extend", "reverse", "sort", "clear")]
                        from ..util import doc_order
                        _pos = doc_order(fn)
                        if any(_pos[id(m)] < _pos[id(nst)] for m in muts):
                            ok, msg = False, "the name list is computed after the factor list was mutated by the solo-factor fast path"
                ctx.check(ok, "C02.R1", inst, where, cons, msg)
            else:
                jn = key
                ok = (isinstance(jn, ast.Call) and isinstance(jn.func, ast.Attribute) and jn.func.attr == "join" and len(jn.args) == 1
                      and isinstance(jn.args[0], ast.GeneratorExp))
                if ok:
                    g = jn.args[0]
                    gv = g.generators[0].target.id if isinstance(g.generators[0].target, ast.Name) else "?"
                    ok = norm(g.elt) == f"{gv}[0]" and oriented(g.generators[0].iter) and not g.generators[0].ifs
                ctx.check(ok, "C02.R1", inst, where, cons,
                          f"label `{norm(key)[:100]}` does not join the names (p[0]) of the same loop tuple in factor order")
    ctx.floor("C02.R1", n_stores, 3, "column stores")


def r2(ctx):
    P = ctx.project
    for f in _gct_functions(P):
        for st in _out_stores(f.node, P):
            ctx.look()
            v = st.value

            def arms(e):
                return arms(e.body) + arms(e.orelse) if isinstance(e, ast.IfExp) else [e]
            ok = all(isinstance(a, ast.BinOp) and isinstance(a.op, ast.Mult) and (norm(a.left) == "scale" or norm(a.right) == "scale") for a in arms(v))
            ctx.check(ok, "C02.R2", f"{f.qualname}: every stored column is multiplied by the term's scale", f.module.line(st),
                      ctx.construct(f, st), f"column value `{norm(v)[:100]}` is not `scale * <product>`: the literal scaling of the term is lost")
        ctx.check("scale" in param_names(f.node), "C02.R2", f"{f.qualname} takes the scale", f.where, ctx.construct(f, text="signature"), "no scale parameter")
    b = P.func(f"{MAT}._build_model_matrix")
    calls = [c for c in ast.walk(b.node) if isinstance(c, ast.Call) and isinstance(c.func, ast.Attribute) and c.func.attr == GCT]
    ctx.floor("C02.R2", len(calls), 1, f"{GCT} call sites")
    for c in calls:
        ctx.look()
        a = kwarg(c, "scale")
        ctx.check(a is not None and norm(a) == "scoped_term.scale", "C02.R2", "the builder passes the scoped term's scale", b.module.line(c),
                  ctx.construct(b, text=f"{GCT}(scale=)"), f"scale argument is `{norm(a) if a is not None else 'missing (defaults to 1)'}`")
    # a recorded (rehydrated) scoped term keeps its scale: the replay path multiplies by the same scale as the first build
    rh = P.method("formulaic.materializers.types.scoped_term.ScopedTerm", "rehydrate")
    rr = returns_of(rh.node)
    okr = bool(rr) and isinstance(rr[0].value, ast.Call) and kwarg(rr[0].value, "scale") is not None and norm(kwarg(rr[0].value, "scale")) == "self.scale"
    ctx.check(okr, "C02.R2", "a rehydrated scoped term keeps the recorded scale", rh.where, ctx.construct(rh, text="rehydrate scale"),
              "ScopedTerm.rehydrate must pass scale=self.scale: otherwise every matrix rebuilt from a spec silently loses the literal scaling")
    cp = P.method("formulaic.materializers.types.scoped_term.ScopedTerm", "copy")
    rr = returns_of(cp.node)
    okc = bool(rr) and isinstance(rr[0].value, ast.Call) and kwarg(rr[0].value, "scale") is not None and norm(kwarg(rr[0].value, "scale")) == "self.scale"
    ctx.check(okc, "C02.R2", "the recorded copy of a scoped term keeps the scale", cp.where, ctx.construct(cp, text="copy scale"), "ScopedTerm.copy must pass scale=self.scale")
    # intercept
    # the intercept column: stored under the key "Intercept" (item store, or an entry of a dict display merged into the columns)
    ints = [(st, st.value) for st in walk_no_nested(b.node) if isinstance(st, ast.Assign) and isinstance(st.targets[0], ast.Subscript)
            and is_const(st.targets[0].slice, "Intercept")]
    ints += [(d, v_) for d in walk_no_nested(b.node) if isinstance(d, ast.Dict) for k_, v_ in zip(d.keys, d.values) if k_ is not None and is_const(k_, "Intercept")]
    ctx.floor("C02.R2", len(ints), 1, "intercept column stores")
    for st, v in ints:
        ctx.look()
        ok = isinstance(v, ast.BinOp) and isinstance(v.op, ast.Mult) and "scoped_term.scale" in (norm(v.left), norm(v.right))
        other = v.right if ok and norm(v.left) == "scoped_term.scale" else (v.left if ok else None)
        ok2 = isinstance(other, ast.Call) and isinstance(other.func, ast.Attribute) and other.func.attr == "_encode_constant" \
            and other.args and is_const(other.args[0], 1)
        ctx.check(ok and ok2, "C02.R2", "the intercept is scale * constant(1) named Intercept", b.module.line(st), ctx.construct(b, text="Intercept"),
                  f"intercept column is `{norm(v)[:100]}`")
        from ..util import atom_mapper, reach_condition, truth_table
        if isinstance(st, ast.stmt):
            rc = reach_condition(P, st, mention="scoped_term")
            guard_ok = rc is not None and truth_table(rc, atom_mapper({"scoped_term.factors": 0}), 1) == (True, False)
        else:   # an arm of a conditional expression
            from ..util import guards_of
            guard_ok = ("scoped_term.factors", False) in guards_of(P, st)
        ctx.check(guard_ok, "C02.R2",
                  "the intercept column is emitted exactly for the factor-less scoped term", b.module.line(st), ctx.construct(b, text="intercept guard"),
                  "the Intercept store must be guarded by `not scoped_term.factors`")


def r3(ctx):
    P = ctx.project
    n = 0
    for f in _gct_functions(P):
        fn = f.node
        factors = param_names(fn)[1]
        pops = [c for c in ast.walk(fn) if isinstance(c, ast.Call) and isinstance(c.func, ast.Attribute) and c.func.attr == "pop"
                and isinstance(c.func.value, ast.Name) and c.func.value.id == factors]
        if not pops:
            continue
        n += 1
        ctx.look()
        inst = f"{f.qualname}: solo-factor fast path preserves the enumeration"
        # indices collected only under len(factor) == 1
        idx_appends = [c for c in ast.walk(fn) if isinstance(c, ast.Call) and isinstance(c.func, ast.Attribute) and c.func.attr == "append"
                       and isinstance(c.func.value, ast.Name) and c.func.value.id != factors]
        ok_guard = False
        solo = None
        from ..util import atom_mapper, reach_condition, truth_table
        for c in idx_appends:
            st_c = P.enclosing_stmt(c)
            lp = P.parent(st_c)
            while lp is not None and not isinstance(lp, (ast.For, ast.FunctionDef)):
                lp = P.parent(lp)
            if not (isinstance(lp, ast.For) and norm(lp.iter) == f"enumerate({factors})" and isinstance(lp.target, ast.Tuple) and len(lp.target.elts) == 2
                    and c.args and norm(lp.target.elts[0]) == norm(c.args[0]) and isinstance(lp.target.elts[1], ast.Name)):
                continue
            fv = lp.target.elts[1].id
            am = atom_mapper({f"len({fv}) == 1": 0})

            def solo_only(st_):
                rc = reach_condition(P, st_, mention=fv)
                return rc is not None and truth_table(rc, am, 1) == (False, True)
            upd = [u for u in ast.walk(lp) if isinstance(u, ast.Call) and isinstance(u.func, ast.Attribute) and u.func.attr == "update"
                   and u.args and norm(u.args[0]) == fv]
            if solo_only(st_c) and len(upd) == 1 and solo_only(P.enclosing_stmt(upd[0])):
                ok_guard = True
                solo = norm(upd[0].func.value)
                idxlist = norm(c.func.value)
        ctx.check(ok_guard, "C02.R3", inst, f.where, ctx.construct(f, text="solo guard"),
                  "only factors proven `len(factor) == 1` may be merged; the guard/enumerate pairing was not found")
        if not ok_guard:
            continue
        for p in pops:
            lp = P.parent(P.enclosing_stmt(p))
            ok = isinstance(lp, ast.For) and norm(lp.iter) == f"reversed({idxlist})" and norm(p.args[0]) == norm(lp.target)
            ctx.check(ok, "C02.R3", f"{f.qualname}: exactly the recorded solo positions are popped, from the back", f.module.line(p), ctx.construct(f, p),
                      f"pop loop is `for {norm(lp.target) if isinstance(lp, ast.For) else '?'} in {norm(lp.iter) if isinstance(lp, ast.For) else '?'}`")
        apps = [c for c in ast.walk(fn) if isinstance(c, ast.Call) and isinstance(c.func, ast.Attribute) and c.func.attr == "append"
                and isinstance(c.func.value, ast.Name) and c.func.value.id == factors]
        ctx.floor("C02.R3", len(apps), 1, "merged-factor appends")
        for a in apps:
            ctx.look()
            d0 = a.args[0] if a.args else None

            def arms_(e):
                return arms_(e.body) + arms_(e.orelse) if isinstance(e, ast.IfExp) else [e]
            ok, ok_v = d0 is not None, d0 is not None
            for d in arms_(d0) if d0 is not None else []:   # the container may be selected by a conditional expression: every arm is held to the rule
                ok1 = isinstance(d, ast.Dict) and len(d.keys) == 1 and norm(d.keys[0]) == f"':'.join({solo})"
                v = d.values[0] if ok1 else None
                ok_v = ok_v and ok1 and isinstance(v, ast.Call) and (dotted(v.func) or "").endswith("reduce") and len(v.args) == 2 and (
                    norm(v.args[1]) == f"{solo}.values()" or (isinstance(v.args[1], ast.GeneratorExp) and norm(v.args[1].generators[0].iter) == f"{solo}.values()"))
                ok = ok and ok1
            d = d0
            ctx.check(ok and ok_v, "C02.R3", f"{f.qualname}: one merged single-key factor whose key joins the keys and whose value multiplies the values of the same dict",
                      f.module.line(a), ctx.construct(f, text=f"append merged solo factor @{'sparse' if 'csc_matrix' in norm(a) else 'dense'}"),
                      f"appended `{norm(d)[:110] if d is not None else None}`")
    ctx.floor("C02.R3", n, 2, "implementations with the solo-factor fast path")


# ----------------------------------------------------------------------------- R4 enum identity (package-wide)
def enum_classes(P: Project) -> Dict[str, Dict[str, object]]:
    out = {}
    for q, c in P.classes.items():
        if any(b.split(".")[-1] in ("Enum", "IntEnum", "Flag", "IntFlag", "StrEnum") for b in c.bases):
            mem = {}
            for k, v in c.assigns.items():
                if k.startswith("_"):
                    continue
                try:
                    mem[k] = ast.literal_eval(v)
                except Exception:
                    mem[k] = None
            out[q] = mem
    return out


def attr_enums(P: Project, enums) -> Dict[str, Set[str]]:
    """attribute/property name -> enum classes it may hold (from property return annotations and field annotations)."""
    out: Dict[str, Set[str]] = {}
    def note(name, ann, mod, scope=None):
        if ann is None:
            return
        for n in ast.walk(ann):
            q = None
            if isinstance(n, (ast.Name, ast.Attribute)):
                q = P.resolve_expr(mod, n, scope)
            elif isinstance(n, ast.Constant) and isinstance(n.value, str):
                try:
                    q = P.resolve_expr(mod, ast.parse(n.value, mode="eval").body, scope)
                except SyntaxError:
                    q = None
            if q in enums:
                out.setdefault(name, set()).add(q)
            elif q:
                # nested class referenced by bare name inside its outer class (e.g. `-> Kind` inside Token)
                for e in enums:
                    if e.endswith("." + q.split(".")[-1]) and scope is not None and scope.cls is not None and e.startswith(scope.cls.qualname + "."):
                        out.setdefault(name, set()).add(e)
    for c in P.classes.values():
        for name, m in c.methods.items():
            if any(d == "property" for d in m.decorators()):
                note(name, m.node.returns, c.module, m)
        for name, ann in c.annotations.items():
            note(name, ann, c.module)
    for f in P.functions.values():
        if isinstance(f.node, ast.FunctionDef):
            for a in f.node.args.args + f.node.args.kwonlyargs:
                note(a.arg, a.annotation, f.module, f)
    return out


def r4(ctx):
    P = ctx.project
    enums = enum_classes(P)
    ctx.floor("C02.R4", len(enums), 8, "Enum classes")
    amap = attr_enums(P, enums)
    n_is = n_val = 0
    for f in P.functions.values():
        if isinstance(f.node, ast.Lambda):
            continue
        for n in walk_no_nested(f.node):
            if not (isinstance(n, ast.Compare) and len(n.ops) == 1):
                continue
            l, r, op = n.left, n.comparators[0], n.ops[0]
            def member(e):
                q = P.resolve_in(f, e) if isinstance(e, (ast.Name, ast.Attribute)) else None
                if q:
                    cq, _, m = q.rpartition(".")
                    if cq in enums and m in enums[cq]:
                        return cq, m
                # `f.eval_method.LITERAL` — member reached through an instance attribute
                if isinstance(e, ast.Attribute) and isinstance(e.value, ast.Attribute):
                    for cq in amap.get(e.value.attr, ()):
                        if e.attr in enums[cq]:
                            return cq, e.attr
                return None
            ml, mr = member(l), member(r)
            if isinstance(op, (ast.Is, ast.IsNot)) and (ml or mr) and not (ml and mr):
                n_is += 1
                ctx.look()
                other = r if ml else l
                bad = None
                if isinstance(other, ast.Attribute) and other.attr in ("value", "name"):
                    bad = f"`{norm(other)}` is the member's {other.attr} (a plain {'str' if other.attr == 'name' else 'value'}), never identical to an Enum member"
                elif isinstance(other, ast.Constant) and other.value is not None:
                    bad = f"literal `{norm(other)}` is never identical to an Enum member"
                elif isinstance(other, ast.Call) and dotted(other.func) in ("str", "int", "repr"):
                    bad = f"`{norm(other)}` is not enum-typed"
                ctx.check(bad is None, "C02.R4", f"identity comparison with {(ml or mr)[0].split('.')[-1]}.{(ml or mr)[1]} has an enum-typed operand",
                          f.module.line(n), ctx.construct(f, n), (bad or "") + " — the comparison is constant")
            # <enum expr>.value == literal
            for a, b in ((l, r), (r, l)):
                if isinstance(a, ast.Attribute) and a.attr == "value" and isinstance(b, ast.Constant) and isinstance(op, (ast.Eq, ast.NotEq, ast.Is, ast.IsNot)):
                    base = a.value
                    cands = amap.get(base.attr, set()) if isinstance(base, ast.Attribute) else set()
                    if not cands:
                        continue
                    n_val += 1
                    ctx.look()
                    vals = {v for cq in cands for v in enums[cq].values()}
                    ctx.check(b.value in vals, "C02.R4", f"`{norm(a)} == {b.value!r}` compares with a value some member has", f.module.line(n),
                              ctx.construct(f, n), f"{b.value!r} is not the value of any member of {sorted(c.split('.')[-1] for c in cands)} — the comparison is constant")
    ctx.floor("C02.R4", n_is, 40, "enum identity comparisons")
    ctx.floor("C02.R4", n_val, 3, "enum .value comparisons")


# ----------------------------------------------------------------------------- R5
def _kind_test(e: ast.AST, var: str) -> Optional[bool]:
    """True: `<var>.metadata.kind is CONSTANT`; False: `is not CONSTANT`; None: something else."""
    t, neg = count_negations(e)
    if isinstance(t, ast.Compare) and len(t.ops) == 1 and norm(t.left) == f"{var}.metadata.kind" and norm(t.comparators[0]).endswith("Kind.CONSTANT"):
        if isinstance(t.ops[0], (ast.Is, ast.Eq)):
            return neg % 2 == 0
        if isinstance(t.ops[0], (ast.IsNot, ast.NotEq)):
            return neg % 2 == 1
    return None


def r5(ctx):
    P = ctx.project
    f = P.func(f"{MAT}._get_scoped_terms")
    ctors = [c for c in ast.walk(f.node) if isinstance(c, ast.Call) and dotted(c.func) == "ScopedTerm"]
    ctx.floor("C02.R5", len(ctors), 1, "ScopedTerm constructions in _get_scoped_terms")
    for c in ctors:
        ctx.look()
        fa, sc = kwarg(c, "factors"), kwarg(c, "scale")
        inst = "rank reduction off: literal factors leave the factor list and enter the scale (complementary filters)"
        if not (isinstance(fa, ast.GeneratorExp) and sc is not None):
            ctx.fail("C02.R5", inst, f.module.line(c), ctx.construct(f, text="ScopedTerm(full rank off)"), "factors=/scale= not in the expected form")
            continue
        gf = fa.generators[0]
        fv = gf.target.id
        kf = _kind_test(gf.ifs[0], fv) if len(gf.ifs) == 1 else None
        comps = [g for g in ast.walk(sc) if isinstance(g, (ast.ListComp, ast.GeneratorExp))]
        ks = None
        if len(comps) == 1 and len(comps[0].generators[0].ifs) == 1:
            sv = comps[0].generators[0].target.id
            ks = _kind_test(comps[0].generators[0].ifs[0], sv)
            same_src = norm(comps[0].generators[0].iter) == norm(gf.iter) and norm(comps[0].elt) == f"{sv}.values"
        else:
            same_src = False
        red_ok = isinstance(sc, ast.Call) and (dotted(sc.func) or "").endswith("reduce") and len(sc.args) == 3 and is_const(sc.args[2], 1) \
            and (dotted(sc.args[0]) or "") in ("operator.mul", "numpy.multiply")
        ok = kf is False and ks is True and same_src and red_ok
        ctx.check(ok, "C02.R5", inst, f.module.line(c), ctx.construct(f, text="ScopedTerm(full rank off)"),
                  f"factor filter selects CONSTANT={kf!r} (must be False), scale filter selects CONSTANT={ks!r} (must be True), "
                  f"same source={same_src}, product-with-initial-1={red_ok}: a literal factor is either lost or kept as a column")
    g = P.func(f"{MAT}._get_scoped_terms_spanned_by_evaled_factors")
    loops = [n for n in walk_no_nested(g.node) if isinstance(n, ast.For)]
    ctx.floor("C02.R5", len(loops), 1, "factor loops in the span expansion")
    lp = loops[0]
    fv = lp.target.id
    first = lp.body[0] if lp.body and isinstance(lp.body[0], ast.If) else None
    ctx.look()
    from ..util import atom_mapper, reach_condition, truth_table
    am = atom_mapper({f"{fv}.metadata.kind is Factor.Kind.CONSTANT": 0, f"{fv}.metadata.spans_intercept": 1})
    muls = [x for x in ast.walk(lp) if isinstance(x, ast.AugAssign) and norm(x) == f"scale *= {fv}.values"]
    apps = [P.enclosing_stmt(x) for x in ast.walk(lp) if isinstance(x, ast.Call) and isinstance(x.func, ast.Attribute) and x.func.attr == "append"]

    def table(st_):
        rc = reach_condition(P, st_, mention=fv)
        return truth_table(rc, am, 2) if rc is not None else None
    # the literal multiplies into the scale exactly when the factor is CONSTANT, and a factor is appended exactly when it is not
    # (assignments in itertools.product order: (constant, spans_intercept) = FF, FT, TF, TT)
    at = [table(a_) for a_ in apps]
    ok = len(muls) == 1 and table(muls[0]) == (False, False, True, True) and bool(apps) and all(isinstance(t_, tuple) for t_ in at) \
        and tuple(any(t_[k] for t_ in at) for k in range(4)) == (True, True, False, False)
    ctx.check(ok, "C02.R5", "rank reduction on: a CONSTANT factor multiplies into the scale and contributes no factor", g.module.line(lp),
              ctx.construct(g, text="CONSTANT branch"), f"first branch of the factor loop is `{stmt_text(first) if first is not None else None}`")
    init = [v for n, v, _ in assignments(g.node) if n == "scale"]
    ctx.check(bool(init) and is_const(init[0], 1), "C02.R5", "the scale accumulator starts at 1", g.where, ctx.construct(g, text="scale init"),
              "scale must start at 1")
    ct = [c for c in ast.walk(g.node) if isinstance(c, ast.Call) and dotted(c.func) == "ScopedTerm"]
    ctx.check(len(ct) == 1 and kwarg(ct[0], "scale") is not None and norm(kwarg(ct[0], "scale")) == "scale", "C02.R5",
              "every spanned scoped term carries the accumulated scale", g.where, ctx.construct(g, text="ScopedTerm(scale=)"),
              "ScopedTerm(...) in the span expansion must receive scale=scale")
    # simplification multiplies the scales of the merged terms
    s = P.func(f"{MAT}._simplify_scoped_terms")
    ct = [c for c in ast.walk(s.node) if isinstance(c, ast.Call) and dotted(c.func) == "ScopedTerm"]
    for c in ct:
        a = kwarg(c, "scale")
        # every scoped term spanned by ONE term already carries that term's scale (degree 1 in the scale); a merge of two of
        # them must again have degree 1: one operand's scale, not a product (degree 2) and not a constant (degree 0)
        deg = _scale_degree(a) if a is not None else 0
        ctx.check(deg == 1, "C02.R5", "a recombined scoped term carries the term's scale exactly once", s.module.line(c), ctx.construct(s, text="merge scale"),
                  f"scale of the merged term is `{norm(a) if a is not None else 'dropped (defaults to 1)'}` — degree {deg} in the term's literal scale: "
                  f"{'each merge multiplies the scale again (`0 + 2:a:b` gives 16, not 2)' if deg and deg > 1 else 'the literal scaling is lost'}")


def _scale_degree(e: ast.AST):
    """Degree of an expression in `<scoped term>.scale` (None if not a monomial in it)."""
    if isinstance(e, ast.Attribute) and e.attr == "scale":
        return 1
    if isinstance(e, ast.Constant) and isinstance(e.value, (int, float)):
        return 0
    if isinstance(e, ast.BinOp) and isinstance(e.op, ast.Mult):
        l, r = _scale_degree(e.left), _scale_degree(e.right)
        return None if l is None or r is None else l + r
    if isinstance(e, ast.BinOp) and isinstance(e.op, ast.Div):
        l, r = _scale_degree(e.left), _scale_degree(e.right)
        return None if l is None or r is None else l - r
    return None


def r6(ctx):
    P = ctx.project
    f = P.func(f"{MAT}._flatten_encoded_evaled_factor")
    pn = param_names(f.node)
    name_p, values_p = pn[1], pn[2]
    try:
        outs = sym.outcomes(f.node)
    except sym.Unmodelled as e:
        raise AnalysisError(f"C02.R6: _flatten_encoded_evaled_factor cannot be summarised: {e}")
    loops = {id(l._sym_orig): l for o in outs for l in o.loops}
    ctx.floor("C02.R6", len(loops), 1, "flatten loops")
    lp = next(iter(loops.values()))
    ctx.look()
    tgt = lp._sym_orig.target
    ok_iter = norm(lp._sym_head) == f"{values_p}.items()" and isinstance(tgt, ast.Tuple) and len(tgt.elts) == 2
    k, v = (norm(tgt.elts[0]), norm(tgt.elts[1])) if ok_iter else ("?", "?")
    inl = [o for o in outs if o.loops]
    D = {f"isinstance({k}, str)": True, f"{k}.startswith('__')": True}
    ND = {f"isinstance({k}, str)": False}
    ND2 = {f"isinstance({k}, str)": True, f"{k}.startswith('__')": False}
    base_eff = len(lp._sym_env)  # unused marker

    def iteration_effects(facts):
        """the distinct lists of effects executed in one iteration under ``facts`` (effects before the loop removed)"""
        res = []
        for kind, _v, effs in sym.eval_under(inl, facts, kinds=("fall", "continue", "return", "raise", "break")):
            own = [e for e in effs if not any(e is x or norm(e) == norm(x) for x in pre)]
            res.append((kind, own))
        return res

    pre = []
    for o in outs:
        if not o.loops:
            pre = [e for e in o.effects if not isinstance(e, (ast.For, ast.While))]
            break
    skip = all(kind in ("continue", "fall") and not own for kind, own in iteration_effects(D)) and bool(iteration_effects(D))
    ok_sub = ok_store = ok_rec = True
    fmts = set()
    H = f"hasattr({values_p}, '__formulaic_metadata__')"
    for nd in (dict(ND, **{H: True}), dict(ND2, **{H: True})):
        leaf = [(k_, [sym.simplify(e, nd) for e in effs]) for k_, effs in iteration_effects(dict(nd, **{f"isinstance({v}, dict)": False}))]
        nest = [(k_, [sym.simplify(e, nd) for e in effs]) for k_, effs in iteration_effects(dict(nd, **{f"isinstance({v}, dict)": True}))]
        if not (len(leaf) == 1 and len(leaf[0][1]) == 1 and len(nest) == 1 and len(nest[0][1]) == 1):
            ok_store = ok_rec = False
            continue
        b1 = sym.pm(f"VAR_out[ANY_fmt.format(name={name_p}, field={k})] = {v}", leaf[0][1][0])
        b2 = sym.pm_any([f"VAR_out.update(self._flatten_encoded_evaled_factor(ANY_fmt.format(name={name_p}, field={k}), {v}))",
                         f"VAR_out.update(self._flatten_encoded_evaled_factor(ANY_fmt.format(name={name_p}, field={k}), values={v}))",
                         f"VAR_out.update(self._flatten_encoded_evaled_factor(name=ANY_fmt.format(name={name_p}, field={k}), values={v}))"], nest[0][1][0])
        ok_store = ok_store and b1 is not None
        ok_rec = ok_rec and b2 is not None and (b1 is None or b1["ANY_fmt"] == b2["ANY_fmt"])
        if b1:
            fmts.add(b1["ANY_fmt"])
    ok_sub = ok_store
    ctx.check(ok_iter and skip and ok_sub and ok_store and ok_rec, "C02.R6",
              "each flattened sub-name is formatted from, and paired with, the same (subfield, value) item; dunder keys skipped", f.module.line(lp._sym_orig),
              ctx.construct(f, text="flatten loop"),
              f"iter={ok_iter} skip_dunder={skip} subname={ok_sub} store={ok_store} recursion={ok_rec}")
    ok = bool(fmts) and all(x == f"{values_p}.__formulaic_metadata__.get_format()" for x in fmts)
    ctx.check(ok, "C02.R6", "the name format comes from the same value's metadata", f.where, ctx.construct(f, text="name_format"),
              f"name_format candidates: {sorted(fmts)}")


def r9(ctx):
    """Multi-column factor values are split into columns with name i paired with column i; reduced encodings use the reduced name format."""
    P = ctx.project
    regs = P.registrations("formulaic.utils.cast.as_columns")
    ctx.floor("C02.R9", len(regs), 3, "as_columns registrations")
    n = 0
    for f in regs:
        try:
            fouts = [o for o in sym.outcomes(f.node) if o.kind == "return" and o.value is not None]
        except sym.Unmodelled as e:
            raise AnalysisError(f"C02.R9: {f.qualname} cannot be summarised: {e}")
        ann = norm(f.node.args.args[0].annotation) if f.node.args.args[0].annotation is not None else None
        H, Cn = "hasattr(data, '__formulaic_metadata__')", "data.__formulaic_metadata__.column_names"
        IDENT = ("dict(data.items())", "{VAR_k: VAR_v for VAR_k, VAR_v in data.items()}", "dict(((VAR_k, VAR_v) for VAR_k, VAR_v in data.items()))",
                 "{VAR_k: data[VAR_k] for VAR_k in data}", "{VAR_k: data[VAR_k] for VAR_k in data.columns}")
        identity = bool(fouts) and all(sym.pm_any(IDENT, o.value) is not None for o in fouts)
        splits = [] if identity else [o for o in fouts if any(isinstance(x, ast.DictComp) for x in ast.walk(o.value))]
        if splits:
            n += 1
            ctx.look()
            declared = sym.eval_under(splits, {H: True, Cn: True}, kinds=("return",))
            default = sym.eval_under(splits, {H: False}, kinds=("return",)) + sym.eval_under(splits, {H: True, Cn: False}, kinds=("return",))
            PAIR = "{ANY_names[VAR_i]: data[:, VAR_i] for VAR_i in range(data.shape[1])}"
            bd = [sym.pm(PAIR, v) for _, v, _e in declared]
            bf = [sym.pm(PAIR, v) for _, v, _e in default]
            ok = bool(bd) and bool(bf) and all(b is not None for b in bd + bf)
            ctx.check(ok, "C02.R9", f"as_columns[{ann}]: name i labels column i", f.where,
                      ctx.construct(f"formulaic.utils.cast.as_columns[{ann}]", text="name/column pairing"),
                      f"split is {[norm(v)[:100] for _, v, _e in declared + default]}; expected {{column_names[i]: data[:, i] for i in range(data.shape[1])}}")
            ok = ok and all(b["ANY_names"] == Cn for b in bd) and all(b["ANY_names"] in ("list(range(data.shape[1]))", "range(data.shape[1])", "[*range(data.shape[1])]") for b in bf)
            ctx.check(ok, "C02.R9", "declared column names are used when present, else 0..k-1", f.where,
                      ctx.construct(f"formulaic.utils.cast.as_columns[{ann}]", text="column names source"),
                      f"names used: declared case {[b and b['ANY_names'] for b in bd]}, default case {[b and b['ANY_names'] for b in bf]}")
        elif identity:
            n += 1
            ctx.ok("C02.R9", "as_columns[DataFrame] keeps each column under its own label", f.where)
    ctx.floor("C02.R9", n, 3, "column splits")
    pm = P.func("formulaic.utils.cast.propagate_metadata").locals_named("wrapper")
    ok = "return FactorValues(evaluated, metadata=data.__formulaic_metadata__)" in norm(pm.node)
    ctx.check(ok, "C02.R9", "splitting into columns keeps the factor's metadata (name format, drop field)", pm.where, ctx.construct(pm, text="metadata"), "propagate_metadata changed")
    gf = P.method("formulaic.materializers.types.factor_values.FactorValuesMetadata", "get_format")
    try:
        go = sym.outcomes(gf.node)
    except sym.Unmodelled:
        go = []
    r = returns_of(gf.node)
    cases_ = sym.truth_cases(go, ["self.reduced", "self.format_reduced"], kinds=("return",))
    ok = bool(cases_) and all(got == [("return", "self.format_reduced" if (a_ and b_) else "self.format")] for (a_, b_), got in cases_.items())
    ctx.check(ok, "C02.R9", "a reduced encoding is labelled with the reduced name format, a full one with the full format", gf.where, ctx.construct(gf, text="get_format"),
              f"get_format returns `{norm(r[0].value) if r else None}`")
    ap = P.method("formulaic.transforms.contrasts.Contrasts", "apply")
    t = norm(ap.node)
    ok = t.count("format=self.get_factor_format(levels, reduced_rank=reduced_rank), format_reduced=self.get_factor_format(levels, reduced_rank=True)") == 2
    ctx.check(ok, "C02.R9", "contrast encodings carry both name formats for the rank mode they were built in", ap.where, ctx.construct(ap, text="formats"),
              "Contrasts.apply must set format / format_reduced from get_factor_format")


def siblings_equal(ctx, rule: str, methods: List[str]):
    P = ctx.project
    pa, na = P.cls(PANDAS), P.cls(NARWHALS)
    for m in methods:
        ctx.look()
        a, b = pa.methods.get(m), na.methods.get(m)
        if a is None or b is None:
            raise AnalysisError(f"{rule}: {m} missing in a concrete materializer")
        ta, tb = _body_text(a.node), _body_text(b.node)
        ctx.check(ta == tb, rule, f"pandas and narwhals `{m}` are the same function", b.where, ctx.construct(b, text=f"sibling {m}"),
                  f"the two materializers must produce the same matrix; `{m}` differs: {_first_diff(ta, tb)}")


def _body_text(fn) -> List[str]:
    """Statement texts of the alpha-canonical form of the function (local names, nested scopes and loop-local
    variables renamed canonically): two functions that differ only in the spelling of locals have the same text."""
    from ..util import canon_ast
    tree = canon_ast(_unzip(fn))
    body = [s for s in tree.body if not (isinstance(s, ast.Expr) and isinstance(s.value, ast.Constant) and isinstance(s.value.value, str))]
    return [norm(s) for s in body]


def _unzip(fn):
    """`for a, b in zip(A, B): …a…`  ->  `for i, b in enumerate(B): …A[i]…` (A a plain name): the two spellings of a loop
    that walks a label list alongside another sequence of the same length."""
    import copy
    fn = copy.deepcopy(fn)
    k = [0]

    class T(ast.NodeTransformer):
        def visit_For(self, n):
            self.generic_visit(n)
            it = n.iter
            if (isinstance(it, ast.Call) and dotted(it.func) == "zip" and len(it.args) == 2 and not it.keywords and isinstance(it.args[0], ast.Name)
                    and isinstance(n.target, ast.Tuple) and len(n.target.elts) == 2 and isinstance(n.target.elts[0], ast.Name)):
                a, A = n.target.elts[0].id, it.args[0].id
                if any(isinstance(x, ast.Name) and x.id == a and isinstance(x.ctx, ast.Store) for s_ in n.body for x in ast.walk(s_)):
                    return n
                k[0] += 1
                idx = f"_zi{k[0]}"

                class R(ast.NodeTransformer):
                    def visit_Name(self_, x):
                        if x.id == a and isinstance(x.ctx, ast.Load):
                            return ast.copy_location(ast.Subscript(value=ast.Name(id=A, ctx=ast.Load()), slice=ast.Name(id=idx, ctx=ast.Load()), ctx=ast.Load()), x)
                        return x
                n.body = [R().visit(s_) for s_ in n.body]
                n.target = ast.Tuple(elts=[ast.Name(id=idx, ctx=ast.Store()), n.target.elts[1]], ctx=ast.Store())
                n.iter = ast.Call(func=ast.Name(id="enumerate", ctx=ast.Load()), args=[it.args[1]], keywords=[])
            return n
    return ast.fix_missing_locations(T().visit(fn))


def _first_diff(a: List[str], b: List[str]) -> str:
    for x, y in zip(a, b):
        if x != y:
            return f"`{x[:90]}` vs `{y[:90]}`"
    return f"{len(a)} vs {len(b)} statements"


def r7(ctx):
    siblings_equal(ctx, "C02.R7", [GCT, "_encode_constant", "_encode_numerical"])


def r8(ctx):
    P = ctx.project
    seps = set()
    for f in _gct_functions(P):
        for c in ast.walk(f.node):
            if isinstance(c, ast.Call) and isinstance(c.func, ast.Attribute) and c.func.attr == "join" and isinstance(c.func.value, ast.Constant):
                ctx.look()
                seps.add(c.func.value.value)
    T = P.cls("formulaic.parser.types.term.Term")
    rp = T.methods["__repr__"]
    for c in ast.walk(rp.node):
        if isinstance(c, ast.Call) and isinstance(c.func, ast.Attribute) and c.func.attr == "join" and isinstance(c.func.value, ast.Constant):
            seps.add(c.func.value.value)
    fm = T.assigns.get("FACTOR_MATCHER")
    ok_m = fm is not None and "(?<=:)" in norm(fm) and "(?=:|$)" in norm(fm)
    ctx.check(seps == {":"} and ok_m, "C02.R8", "column labels, printed terms and term-string parsing use the one separator `:`", T.where,
              "formulaic:interaction separator", f"separators used: {sorted(seps)}; FACTOR_MATCHER splits on ':' = {ok_m}")



def f1(ctx):
    """generic same-name parameter forwarding over this property's modules (see shared.generic_forwarding)."""
    from . import shared as _sh
    _sh.generic_forwarding(ctx, "C02.F1", _sh.PROPERTY_MODULES["C02"])



def s1(ctx):
    """shared mechanisms: the encoding cache never serves an encoding made for another rank mode (= C03.R6); plain names and Python expressions resolve through one search order (= C19.R3)"""
    from .shared import relabel
    from . import c03, c19
    relabel(ctx, "C02.S1", c03.r6, lambda c: c19.r3(c, rule="C02.S1"))


def _s1_parts():
    from .shared import relabel
    from . import c03, c19
    from .shared import relabel_parts
    return relabel_parts("C02.S1", c03.r6, lambda c: c19.r3(c, rule="C02.S1"))


s1.parts = _s1_parts


RULES = [("C02.R1", r1), ("C02.R2", r2), ("C02.R3", r3), ("C02.R4", r4), ("C02.R5", r5), ("C02.R6", r6), ("C02.R7", r7), ("C02.R8", r8), ("C02.R9", r9), ("C02.F1", f1), ("C02.S1", s1)]
