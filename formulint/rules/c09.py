"""C09 — reusing a spec on incompatible data fails loudly and never reshapes columns."""
from __future__ import annotations

import ast
from typing import Dict, List, Set

from ..cfg import CFG, ENTRY, EXIT
from ..core import AnalysisError, FunctionInfo, Project, dotted, is_const, kwarg, norm, param_names, walk_no_nested
from .. import sym
from ..util import assignments, count_negations, header_calls, header_walk, mentions, returns_of, stmt_text
from .shared import MAT

EXPLANATION = (
    "Static rules: (R1) every field of the spec that _evaluate_factor and its callees read (kind guard, null policy, transform "
    "state, and — through stateful_eval's _spec — the output) is populated, in the pooled spec that get_model_matrix evaluates "
    "factors against, from the user's specs by the pooling visitor; a field read but never pooled makes the guard vacuous; the "
    "kind guard itself compares the evaluated kind with the recorded one and raises FactorEncodingError; (R2) in "
    "_enforce_structure too many columns, too few columns (other than the 0/1 imputation cases) and a name-set mismatch each "
    "reach a raise FactorEncodingError, and the yielded mapping is keyed by the recorded names in the recorded order; (R3) in "
    "encode_contrasts the DataMismatchWarning is reached whenever levels are known and extra categories are present, levels "
    "are pinned from the recorded state when not given, and the categorical is built with categories=levels. The all-zero "
    "content of absent-level columns is not decided."
)
ASSUMPTIONS = ["pandas.Categorical(data, categories=levels) maps values outside `levels` to NaN and keeps a column per level"]


def spec_fields_read(P: Project) -> Dict[str, List[str]]:
    """field -> where it is read, for the `spec` parameter of _evaluate_factor and its callees."""
    reads: Dict[str, List[str]] = {}
    # _evaluate_factor and every method of the materializer it hands its `spec` to (followed through the call graph, so that
    # splitting or merging the small evaluation helpers changes nothing)
    work, seen = [("_evaluate_factor", "spec")], set()
    while work:
        name, sp_ = work.pop()
        if (name, sp_) in seen:
            continue
        seen.add((name, sp_))
        f = None
        for cls in P.mro(MAT):
            if name in cls.methods:
                f = cls.methods[name]
                break
        if f is None:
            if name == "_evaluate_factor":
                raise AnalysisError("C09.R1: FormulaMaterializer._evaluate_factor not found")
            continue
        if sp_ not in param_names(f.node):
            continue
        for n in walk_no_nested(f.node):
            if isinstance(n, ast.Attribute) and isinstance(n.value, ast.Name) and n.value.id == sp_ and isinstance(n.ctx, ast.Load):
                reads.setdefault(n.attr, []).append(f"{name}:{n.lineno}")
            if isinstance(n, ast.Call) and isinstance(n.func, ast.Attribute) and dotted(n.func.value) == "self":
                callee = None
                for cls in P.mro(MAT):
                    if n.func.attr in cls.methods:
                        callee = cls.methods[n.func.attr]
                        break
                if callee is None:
                    continue
                formals = [x for x in param_names(callee.node) if x not in ("self", "cls")]
                for i_, a_ in enumerate(n.args):
                    if isinstance(a_, ast.Name) and a_.id == sp_ and i_ < len(formals):
                        work.append((n.func.attr, formals[i_]))
                for k_ in n.keywords:
                    if k_.arg and isinstance(k_.value, ast.Name) and k_.value.id == sp_:
                        work.append((n.func.attr, k_.arg))
    # stateful transforms receive the whole spec as `_spec`; fields they read:
    for f in P.functions.values():
        if "_spec" in param_names(f.node) and f.module.name.startswith("formulaic.transforms"):
            for n in walk_no_nested(f.node):
                if isinstance(n, ast.Attribute) and isinstance(n.value, ast.Name) and n.value.id == "_spec" and isinstance(n.ctx, ast.Load):
                    reads.setdefault(n.attr, []).append(f"{f.name}:{n.lineno}")
    return reads


def r1(ctx):
    P = ctx.project
    reads = spec_fields_read(P)
    ctx.floor("C09.R1", len(reads), 3, "spec fields read during factor evaluation")
    pf = P.func(MAT + "._prepare_factor_evaluation_model_spec")
    calls = [c for c in ast.walk(pf.node) if isinstance(c, ast.Call) and norm(c.func) == "ModelSpec.from_spec"]
    if len(calls) != 1:
        raise AnalysisError("C09.R1: the pooled ModelSpec.from_spec(...) call was not found")
    pooled = {k.arg: k.value for k in calls[0].keywords if k.arg}
    ctx.floor("C09.R1", len(pooled), 4, "keyword arguments of the pooled spec")
    from .shared import pooling_visitor
    vis_, mp, _every = pooling_visitor(P)   # today: the nested update_pooled_spec
    fed: Dict[str, Set[str]] = {}
    partial: Dict[str, str] = {}
    for c in ast.walk(vis_):
        if isinstance(c, ast.Call) and isinstance(c.func, ast.Attribute) and c.func.attr in ("add", "update") and isinstance(c.func.value, ast.Name):
            for n in ast.walk(c):
                if isinstance(n, ast.Attribute) and isinstance(n.value, ast.Name) and n.value.id == mp:
                    fed.setdefault(c.func.value.id, set()).add(n.attr)
            # the whole field must be pooled: `acc.update(model_spec.<field>)` / `acc.add(model_spec.<field>)`, not a filtered view of it
            a0 = c.args[0] if len(c.args) == 1 else None
            whole = isinstance(a0, ast.Attribute) and isinstance(a0.value, ast.Name) and a0.value.id == mp
            chain = isinstance(a0, ast.Call) and (dotted(a0.func) or "").endswith("chain")  # factors: chain(*(term.factors for term in formula))
            if not whole and not chain:
                partial[c.func.value.id] = norm(c)[:120]
    for field, where in sorted(reads.items()):
        ctx.look()
        inst = f"spec.{field} (read at {where[0]}) is pooled from the user's specs"
        v = pooled.get(field)
        if v is None:
            ctx.fail("C09.R1", inst, pf.module.line(calls[0]), ctx.construct(pf, text=f"pooled field {field}"),
                     f"`spec.{field}` is read while evaluating factors, but the pooled spec is built without `{field}=`: the check that reads it "
                     f"only ever sees the default (empty) value")
            continue
        srcs = {n.id for n in ast.walk(v) if isinstance(n, ast.Name)}
        ok = any(field in fed.get(s, set()) for s in srcs)
        filt = [partial[s] for s in srcs if s in partial]
        if ok and filt:
            ctx.fail("C09.R1", inst + " (entirely)", pf.module.line(calls[0]), ctx.construct(pf, text=f"pooled field {field} filtered"),
                     f"`{field}` is pooled through `{filt[0]}` — a filtered view: state recorded for factors the filter misses (e.g. factors that only "
                     f"occur inside interactions) is invisible to the guard that reads spec.{field}")
            continue
        ctx.check(ok, "C09.R1", inst, pf.module.line(calls[0]), ctx.construct(pf, text=f"pooled field {field}"),
                  f"`{field}={norm(v)}` is not fed by the pooling visitor from `{mp}.{field}` (visitor feeds {dict((k, sorted(x)) for k, x in fed.items())})")
    # the guard itself
    ef = P.func(MAT + "._evaluate_factor")
    from ..util import guards_of
    from ..util import single_assignment_env
    env1 = {k: v for k, v in single_assignment_env(ef.node).items()}

    def unfold(text):
        e = sym.subst(ast.parse(text, mode="eval").body, env1)
        return norm(e)
    # the raise guarded by a test on the recorded encoder state (the recorded kind may be looked up into a local first)
    raises = [n for n in ast.walk(ef.node) if isinstance(n, ast.Raise) and n.exc is not None and "FactorEncodingError" in norm(n.exc)
              and any("encoder_state" in unfold(c) for c, _ in guards_of(P, n))]
    ctx.floor("C09.R1", len(raises), 1, "kind guards")
    g = raises[0]
    gs = [(unfold(c), pol) for c, pol in guards_of(P, g)]
    gs = [(c, pol) for c, pol in gs if "encoder_state" in c]
    want = {("factor.expr in spec.encoder_state", True), ("value.__formulaic_metadata__.kind is spec.encoder_state[factor.expr][0]", False)}
    ok = set(gs) == want
    if not ok and len(gs) == 2:
        # the other spelling: K = spec.encoder_state.get(factor.expr, <default>)[0];  K is not None and kind is not K
        ks = [sym.pm("ANY_k is None", ast.parse(c, mode="eval").body) for c, pol in gs if not pol]
        ks = [b_["ANY_k"] for b_ in ks if b_ is not None]
        for K in ks:
            if sym.pm("spec.encoder_state.get(factor.expr, ANY_d)[0]", ast.parse(K, mode="eval").body) is not None and \
                    set(gs) == {(f"{K} is None", False), (f"value.__formulaic_metadata__.kind is {K}", False)}:
                ok = True
    ctx.check(ok, "C09.R1", "the kind guard compares the evaluated kind with the recorded one and raises FactorEncodingError", ef.module.line(g),
              ctx.construct(ef, text="kind guard"), f"guard conditions are {gs}")
    # the guard precedes caching, and the recorded kind is what _encode_evaled_factor stores
    cfg = CFG(ef.node)
    gst = P.enclosing_stmt(g)
    top = gst
    while P.parent(top) is not None and not isinstance(P.parent(top), (ast.FunctionDef, ast.AsyncFunctionDef)) and isinstance(P.parent(top), ast.If):
        top = P.parent(top)
    stores = [s for s in cfg.stmts() if isinstance(s, ast.Assign) and norm(s.targets[0]) == "self.factor_cache[factor.expr]"]
    ctx.check(bool(stores) and all(cfg.dominates(top, s) for s in stores), "C09.R1", "the kind guard runs before the factor is cached", ef.module.line(g),
              ctx.construct(ef, text="guard before cache"), "a factor can be cached without the kind guard having run")
    en = P.func(MAT + "._encode_evaled_factor")
    rec = [s for s in ast.walk(en.node) if isinstance(s, ast.Assign) and norm(s.targets[0]) == "spec.encoder_state[factor.expr]"]
    rec = [r_ for r_ in rec if not (isinstance(P.parent(r_), ast.If) and "factor.expr not in spec.encoder_state" in norm(P.parent(r_).test))]
    ok = len(rec) == 1 and norm(rec[0].value) == "(factor.metadata.kind, encoder_state)"
    ctx.check(ok, "C09.R1", "the recorded encoder state is (kind, state) keyed by the factor expression", en.where, ctx.construct(en, text="record kind"),
              f"records `{norm(rec[0].value) if rec else None}`")
    # … and the encoders are handed THAT state object (what they record in it is what the spec keeps): not a copy of it
    stname = None
    if rec and isinstance(rec[0].value, ast.Tuple) and len(rec[0].value.elts) == 2 and isinstance(rec[0].value.elts[1], ast.Name):
        stname = rec[0].value.elts[1].id
    from .shared import dict_mapper
    try:
        mapper = dict_mapper(P)[0]
    except AnalysisError:
        mapper = None
    enc_calls = [c for c in ast.walk(en.node) if isinstance(c, ast.Call) and (norm(c.func) == "factor.metadata.encoder" or (
        mapper is not None and isinstance(c.func, ast.Call) and norm(c.func.func) == mapper))]
    ctx.floor("C09.R1", len(enc_calls), 3, "encoder invocations in _encode_evaled_factor")
    for c in enc_calls:
        ctx.look()
        given = [a for a in list(c.args) + [k.value for k in c.keywords if k.arg in (None, "encoder_state", "state", "_state")]]
        # `*shared` tuples of arguments are looked through
        from ..util import single_assignment_env
        env_ = single_assignment_env(en.node)
        flat_ = []
        for a in given:
            if isinstance(a, ast.Starred) and isinstance(a.value, ast.Name) and isinstance(env_.get(a.value.id), (ast.Tuple, ast.List)):
                flat_ += list(env_[a.value.id].elts)
            else:
                flat_.append(a)
        ok_ = stname is not None and any(isinstance(a, ast.Name) and a.id == stname for a in flat_)
        ctx.check(ok_, "C09.R1", f"{norm(c.func)[:50]} records into the state object that the spec keeps", en.module.line(c), ctx.construct(en, text=f"state handed to {norm(c.func)[:40]}"),
                  f"the encoder is not handed `{stname}` itself (a copy such as dict({stname}) is thrown away): the levels / contrasts it records never reach "
                  f"spec.encoder_state, so a spec reused on data with fewer levels re-infers them")
    encoder_state_recorded_on_every_path(ctx, "C09.R1")
    ok = any(sym.pm("VAR_s = spec.encoder_state.get(factor.expr, [None, {}])[1]", n) is not None
             or sym.pm("VAR_s: ANY_t = spec.encoder_state.get(factor.expr, [None, {}])[1]", n) is not None for n in ast.walk(en.node))
    ctx.check(ok, "C09.R1", "encoders receive the recorded state of the same factor", en.where, ctx.construct(en, text="reuse state"),
              "expected encoder_state = spec.encoder_state.get(factor.expr, [None, {}])[1]")


def encoder_state_recorded_on_every_path(ctx, rule: str):
    """Every path through _encode_evaled_factor that encodes (or re-uses a cached encoding of) a not-yet-encoded factor records that
    factor's encoder state in the spec being built: either the unconditional store after encoding, or the cache-hit fallback
    `if factor.expr not in spec.encoder_state …: spec.encoder_state[factor.expr] = <cached state>`."""
    P = ctx.project
    f = P.func(MAT + "._encode_evaled_factor")

    def prune(test):
        t, neg = count_negations(test)
        if norm(t) == "factor.metadata.encoded":
            return (neg % 2 == 1)  # analyse the not-encoded case
        return None

    cfg = CFG(f.node, prune=prune)

    def stores(st) -> bool:
        return isinstance(st, ast.Assign) and any(isinstance(t, ast.Subscript) and norm(t.value) == "spec.encoder_state" and norm(t.slice) == "factor.expr" for t in st.targets)

    def gate(st) -> bool:
        if stores(st):
            return True
        if isinstance(st, ast.If) and "factor.expr not in spec.encoder_state" in norm(st.test) and any(stores(x) for x in st.body):
            return True  # the fallback: a no-op exactly when the state is already recorded
        return False

    ctx.look()
    w = cfg.must_pass(gate)
    ctx.check(w is None, rule, "every part's spec records the encoder state of each factor it encodes, also when the encoding comes from the cache", f.where,
              ctx.construct(f, text="encoder state on cache hit"),
              "a returning path re-uses a cached encoding without recording spec.encoder_state[factor.expr]: the spec of a later part of a structured formula cannot "
              "regenerate its own part (levels are no longer pinned, one generated column is copied into every recorded level column)", w)
    # the fallback must take the state recorded when the factor was encoded (same expr key)
    fb = [st for st in ast.walk(f.node) if isinstance(st, ast.If) and "factor.expr not in spec.encoder_state" in norm(st.test)]
    for st in fb:
        a = [x for x in st.body if stores(x)]
        src = norm(a[0].value) if a else ""
        rec = [x for x in ast.walk(f.node) if isinstance(x, ast.Assign) and norm(x.targets[0]).endswith("[factor.expr]") and norm(x.targets[0]) != "spec.encoder_state[factor.expr]"]
        ok = bool(a) and any(norm(r.targets[0]) == src for r in rec) and all(norm(r.value) in ("spec.encoder_state[factor.expr]", "(factor.metadata.kind, encoder_state)") for r in rec if norm(r.targets[0]) == src)
        ctx.check(ok, rule, "the cache-hit fallback copies the state recorded when the factor was first encoded", f.module.line(st), ctx.construct(f, text="fallback source"),
                  f"fallback stores `{src}`, which is not filled from the state recorded at encoding time")


def r2(ctx):
    P = ctx.project
    f = P.func(MAT + "._enforce_structure")
    try:
        outs = sym.outcomes(f.node)
    except sym.Unmodelled as e:
        raise AnalysisError(f"C09.R2: _enforce_structure cannot be summarised: {e}")
    lps = sym.loops_of(outs)
    if not lps:
        raise AnalysisError("C09.R2: loop of _enforce_structure not found")
    lp = lps[0]
    ctx.look(5)
    cols_p = param_names(f.node)[1]
    head, tgt = lp._sym_head, lp._sym_orig.target
    SC = TC = CS = None
    YIELD = None

    def parts(e):
        """(first, second, third) component expressions of a generated-column entry: indexed or tuple-unpacked"""
        if isinstance(e, ast.Name):
            return f"{e.id}[0]", f"{e.id}[1]", f"{e.id}[2]"
        if isinstance(e, ast.Tuple) and len(e.elts) == 3 and all(isinstance(x, ast.Name) for x in e.elts):
            return tuple(x.id for x in e.elts)
        return None

    if isinstance(tgt, ast.Tuple) and len(tgt.elts) == 2:
        if sym.pm(f"enumerate({cols_p})", head) is not None and isinstance(tgt.elts[0], ast.Name) and parts(tgt.elts[1]):
            c0, c1, c2 = parts(tgt.elts[1])
            CS, SC, TC, YIELD = norm(tgt.elts[1]), c2, f"spec.structure[{tgt.elts[0].id}][2]", (c0, c1)
        elif sym.pm(f"zip({cols_p}, spec.structure)", head) is not None and parts(tgt.elts[0]) and parts(tgt.elts[1]):
            c0, c1, c2 = parts(tgt.elts[0])
            CS, SC, TC, YIELD = norm(tgt.elts[0]), c2, parts(tgt.elts[1])[2], (c0, c1)
    line = f.module.line(lp._sym_orig)
    ctx.check(SC is not None, "C09.R2", "generated columns are compared with the recorded columns of the same term", line,
              ctx.construct(f, text="pairing"), f"the loop must pair the i-th generated term with the i-th recorded term; it iterates `{norm(head)}`")
    if SC is None:
        return
    GT, LT, EQ = f"len({SC}) > len({TC})", f"len({SC}) < len({TC})", f"set({SC}) == set({TC})"

    def it(gt, lt, z=None, o=None, eq=None):
        facts = {GT: gt, LT: lt}
        # every spelling of the same three-way comparison (a chain may test ==, then >, and leave < to the else)
        a_, b_ = f"len({SC})", f"len({TC})"
        facts.update({f"{a_} == {b_}": not gt and not lt, f"{b_} == {a_}": not gt and not lt, f"{a_} >= {b_}": not lt, f"{a_} <= {b_}": not gt,
                      f"{b_} < {a_}": gt, f"{b_} > {a_}": lt, f"{b_} <= {a_}": not lt, f"{b_} >= {a_}": not gt})
        if z is not None:
            facts.update({f"len({SC}) == 0": z, SC: not z})
        if o is not None:
            facts[f"len({SC}) == 1"] = o
        if z is not None and o is not None:
            facts.update({f"{a_} > 1": not z and not o, f"{a_} >= 2": not z and not o, f"{a_} < 2": z or o, f"{a_} <= 1": z or o})
        if eq is not None:
            facts[EQ] = eq
        return sym.iteration_effects(outs, lp, facts)

    def all_raise(res):
        return bool(res) and all(k == "raise" and "FactorEncodingError" in norm(o.value) for k, _e, _env, o in res)

    def yields(res):
        return [o for k, _e, _env, o in res if k == "yield"]

    many = it(True, False)
    ctx.check(all_raise(many), "C09.R2", "too many generated columns raise FactorEncodingError", line, ctx.construct(f, text="too many"),
              f"expected FactorEncodingError when more columns were generated than recorded; found {[k for k, *_ in many]}")
    few_bad = it(False, True, z=False, o=False)
    few0, few1 = it(False, True, z=True, o=False), it(False, True, z=False, o=True)
    ok = all_raise(few_bad) and bool(yields(few0)) and bool(yields(few1)) and not any(k == "raise" for k, *_ in few0 + few1)
    ctx.check(ok, "C09.R2", "too few generated columns raise unless exactly 0 or 1 were generated", line, ctx.construct(f, text="too few"),
              f"only the 0-column and 1-column imputation cases may avoid the error; 2..n-1 columns: {[k for k, *_ in few_bad]}, 0: {[k for k, *_ in few0]}, 1: {[k for k, *_ in few1]}")
    mism = it(False, False, eq=False)
    ctx.check(all_raise(mism), "C09.R2", "a name-set mismatch raises FactorEncodingError", line, ctx.construct(f, text="mismatch"),
              f"expected FactorEncodingError when as many columns were generated but their names differ; found {[k for k, *_ in mism]}")
    good = yields(it(False, False, eq=True)) + yields(few0) + yields(few1)
    ok = bool(good) and all(sym.pm(f"({YIELD[0]}, {YIELD[1]}, {{VAR_c: ANY_src[VAR_c] for VAR_c in {TC}}})", o.value) is not None for o in good)
    ctx.check(ok, "C09.R2", "the yielded columns are keyed by the recorded names in the recorded order", line, ctx.construct(f, text="yield"),
              f"yields {[norm(o.value)[:120] for o in good]}; expected ({YIELD[0]}, {YIELD[1]}, {{name: <columns>[name] for name in {TC}}})")
    pre = [o for o in outs if not o.loops and o.kind == "raise" and any((not pol) and norm(c) == f"len({cols_p}) == len(spec.structure)" for c, pol in o.conds)]
    ctx.check(len(pre) >= 1, "C09.R2", "a term-count mismatch raises", f.where, ctx.construct(f, text="term count"),
              "the number of generated terms must equal the number of recorded terms")
    # the builder takes the enforcement path exactly when structure is recorded (shared with C04.R3)
    b = P.func(MAT + "._build_model_matrix")
    from ..util import guards_of
    es = [c for c in ast.walk(b.node) if isinstance(c, ast.Call) and isinstance(c.func, ast.Attribute) and c.func.attr == "_enforce_structure"]
    ok = len(es) == 1 and guards_of(P, es[0]) == [("spec.structure", True)]
    ctx.check(ok, "C09.R2", "recorded structure is enforced whenever it exists", b.where, ctx.construct(b, text="enforce when structure"),
              "expected `if spec.structure: cols = list(self._enforce_structure(cols, spec, drop_rows))`")


def r3(ctx):
    P = ctx.project
    f = P.func("formulaic.transforms.contrasts.encode_contrasts")
    ctx.look(4)
    try:
        outs = [o for o in sym.outcomes(f.node) if o.kind == "return"]
    except sym.Unmodelled as e:
        raise AnalysisError(f"C09.R3: encode_contrasts cannot be summarised: {e}")
    FV = "isinstance(data, FactorValues)"
    REC = "_state.get('categories')"
    # which levels are in force: explicit ones, else the recorded categories, else none (fit time)
    scen = [("explicit levels", {FV: False, "levels is None": False}, "levels"),
            ("recorded categories", {FV: False, "levels is None": True, f"{REC} is None": False}, REC)]
    pinned_ok, extra_ok, warn_ok, cat_ok = True, True, True, True
    seen = 0
    for what, facts, L in scen:
        EX = f"set(pandas.unique(data)).difference({L})"
        for unseen in (True, False):
            fx = dict(facts, **{EX: unseen})
            sel = sym.select(outs, fx, kinds=("return",))
            if not sel:
                pinned_ok = False
                continue
            for o in sel:
                seen += 1
                conds = [norm(sym.simplify(c, fx)) for c, _ in o.conds]
                if EX not in conds:
                    extra_ok = False
                warns = [e for e in o.effects if isinstance(e, ast.Expr) and isinstance(e.value, ast.Call) and dotted(e.value.func) == "warnings.warn"]
                has = any(any(norm(a) == "DataMismatchWarning" for a in w.value.args + [k.value for k in w.value.keywords]) for w in warns)
                if has != unseen:
                    warn_ok = False
                d = sym.value_of(o, "data")
                if d is None or sym.pm_any([f"pandas.Series(pandas.Categorical(data, categories={L}))", f"pandas.Series(pandas.Categorical(data, {L}))"],
                                           sym.simplify(d, fx)) is None:
                    cat_ok = False
    ctx.check(pinned_ok and seen > 0, "C09.R3", "levels are pinned from the recorded categories when not given explicitly", f.where, ctx.construct(f, text="pin levels"),
              "the levels in force must be the explicit `levels`, else _state.get('categories'); some such case has no returning path")
    ctx.check(extra_ok and seen > 0, "C09.R3", "extra categories = values present in the data but not among the levels", f.where, ctx.construct(f, text="extra categories"),
              "expected the test set(pandas.unique(data)).difference(<levels in force>)")
    ctx.check(warn_ok and seen > 0, "C09.R3", "unseen levels are announced with a DataMismatchWarning", f.where, ctx.construct(f, text="warn"),
              "expected warnings.warn(..., DataMismatchWarning) exactly when the data holds values outside the levels in force")
    ctx.check(cat_ok and seen > 0, "C09.R3", "the categorical is built with the pinned levels (absent levels keep their columns, unseen ones add none)", f.where,
              ctx.construct(f, text="Categorical(categories=levels)"), "expected data = pandas.Series(pandas.Categorical(data, categories=<levels in force>))")
    # explicit `levels=` handed to encode_contrasts by the transforms that wrap it must be the user's choice, never derived from the data
    from ..util import derived_names
    n_calls = 0
    for g in P.functions.values():
        if isinstance(g.node, ast.Lambda) or not g.module.name.startswith("formulaic.transforms") or g.qualname == f.qualname:
            continue
        for c in walk_no_nested(g.node):
            if isinstance(c, ast.Call) and dotted(c.func) == "encode_contrasts":
                lv_arg = kwarg(c, "levels")
                if lv_arg is None:
                    continue
                n_calls += 1
                ctx.look()
                data_names = set()
                h = g
                while h is not None:
                    ps = [p for p in param_names(h.node) if not p.startswith("*")]
                    if ps:
                        data_names |= derived_names(h.node, [ps[0]]) if ps[0] in ("data", "values", "x") else set()
                    h = h.parent
                # names bound from a data-derived expression in an enclosing scope count too
                scope = g
                tainted = set(data_names)
                while scope is not None:
                    tainted |= derived_names(scope.node, tainted) if tainted else set()
                    scope = scope.parent
                ctx.check(not mentions(lv_arg, tainted), "C09.R3", f"{g.qualname.replace('formulaic.', '')}: explicit levels are the caller's, not read off the data",
                          g.module.line(c), ctx.construct(g, text="levels= to encode_contrasts"),
                          f"`levels={norm(lv_arg)[:60]}` is derived from the data being encoded: on new data the follow-up column's own categories override the "
                          f"recorded levels (columns appear / disappear, no DataMismatchWarning)")
    ctx.floor("C09.R3", n_calls, 2, "encode_contrasts calls passing levels=")
    st = [s for s in walk_no_nested(f.node) if isinstance(s, ast.Assign) and norm(s.targets[0]) == "_state['categories']"]
    ok = len(st) == 1 and norm(st[0].value) == "categories"
    ctx.check(ok, "C09.R3", "the category list in use is recorded in the encoder state", f.where, ctx.construct(f, text="record categories"),
              "_state['categories'] = categories expected")



def r4(ctx):
    """Every categorical encoder hands encode_contrasts the factor's own recorded state and the spec: levels are recorded at fit time and pinned on reuse."""
    P = ctx.project
    n = 0
    for c in P.subclasses(MAT):
        m = c.methods.get("_encode_categorical")
        if m is None:
            continue
        for call in ast.walk(m.node):
            if isinstance(call, ast.Call) and dotted(call.func) == "encode_contrasts":
                n += 1
                ctx.look()
                kws = {k.arg: norm(k.value) for k in call.keywords if k.arg}
                ok = kws.get("_state") == "encoder_state" and kws.get("_spec") == "spec" and kws.get("_metadata") == "metadata" and kws.get("reduced_rank") == "False"
                ctx.check(ok, "C09.R4", f"{c.qualname.split('.')[-1]}._encode_categorical threads encoder_state / spec / metadata into encode_contrasts", m.module.line(call),
                          ctx.construct(m, text="encode_contrasts kwargs"),
                          f"encode_contrasts is called with {kws}: without `_state=encoder_state` the levels are never recorded for this materializer, so reuse on data "
                          f"with other levels reshapes or mis-fills the columns without a warning")
    ctx.floor("C09.R4", n, 2, "encode_contrasts calls in materializers")
    enc = P.func("formulaic.transforms.contrasts.C").locals_named("encoder")
    calls = [c for c in ast.walk(enc.node) if isinstance(c, ast.Call) and dotted(c.func) == "encode_contrasts"]
    kws = {k.arg: norm(k.value) for k in calls[0].keywords if k.arg} if calls else {}
    ok = kws.get("_state") == "encoder_state" and kws.get("_spec") == "model_spec" and kws.get("levels") == "levels" and kws.get("contrasts") == "contrasts" and kws.get("reduced_rank") == "reduced_rank"
    ctx.check(ok, "C09.R4", "C().encoder threads its encoder_state and the spec into encode_contrasts", enc.where, ctx.construct(enc, text="encode_contrasts kwargs"),
              f"encode_contrasts is called with {kws}")
    # the recorded (kind, state) entry is written for every kind, unconditionally (numerical factors too: their kind is what the guard compares)
    en = P.func(MAT + "._encode_evaled_factor")
    rec = [s_ for s_ in ast.walk(en.node) if isinstance(s_, ast.Assign) and norm(s_.targets[0]) == "spec.encoder_state[factor.expr]" and norm(s_.value) == "(factor.metadata.kind, encoder_state)"]
    ok = len(rec) == 1 and not isinstance(P.parent(rec[0]), ast.If) or (len(rec) == 1 and isinstance(P.parent(rec[0]), ast.If) and "factor.expr in self.encoded_cache" in norm(P.parent(rec[0]).test))
    par = P.parent(rec[0]) if rec else None
    ok = len(rec) == 1 and not (isinstance(par, ast.If) and rec[0] in par.body and "encoder_state" in norm(par.test))
    ctx.check(ok, "C09.R4", "the kind of every encoded factor is recorded unconditionally (also when its encoder kept no state)", en.where, ctx.construct(en, text="record unconditional"),
              "recording only when the state dict is non-empty drops the kind of numerical factors: the kind guard can then never fire for them")


RULES = [("C09.R1", r1), ("C09.R2", r2), ("C09.R3", r3), ("C09.R4", r4)]
