"""C04 — a model spec replays the recorded encoding row by row on any data."""
from __future__ import annotations

import ast
from typing import Dict, List, Optional, Set, Tuple

from ..cfg import CFG, ENTRY, EXIT
from .. import sym
from ..core import AnalysisError, FunctionInfo, Project, arg_for, dotted, is_const, kwarg, norm, param_names, walk_no_nested
from ..util import assignments, count_negations, header_calls, header_exprs, header_walk, mentions, returns_of, stmt_text, strip_casts
from .shared import MAT

EXPLANATION = (
    "Static rules: (R1) for every function with a transform/encoder state parameter (enumerated from the code: the stateful "
    "transforms, their state-taking helpers and the two dict fan-out wrappers) the REPLAY SLICE — the control-flow graph with "
    "the assumption 'every key this function ever writes is already in the state' constant-propagated (k in _state ↦ True, "
    "_state.get(k) ↦ not None, flags assigned from such tests folded, also inside closures) — contains no store into the "
    "state (idempotent re-stores of the object just read and the two frozen level-list re-stores of encode_contrasts "
    "excepted); (R2) in the same slice no result of a reduction over rows applied to data has an explicit data flow to the "
    "return value or to the state (interprocedural through package helpers; flows that only control a raise / warning are "
    "allowed); (R3) recorded structure is reused: both structure decisions in _build_model_matrix share one condition, "
    "rehydration keeps the recorded reduced flags and scale, recorded order is kept; (R4) one normaliser: every PYTHON token "
    "goes through format_expr on every tokenisation path and stateful_eval keys the state with the same format_expr, fed "
    "the spec's own transform_state; (R5) pickling keeps exactly the dataclass fields of ModelSpec and both halves of "
    "ModelMatrix / FactorValues. Equality of the replayed matrix with the original is not decided."
)
ASSUMPTIONS = [
    "reductions over rows (frozen list): mean sum std var min max nanmin nanmax nanmean nansum nanstd median nanmedian quantile "
    "nanquantile percentile nanpercentile unique factorize sort argsort cumsum cumprod shift astype('category') value_counts",
    "pandas.Categorical(data, categories=levels).categories ≡ levels (the frozen exemption of encode_contrasts' two re-stores)",
]

REDUCTIONS = {"mean", "sum", "std", "var", "min", "max", "nanmin", "nanmax", "nanmean", "nansum", "nanstd", "nanvar", "median", "nanmedian",
              "quantile", "nanquantile", "percentile", "nanpercentile", "unique", "factorize", "sort", "argsort", "cumsum", "cumprod", "shift",
              "value_counts", "sort_values", "rank", "mode", "ptp", "amin", "amax", "average"}
STATE_NAMES = ("_state", "state")
DATA_PARAM_HINTS = ("x", "data", "values", "datum", "v", "matrix")


def state_functions(P: Project) -> List[Tuple[FunctionInfo, str]]:
    out = []
    for f in P.functions.values():
        if isinstance(f.node, ast.Lambda):
            continue
        mod = f.module.name
        if not (mod.startswith("formulaic.transforms") or mod in ("formulaic.utils.stateful_transforms", "formulaic.materializers.base")):
            continue
        for p in param_names(f.node):
            if p in STATE_NAMES:
                out.append((f, p))
    return out


class ReplaySlice:
    """CFG of ``f`` (and of its nested closures) under the assumption PRESENT."""

    def __init__(self, P: Project, f: FunctionInfo, S: str, present: bool = True):
        self.P, self.f, self.S, self.present = P, f, S, present
        self.isnone: Set[str] = set()
        fn = f.node
        self.notnone: Set[str] = set()
        self.consts: Dict[str, object] = {}
        # names bound from S.get(k) (one-argument form) are not None in the replay slice
        changed = True
        while changed:
            changed = False
            params0 = set(p.lstrip("*") for p in param_names(fn))
            for name, v, st in assignments(fn, nested=True):
                if name not in self.notnone and self._notnone_expr(v):
                    # every assignment of the name must be not-None (`x = x` binds nothing new); a PARAMETER also has the value it
                    # was called with, so a plain assignment counts only as the None-case of `if x is None: x = …`
                    mine = [(v2, st2) for n2, v2, st2 in assignments(fn, nested=True) if n2 == name and not (isinstance(v2, ast.Name) and v2.id == name)]

                    def fills_none(st2, v2):
                        if isinstance(strip_casts(v2), ast.IfExp):
                            return True   # shape checked by _notnone_expr
                        par = P.parent(st2)
                        return isinstance(par, ast.If) and st2 in par.body and norm(par.test) == f"{name} is None"
                    if mine and all(self._notnone_expr(v2) for v2, _ in mine) and (name not in params0 or all(fills_none(st2, v2) for v2, st2 in mine)):
                        self.notnone.add(name)
                        changed = True
        if not present:
            # TRAINING slice: no key is recorded yet — names bound (only) from S.get(k) are None
            self.isnone = set(self.notnone)
            self.notnone = set()
        # constant flags: iterate pruning until stable
        for _ in range(4):
            cfg = CFG(fn, prune=self.prune)
            reach = cfg.stmts()
            consts: Dict[str, object] = {}
            seen: Dict[str, List[object]] = {}
            for st in reach:
                if isinstance(st, (ast.Assign, ast.AnnAssign)):
                    tgts = st.targets if isinstance(st, ast.Assign) else [st.target]
                    for t in tgts:
                        if isinstance(t, ast.Name):
                            seen.setdefault(t.id, []).append(st.value.value if isinstance(st.value, ast.Constant) else ...)
                elif isinstance(st, (ast.AugAssign, ast.For, ast.With)):
                    for n in ast.walk(st.target if hasattr(st, "target") else st):
                        if isinstance(n, ast.Name) and isinstance(n.ctx, ast.Store):
                            seen.setdefault(n.id, []).append(...)
            params = set(p.lstrip("*") for p in param_names(fn))
            # a flag bound once to a test that the slice decides (`training = alpha is None`) is a constant of the slice
            for st in reach:
                if isinstance(st, ast.Assign) and len(st.targets) == 1 and isinstance(st.targets[0], ast.Name) and not isinstance(st.value, ast.Constant):
                    nm = st.targets[0].id
                    if len(seen.get(nm, [])) == 1 and nm not in params and isinstance(st.value, (ast.Compare, ast.BoolOp, ast.UnaryOp)):
                        v = self.prune(st.value)
                        if v is not None:
                            seen[nm] = [v]
            for n, vals in seen.items():
                if n not in params and ... not in vals and len(set(map(repr, vals))) == 1 and isinstance(vals[0], bool):
                    consts[n] = vals[0]
            if consts == self.consts:
                break
            self.consts = consts
        self.cfg = CFG(fn, prune=self.prune)
        self.stmts: List[ast.stmt] = list(self.cfg.stmts())
        self.nested: List[Tuple[ast.FunctionDef, CFG]] = []
        for st in list(self.stmts):
            if isinstance(st, ast.FunctionDef):
                c = CFG(st, prune=self.prune)
                self.nested.append((st, c))
                self.stmts += c.stmts()
        # lambdas in reachable statements are part of the slice by construction (header_walk descends)

    def _is_S(self, e: ast.AST) -> bool:
        return isinstance(e, ast.Name) and e.id == self.S

    def _notnone_expr(self, v: ast.AST) -> bool:
        v = strip_casts(v)
        if isinstance(v, ast.Call) and isinstance(v.func, ast.Attribute) and v.func.attr == "get" and self._is_S(v.func.value) and len(v.args) == 1 and not v.keywords:
            return True
        if isinstance(v, ast.Name):
            return v.id in self.notnone
        if isinstance(v, (ast.Dict, ast.List, ast.Tuple, ast.Set, ast.ListComp, ast.DictComp, ast.SetComp, ast.JoinedStr)):
            return True
        if isinstance(v, ast.Constant):
            return v.value is not None
        if isinstance(v, ast.IfExp):
            t = v.test
            if (isinstance(t, ast.Compare) and len(t.ops) == 1 and isinstance(t.ops[0], ast.IsNot) and is_const(t.comparators[0], None)
                    and norm(t.left) == norm(v.body)):
                return self._notnone_expr(v.orelse)
            if (isinstance(t, ast.Compare) and len(t.ops) == 1 and isinstance(t.ops[0], ast.Is) and is_const(t.comparators[0], None)
                    and norm(t.left) == norm(v.orelse)):
                return self._notnone_expr(v.body)   # `Y if X is None else X`
            if isinstance(t, ast.UnaryOp) and isinstance(t.op, ast.Not):
                return self._notnone_expr(ast.IfExp(test=t.operand, body=v.orelse, orelse=v.body))
            return self._notnone_expr(v.body) and self._notnone_expr(v.orelse)
        return False

    def prune(self, test: ast.AST) -> Optional[bool]:
        t, neg = count_negations(test)
        val: Optional[bool] = None
        if isinstance(t, ast.Compare) and len(t.ops) == 1:
            op, r = t.ops[0], t.comparators[0]
            if isinstance(op, (ast.In, ast.NotIn)) and self._is_S(r):
                val = isinstance(op, ast.In) if self.present else isinstance(op, ast.NotIn)
            elif isinstance(op, (ast.Is, ast.IsNot)) and is_const(r, None) and isinstance(t.left, ast.Name) and t.left.id in self.notnone:
                val = isinstance(op, ast.IsNot)
            elif isinstance(op, (ast.Is, ast.IsNot)) and is_const(r, None) and isinstance(t.left, ast.Name) and t.left.id in self.isnone:
                val = isinstance(op, ast.Is)
        elif isinstance(t, ast.Name) and t.id in self.consts:
            val = bool(self.consts[t.id])
        elif isinstance(t, ast.BoolOp):
            vals = [self.prune(v) for v in t.values]
            if isinstance(t.op, ast.And):
                if any(v is False for v in vals):
                    val = False
                elif all(v is True for v in vals):
                    val = True
            else:
                if any(v is True for v in vals):
                    val = True
                elif all(v is False for v in vals):
                    val = False
        if val is None:
            return None
        return val ^ (neg % 2 == 1)

    # ---- stores into the state that survive
    def state_aliases(self) -> Dict[str, str]:
        """Locals that, on this slice, only ever hold an object read from the state (`a = S.get(k)` / `a = S[k]`): name -> key text.
        A store INTO such an object is a store into the recorded state."""
        live = {id(s) for s in self.stmts}
        defs: Dict[str, List[ast.AST]] = {}
        for n, v, st in assignments(self.f.node, nested=True):
            if id(st) in live:
                defs.setdefault(n, []).append(strip_casts(v))
        out = {}
        for n, vs in defs.items():
            keys = []
            for v in vs:
                if isinstance(v, ast.Call) and isinstance(v.func, ast.Attribute) and v.func.attr == "get" and self._is_S(v.func.value) and v.args:
                    keys.append(norm(v.args[0]))
                elif isinstance(v, ast.Subscript) and self._is_S(v.value):
                    keys.append(norm(v.slice))
                else:
                    keys = None
                    break
            if keys:
                out[n] = keys[0]
        return out

    def state_stores(self) -> List[Tuple[ast.stmt, str]]:
        out = []
        aliases = self.state_aliases() if self.present else {}
        for st in self.stmts:
            if isinstance(st, (ast.Assign, ast.AugAssign, ast.AnnAssign)):
                tgts = st.targets if isinstance(st, ast.Assign) else [st.target]
                for t in tgts:
                    if isinstance(t, ast.Subscript) and self._is_S(t.value):
                        out.append((st, norm(t.slice)))
                    elif isinstance(t, ast.Subscript) and isinstance(t.value, ast.Name) and t.value.id in aliases:
                        out.append((st, f"{aliases[t.value.id]}[{norm(t.slice)}]"))   # an entry of a recorded container
            elif isinstance(st, ast.Delete):
                for t in st.targets:
                    if isinstance(t, ast.Subscript) and self._is_S(t.value):
                        out.append((st, norm(t.slice)))
            for c in header_calls(st):
                if isinstance(c.func, ast.Attribute) and self._is_S(c.func.value) and c.func.attr in ("update", "setdefault", "pop", "clear", "popitem", "__setitem__"):
                    if c.func.attr == "setdefault" and self.present:
                        continue  # dict.setdefault never overwrites a key that is present: on replay it is a read
                    out.append((st, c.func.attr))
        return out

    def idempotent(self, st: ast.stmt) -> bool:
        """S[k] = v where v is the very object just read by S.get(k, ...) / S[k]."""
        if not (isinstance(st, ast.Assign) and len(st.targets) == 1 and isinstance(st.value, ast.Name)):
            return False
        key = norm(st.targets[0].slice)
        src = [v for n, v, _ in assignments(self.f.node, nested=True) if n == st.value.id]
        return len(src) == 1 and isinstance(src[0], ast.Call) and isinstance(src[0].func, ast.Attribute) and src[0].func.attr == "get" \
            and self._is_S(src[0].func.value) and src[0].args and norm(src[0].args[0]) == key


FROZEN_RESTORES = {
    ("formulaic.transforms.contrasts.encode_contrasts", "'categories'"): "re-stores the pinned level list it was given",
    ("formulaic.transforms.contrasts.encode_contrasts", "'contrasts'"): "introspection-only record derived from the pinned level list",
}


def r1(ctx):
    P = ctx.project
    subs = state_functions(P)
    ctx.floor("C04.R1", len(subs), 9, "functions with a state parameter")
    for f, S in subs:
        ctx.look()
        sl = ReplaySlice(P, f, S)
        stores = sl.state_stores()
        inst = f"{f.qualname.replace('formulaic.', '')}: replaying (all keys recorded) writes no state"
        bad = []
        for st, key in stores:
            if sl.idempotent(st):
                continue
            if (f.qualname, key) in FROZEN_RESTORES:
                # the exemption is only valid while the stored value is still derived from the pinned levels
                v = st.value if isinstance(st, ast.Assign) else None
                if key == "'categories'" and not (isinstance(v, ast.Name) and v.id == "categories"):
                    bad.append((st, key))
                continue
            bad.append((st, key))
        if bad:
            for st, key in bad:
                ctx.fail("C04.R1", inst, f.module.line(st), ctx.construct(f, text=f"state write {key} on replay: {stmt_text(st, 70)}"),
                         f"`{stmt_text(st, 90)}` is reachable when every key is already recorded: applying the spec to new data overwrites "
                         f"the recorded {key} (the encoding then depends on the new data, not on the recorded state)")
        else:
            ctx.ok("C04.R1", inst, f.where, f"{len(stores)} store(s) survive only as idempotent/frozen re-stores")
    # a transform that takes `_state` only receives recorded state if stateful_eval recognises it: it must be wrapped by stateful_transform
    for f, S in subs:
        if S != "_state" or f.qualname.endswith((".wrapper", ".wrapped")) or not f.module.name.startswith("formulaic.transforms"):
            continue
        ctx.look()
        deco = any(d.split("(")[0].split(".")[-1] == "stateful_transform" for d in f.decorators())
        assigned = any(isinstance(v, ast.Call) and (dotted(v.func) or "").endswith("stateful_transform") and f.name in {n.id for n in ast.walk(v) if isinstance(n, ast.Name)}
                       for v in f.module.assigns.values())
        ctx.check(deco or assigned, "C04.R1", f"{f.qualname.replace('formulaic.', '')} is registered as a stateful transform", f.where, ctx.construct(f, text="stateful registration"),
                  f"`{f.name}` takes `_state` but is not wrapped by stateful_transform: stateful_eval never records or supplies its state, so every replay re-fits on the new data")
    wrapper_recursion(ctx, "C04.R1")
    # state is threaded unchanged through delegating transforms
    for q, callee in (("formulaic.transforms.scale.center", "scale"), ("formulaic.transforms.patsy_compat.standardize", "scale")):
        f = P.func(q)
        calls = [c for c in ast.walk(f.node) if isinstance(c, ast.Call) and dotted(c.func) == callee]
        ok = len(calls) == 1 and kwarg(calls[0], "_state") is not None and norm(kwarg(calls[0], "_state")) == "_state"
        ctx.check(ok, "C04.R1", f"{f.name} hands its own state dict to {callee}", f.where, ctx.construct(f, text="delegate state"),
                  f"{f.name} must call {callee}(..., _state=_state) with the same dictionary")


def strip_all_casts(e: ast.AST) -> ast.AST:
    """A copy of ``e`` with every typing.cast(T, x) replaced by x."""
    import copy

    class R(ast.NodeTransformer):
        def visit_Call(self, n):
            self.generic_visit(n)
            if dotted(n.func) in ("cast", "typing.cast") and len(n.args) == 2 and not n.keywords:
                return n.args[1]
            return n
    return ast.fix_missing_locations(R().visit(copy.deepcopy(e)))


def wrapper_recursion(ctx, rule: str):
    """The dict fan-out of the stateful wrapper calls itself per column with the SAME positional and keyword arguments and the column's own state."""
    P = ctx.project
    w = P.func("formulaic.utils.stateful_transforms.stateful_transform").locals_named("wrapper")
    rec = [c for c in ast.walk(w.node) if isinstance(c, ast.Call) and dotted(c.func) == "wrapper"]
    ctx.floor(rule, len(rec), 1, "recursive wrapper calls")
    for c in rec:
        ctx.look()
        star = [norm(a.value) for a in c.args if isinstance(a, ast.Starred)]
        dstar = sorted(norm(k.value) for k in c.keywords if k.arg is None)
        st = kwarg(c, "_state")
        ok = norm(c.args[0]) == "datum" and star == ["args"] and dstar == ["extra_params", "kwargs"] and st is not None and norm(st) == "statum"
        ctx.check(ok, rule, "per-column recursion of the stateful wrapper forwards *args, **kwargs, the injected parameters and the column's state", w.module.line(c),
                  ctx.construct(w, text="wrapper recursion"),
                  f"recursive call is `{norm(c)[:120]}`: options such as ddof / center / degree would silently fall back to their defaults for multi-column input")
    fin = [c for c in ast.walk(w.node) if isinstance(c, ast.Call) and dotted(c.func) == "func"]
    ok = len(fin) == 1 and [norm(a) for a in fin[0].args] == ["data", "*args"] and "**kwargs" in norm(fin[0]) and "**extra_params" in norm(fin[0]) and "'_state': _state" in norm(fin[0])
    ctx.check(ok, rule, "the wrapped transform receives the data, all arguments, the injected parameters and the state", w.where, ctx.construct(w, text="wrapper call"),
              f"final call is `{norm(fin[0])[:140] if fin else None}`")


def _is_reduction_call(c: ast.Call, red_locals: Set[str]) -> bool:
    d = dotted(c.func) or ""
    tail = d.split(".")[-1] if d else (c.func.attr if isinstance(c.func, ast.Attribute) else "")
    if isinstance(c.func, ast.Name) and c.func.id in red_locals:
        return True
    if isinstance(c.func, ast.IfExp):
        # (numpy.nanmin if … else numpy.nanmax)(x)
        arms = [c.func.body, c.func.orelse]
        if all((dotted(a) or "").split(".")[-1] in REDUCTIONS for a in arms):
            return True
    if tail in REDUCTIONS:
        # builtins min/max/sum/sorted on python lists are included deliberately (same semantics)
        return True
    if tail == "astype" and c.args and isinstance(c.args[0], ast.Constant) and c.args[0].value == "category":
        return True
    return False


def reducing_params(P: Project, f: FunctionInfo, memo: Dict[str, Set[str]], depth: int = 0) -> Set[str]:
    """Parameters of a package helper whose value reaches the argument of a reduction over rows."""
    if f.qualname in memo:
        return memo[f.qualname]
    memo[f.qualname] = set()
    fn = f.node
    params = [p for p in param_names(fn) if not p.startswith("*")]
    out = set()
    asg = assignments(fn, nested=True)
    # a callee that itself takes the state is summarised on ITS replay slice (the caller hands its state on)
    live = None
    sp = [p for p in params if p in STATE_NAMES]
    if sp:
        sl = ReplaySlice(P, f, sp[0])
        live = {id(x) for st in sl.stmts for e in header_exprs(st) for x in ast.walk(e)}
    for p in params:
        derived = {p}
        changed = True
        while changed:
            changed = False
            for n, v, _ in asg:
                if n not in derived and mentions(v, derived):
                    derived.add(n)
                    changed = True
        for c in ast.walk(fn):
            if isinstance(c, ast.Call):
                if live is not None and id(c) not in live:
                    continue
                args = list(c.args) + [k.value for k in c.keywords]
                recv = [c.func.value] if isinstance(c.func, ast.Attribute) else []
                if _is_reduction_call(c, set()) and any(mentions(a, derived) for a in args + recv):
                    out.add(p)
                q = P.resolve_in(f, c.func)
                if q in P.functions and q != f.qualname and depth < 4:
                    g = P.functions[q]
                    rp = reducing_params(P, g, memo, depth + 1)
                    for name in rp:
                        a = arg_for(c, g.node, name)
                        if a is not None and mentions(a, derived):
                            out.add(p)
    memo[f.qualname] = out
    return out


def r2(ctx):
    P = ctx.project
    subs = state_functions(P)
    memo: Dict[str, Set[str]] = {}
    n_red = 0
    for f, S in subs:
        if f.qualname.endswith(".wrapper") or f.qualname.endswith(".wrapped"):
            continue
        sl = ReplaySlice(P, f, S)
        fn = f.node
        data_params = [p for p in param_names(fn) if not p.startswith("*") and p not in STATE_NAMES and not p.startswith("_")][:1]
        reach_ids = {id(s) for s in sl.stmts}
        reach_asg = [(n, v, st) for n, v, st in assignments(fn, nested=True) if id(st) in reach_ids or isinstance(st, ast.comprehension)]
        # data-derived names within the slice
        data = set(data_params)
        changed = True
        while changed:
            changed = False
            for n, v, _ in reach_asg:
                if n not in data and mentions(v, data) and not _state_only(v, S):
                    data.add(n)
                    changed = True
        # locals bound to a reduction function (func = numpy.nanmin if ... else numpy.nanmax)
        red_locals = set()
        for n, v, _ in reach_asg:
            cands = [v.body, v.orelse] if isinstance(v, ast.IfExp) else [v]
            if all((dotted(c) or "").split(".")[-1] in REDUCTIONS for c in cands if isinstance(c, (ast.Name, ast.Attribute))) and \
                    all(isinstance(c, (ast.Name, ast.Attribute)) for c in cands):
                red_locals.add(n)
        tainted: Set[str] = set()
        direct_hits: List[Tuple[ast.stmt, ast.Call]] = []
        for st in sl.stmts:
            for c in header_calls(st):
                args = list(c.args) + [k.value for k in c.keywords]
                recv = [c.func.value] if isinstance(c.func, ast.Attribute) else []
                hit = _is_reduction_call(c, red_locals) and any(mentions(a, data) for a in args + recv)
                if not hit:
                    q = P.resolve_in(f, c.func)
                    if q in P.functions and q != f.qualname:
                        g = P.functions[q]
                        for name in reducing_params(P, g, memo):
                            a = arg_for(c, g.node, name)
                            if a is not None and mentions(a, data):
                                hit = True
                if not hit:
                    continue
                n_red += 1
                ctx.look()
                if isinstance(st, (ast.Assign, ast.AnnAssign, ast.AugAssign)):
                    tg = st.targets if isinstance(st, ast.Assign) else [st.target]
                    for t in tg:
                        for nm in ast.walk(t):
                            if isinstance(nm, ast.Name):
                                tainted.add(nm.id)
                    if any(isinstance(t, ast.Subscript) and isinstance(t.value, ast.Name) and t.value.id == S for t in tg):
                        direct_hits.append((st, c))
                elif isinstance(st, ast.Return):
                    direct_hits.append((st, c))
                elif isinstance(st, (ast.If, ast.While, ast.Raise)) or (isinstance(st, ast.Expr) and "warn" in norm(st)):
                    pass  # controls a branch / raise / warning only
                elif isinstance(st, ast.Expr):
                    pass
        changed = True
        while changed:
            changed = False
            for n, v, st in reach_asg:
                if n not in tainted and mentions(v, tainted):
                    tainted.add(n)
                    changed = True
        inst = f"{f.qualname.replace('formulaic.', '')}: no cross-row statistic of the data reaches the output when replaying"
        bad = list(direct_hits)
        if tainted:
            for st in sl.stmts:
                if isinstance(st, ast.Return) and st.value is not None and mentions(st.value, tainted):
                    bad.append((st, None))
                if isinstance(st, ast.Assign) and any(isinstance(t, ast.Subscript) and isinstance(t.value, ast.Name) and t.value.id == S for t in st.targets) \
                        and mentions(st.value, tainted):
                    bad.append((st, None))
        if bad:
            for st, c in bad:
                ctx.fail("C04.R2", inst, f.module.line(st), ctx.construct(f, text=f"reduction flow: {stmt_text(st, 70)}"),
                         f"with all state recorded, `{stmt_text(st, 90)}` still depends on a reduction over the rows of the new data "
                         f"({'`' + norm(c)[:60] + '`' if c is not None else 'via ' + str(sorted(tainted)[:4])}): a row's encoding would change "
                         f"with the other rows present")
        else:
            ctx.ok("C04.R2", inst, f.where)
    ctx.notes.append(f"C04.R2: {n_red} data reductions remain in replay slices (all control-only or state-derived)")


def _state_only(v: ast.AST, S: str) -> bool:
    """Expression that reads only the state (e.g. `_state['knots']`, `float(_state['lower_bound'])`)."""
    names = {n.id for n in ast.walk(v) if isinstance(n, ast.Name)}
    return S in names and names <= {S, "float", "int", "numpy", "list", "tuple"}


def r3(ctx):
    P = ctx.project
    b = P.func(MAT + "._build_model_matrix")
    from ..expect import contains
    from ..util import guards_of
    ctx.look(3)
    # every construct that depends on the recorded structure is taken exactly when `spec.structure` is set
    sites = [n for n in ast.walk(b.node) if (isinstance(n, ast.Call) and isinstance(n.func, ast.Attribute) and n.func.attr in ("_enforce_structure", "rehydrate", "_get_scoped_terms"))
             or (isinstance(n, ast.Call) and norm(n.func) == "spec.update" and kwarg(n, "structure") is not None)]
    want = {"_enforce_structure": True, "rehydrate": True, "_get_scoped_terms": False, "update": False}
    got = {}
    for n in sites:
        g = [(c, pol) for c, pol in guards_of(P, n) if "structure" in c]
        got[n.func.attr] = g
    ok = set(got) == set(want) and all(got[k] == [("spec.structure", want[k])] for k in want)
    ctx.check(ok, "C04.R3", "scoped-term reuse and column enforcement are guarded by the same condition", b.where,
              ctx.construct(b, text="structure conditions"), f"structure-related conditions: {got}")
    ok, why2 = contains(P, b, """
        def _build_model_matrix(self, spec, drop_rows):
            if spec.structure:
                scoped_terms_for_terms = ((s.term, [st.rehydrate(self.factor_cache) for st in s.scoped_terms]) for s in spec.structure)
            else:
                scoped_terms_for_terms = self._get_scoped_terms(ANY_terms, ensure_full_rank=spec.ensure_full_rank)
            ...
    """)
    ok2 = False
    ctx.check(ok or ok2, "C04.R3", "recorded terms and scoped terms are reused in recorded order, rehydrated from this build's factor cache", b.where,
              ctx.construct(b, text="rehydration"), f"{why2}")
    rh = P.method("formulaic.materializers.types.scoped_term.ScopedTerm", "rehydrate")
    r = returns_of(rh.node)
    t = norm(r[0].value) if r else ""
    ok = "ScopedFactor(factor=factor_values[factor.factor.expr], reduced=factor.reduced)" in t and "for factor in self.factors" in t and t.endswith("scale=self.scale)")
    ctx.check(ok, "C04.R3", "rehydration keeps the recorded reduced flags, factor order and scale", rh.where, ctx.construct(rh, text="rehydrate"),
              f"rehydrate returns `{t[:150]}`")
    cp = P.method("formulaic.materializers.types.scoped_term.ScopedTerm", "copy")
    try:
        co = sym.outcomes(cp.node)
    except sym.Unmodelled as e:
        raise AnalysisError(f"C04.R3: ScopedTerm.copy cannot be summarised: {e}")
    bare = sym.eval_under(co, {"without_values": True}, kinds=("return", "fall"))
    ok = len(bare) == 1 and bare[0][1] is not None
    if ok:
        m = sym.pm_any(["ScopedTerm(ANY_f, scale=self.scale)", "ScopedTerm(factors=ANY_f, scale=self.scale)"], bare[0][1])
        fx = None
        if m is not None:
            fx = ast.parse(m["ANY_f"], mode="eval").body
            while isinstance(fx, ast.Call) and norm(fx.func) in ("list", "tuple") and len(fx.args) == 1:
                fx = fx.args[0]
        ok = isinstance(fx, (ast.ListComp, ast.GeneratorExp)) and len(fx.generators) == 1 and not fx.generators[0].ifs \
            and norm(fx.generators[0].iter) == "self.factors" and isinstance(fx.generators[0].target, ast.Name)
        if ok:
            v = fx.generators[0].target.id
            ok = sym.pm_any([f"ScopedFactor(factor={v}.factor.replace(values=None), reduced={v}.reduced)", f"ScopedFactor({v}.factor.replace(values=None), {v}.reduced)",
                             f"ScopedFactor({v}.factor.replace(values=None), reduced={v}.reduced)"], fx.elt) is not None
    ctx.check(ok, "C04.R3", "the recorded copy (without values) keeps reduced flags and scale", cp.where, ctx.construct(cp, text="copy"),
              "ScopedTerm.copy(without_values=True) must keep `reduced` and `scale`")
    SK = """
        def _build_model_matrix(self, spec, drop_rows):
            cols = []
            for term, scoped_terms in scoped_terms_for_terms:
                scoped_cols = {}
                ...
                cols.append((term, scoped_terms, scoped_cols))
            if spec.structure:
                cols = list(self._enforce_structure(cols, spec, drop_rows))
            else:
                spec = spec.update(structure=[EncodedTermStructure(term, %s, list(scoped_cols)) for term, scoped_terms, scoped_cols in cols])
            ...
    """
    from ..expect import contains_any
    SK2 = SK.replace("EncodedTermStructure(term, %s, list(scoped_cols))", "EncodedTermStructure(term=term, scoped_terms=%s, columns=list(scoped_cols))")
    ok, why = contains_any(P, b, [k % v for k in (SK, SK2) for v in ("list(st.copy(without_values=True) for st in scoped_terms)", "[st.copy(without_values=True) for st in scoped_terms]")])
    ctx.check(ok, "C04.R3", "the recorded structure lists, per term, its scoped terms and the generated column names in generation order", b.where,
              ctx.construct(b, text="record structure"), f"structure recording: {why}")


def r4(ctx):
    P = ctx.project
    n = 0
    for q in ("formulaic.parser.types.formula_parser.FormulaParser.get_tokens_from_formula", "formulaic.parser.parser.DefaultFormulaParser.get_tokens_from_formula"):
        f = P.func(q)
        toks = [c for c in ast.walk(f.node) if isinstance(c, ast.Call) and dotted(c.func) == "tokenize"]
        n += len(toks)
        for c in toks:
            ctx.look()
            par = P.parent(c)
            ok = isinstance(par, ast.Call) and dotted(par.func) == "sanitize_tokens" and par.args and par.args[0] is c
            ctx.check(ok, "C04.R4", f"{q.split('.')[-2]}: every token stream passes through sanitize_tokens", f.module.line(c), ctx.construct(f, text="sanitize(tokenize)"),
                      "tokenize(...) must be wrapped directly in sanitize_tokens(...): Python fragments would otherwise keep their raw spelling")
    ctx.floor("C04.R4", n, 2, "tokenize call sites in parsers")
    sp = P.func("formulaic.parser.algos.sanitize_tokens.sanitize_python_code")
    calls = [c for c in ast.walk(sp.node) if isinstance(c, ast.Call) and dotted(c.func) == "format_expr"]
    ctx.check(len(calls) == 1 and "sanitize_variable_names(" in norm(calls[0].args[0]), "C04.R4", "the parser normalises Python fragments with format_expr", sp.where,
              ctx.construct(sp, text="format_expr"), "sanitize_python_code must return format_expr(sanitize_variable_names(...))")
    se = P.func("formulaic.utils.stateful_transforms.stateful_eval")
    from ..expect import contains
    # how the stateful calls are collected for instrumentation: the collection that `for name, node in …` runs over is a LIST of
    # (format_expr(call), call) pairs, one per call met by ast.walk(code) — built by a comprehension or by appends, with the
    # "is this a stateful transform" test inline or in a helper
    inst = [lp for lp in walk_no_nested(se.node) if isinstance(lp, ast.For) and isinstance(lp.target, ast.Tuple) and len(lp.target.elts) == 2
            and any("keywords.append" in norm(x) for x in ast.walk(lp))]
    items, keyed, walks_code = [], [], False
    if len(inst) == 1:
        it = inst[0].iter
        coll = it.id if isinstance(it, ast.Name) else None
        comps = [it] if isinstance(it, (ast.ListComp, ast.GeneratorExp)) else []
        if coll:
            for st in walk_no_nested(se.node):
                if isinstance(st, ast.Assign) and len(st.targets) == 1 and norm(st.targets[0]) == coll and isinstance(st.value, (ast.ListComp, ast.GeneratorExp)):
                    comps.append(st.value)
                if isinstance(st, ast.Assign) and isinstance(st.targets[0], ast.Subscript) and norm(st.targets[0].value) == coll:
                    keyed.append(st)
                if isinstance(st, ast.Assign) and len(st.targets) == 1 and norm(st.targets[0]) == coll and isinstance(st.value, (ast.Dict, ast.DictComp)):
                    keyed.append(st)
                if isinstance(st, ast.Expr) and isinstance(st.value, ast.Call) and norm(st.value.func) == f"{coll}.append" and len(st.value.args) == 1:
                    lp_ = P.parent(st)
                    while lp_ is not None and not isinstance(lp_, (ast.For, ast.FunctionDef)):
                        lp_ = P.parent(lp_)
                    if isinstance(lp_, ast.For) and norm(lp_.iter) == "ast.walk(code)" and isinstance(lp_.target, ast.Name):
                        walks_code = True
                        items.append((st.value.args[0], lp_.target.id))
        for c_ in comps:
            if len(c_.generators) == 1 and norm(c_.generators[0].iter) == "ast.walk(code)" and isinstance(c_.generators[0].target, ast.Name):
                walks_code = True
                items.append((c_.elt, c_.generators[0].target.id))
    ok = bool(items) and walks_code and all(sym.pm_any([f"(format_expr({v}), {v})"], strip_all_casts(e_)) is not None for e_, v in items)
    ctx.check(ok, "C04.R4", "stateful_eval keys transform state with the same normaliser", se.where, ctx.construct(se, text="state key"),
              f"every stateful call must be collected as (format_expr(node), node); collected: {[norm(e_)[:60] for e_, _v in items]}")
    ok, why = contains(P, se, """
        def stateful_eval(expr, env, metadata, state, spec, variables=None):
            for name, node in ANY_nodes:
                ...
                if name not in state:
                    state[name] = {}
                ...
                node.keywords.append(ast.keyword("_state", ast.parse(f'__FORMULAIC_STATE__["{name}"]', mode="eval").body))
                ...
            ...
    """)
    ctx.check(ok, "C04.R4", "a transform's state dict is created once per key and handed to the call by that key", se.where, ctx.construct(se, text="state dict per key"),
              f"state[name] must be created only when absent and passed as _state: {why}")
    # every stateful call found is instrumented: the collection keeps ALL occurrences (the same call may appear twice in one factor)
    ok = bool(items) and not keyed
    ctx.check(ok, "C04.R4", "stateful_eval keeps every occurrence of a stateful call (appends, never overwrites by key)", se.where, ctx.construct(se, text="collect stateful nodes"),
              "stateful calls are collected with a keyed store (`nodes[key] = node`): of several identical calls in one factor only the last is handed `_state`, the "
              "others re-fit on new data")
    # which calls are stateful is decided on the OBJECT the callee expression evaluates to in the environment (so `tf.scale(x)`,
    # `m.transforms.poly(x, 2)` are recognised like `scale(x)`), wherever that test lives (helper or inline)
    mod_fns = [g for q, g in P.functions.items() if q.startswith("formulaic.utils.stateful_transforms.") and not isinstance(g.node, ast.Lambda)]
    marks = []
    for g in mod_fns:
        for c_ in walk_no_nested(g.node):
            if isinstance(c_, ast.Call) and norm(c_.func) == "getattr" and len(c_.args) >= 2 and is_const(c_.args[1], "__is_stateful_transform__"):
                marks.append((g, c_))
    ctx.floor("C04.R4", len(marks), 1, "reads of the __is_stateful_transform__ marker")
    for g, c_ in marks:
        ctx.look()
        from ..util import inline_locals
        subj = inline_locals(c_.args[0], g.node)
        evs_ = [x for x in ast.walk(subj) if isinstance(x, ast.Call) and norm(x.func) == "eval"]
        ok = any(any(isinstance(a, ast.Attribute) and a.attr == "func" for a in ast.walk(x.args[0])) and any(norm(a) == "env" for a in x.args[1:]) for x in evs_ if x.args)
        ctx.check(ok, "C04.R4", "a call is stateful when the object its callee expression evaluates to in the environment carries the marker", g.module.line(c_),
                  ctx.construct(g, text="stateful marker lookup"),
                  f"the marker is read from `{norm(subj)[:90]}`: the callee must be resolved by evaluating the whole function expression (node.func) against env — a "
                  f"lookup by bare name misses transforms reached through a namespace (`tf.scale(x)`), which then run without the recorded state")
    ok, why = contains(P, se, """
        def stateful_eval(expr, env, metadata, state, spec, variables=None):
            for name, node in ANY_nodes:
                ...
                node.keywords.append(ast.keyword("_context", ast.parse("__FORMULAIC_CONTEXT__", mode="eval").body))
                node.keywords.append(ast.keyword("_metadata", ast.parse(f'__FORMULAIC_METADATA__.get("{name}")', mode="eval").body))
                node.keywords.append(ast.keyword("_state", ast.parse(f'__FORMULAIC_STATE__["{name}"]', mode="eval").body))
                node.keywords.append(ast.keyword("_spec", ast.parse("__FORMULAIC_SPEC__", mode="eval").body))
            ...
    """)
    ctx.check(ok, "C04.R4", "each collected call is given _context, _metadata, _state and _spec", se.where,
              ctx.construct(se, text="instrument"), f"keywords injected: {why}")
    # the state key identifies the ORIGINAL expression: text that went through sanitize_variable_names (non-injective: every non-word
    # character becomes `_`) must be mapped back through the alias table before it is used as an identity, as the parser's normaliser does
    spc = P.func("formulaic.parser.algos.sanitize_tokens.sanitize_python_code")
    back_parser = any(isinstance(x, ast.While) and norm(x.test) == "aliases" and ("expr.replace(alias" in norm(x) or ("re.sub(" in norm(x) and "re.escape(alias)" in norm(x)))
                      for x in ast.walk(spc.node))
    ctx.check(back_parser, "C04.R4", "the parser's normaliser maps sanitised names back to the quoted originals", spc.where, ctx.construct(spc, text="alias back-substitution"),
              "sanitize_python_code must undo the aliasing before the text becomes a factor expression")
    uses_aliases_for_key = any(isinstance(x, (ast.For, ast.While)) and "aliases" in norm(getattr(x, "iter", getattr(x, "test", ast.Constant(0)))) and "name" in norm(x) and "replace" in norm(x)
                               for x in ast.walk(se.node))
    ctx.check(uses_aliases_for_key, "C04.R4", "the transform-state key is mapped back through the alias table (distinct quoted names keep distinct keys)", se.where,
              ctx.construct(se, text="state key from sanitised text"),
              "stateful_eval keys the state with the SANITISED call text: `scale(`a b`)` and `scale(`a.b`)` both become `scale(a_b)` and share one state entry")
    # wherever in the materializer the stateful evaluator is called (a small method of its own today)
    evs = [g for q, g in P.functions.items() if q.startswith(MAT + ".") and not isinstance(g.node, ast.Lambda)
           and any(isinstance(c, ast.Call) and dotted(c.func) == "stateful_eval" for c in walk_no_nested(g.node))]
    if not evs:
        raise AnalysisError("C04.R4: the stateful_eval call of the materializer was not found")
    ev = evs[0]
    c = [c for g in evs for c in walk_no_nested(g.node) if isinstance(c, ast.Call) and dotted(c.func) == "stateful_eval"]
    sefn = se.node
    # (the normal form may show the call twice: in the small helper and where that helper is inlined — each is held to the rule)
    ok = bool(c) and all(norm(arg_for(x, sefn, "state") or ast.Constant(0)) == "spec.transform_state" and norm(arg_for(x, sefn, "spec") or ast.Constant(0)) == "spec"
                         and norm(arg_for(x, sefn, "env") or ast.Constant(0)) == "self.layered_context" for x in c)
    ctx.check(ok, "C04.R4", "factor evaluation threads the spec's own transform_state", ev.where, ctx.construct(ev, text="stateful_eval args"),
              f"stateful_eval is called as `{norm(c[0])[:120] if c else None}`")


def r5(ctx):
    P = ctx.project
    gs = P.method("formulaic.model_spec.ModelSpec", "__getstate__")
    r = returns_of(gs.node)
    ctx.look(3)
    ok = bool(r) and norm(r[0].value) == "{k: v for k, v in self.__dict__.items() if k in self.__dataclass_fields__}"
    ctx.check(ok, "C04.R5", "ModelSpec pickles exactly its dataclass fields", gs.where, ctx.construct(gs, text="getstate"),
              f"__getstate__ returns `{norm(r[0].value) if r else None}`")
    MS = P.cls("formulaic.model_spec.ModelSpec")
    need = {"formula", "materializer", "materializer_params", "ensure_full_rank", "na_action", "output", "cluster_by", "structure", "transform_state", "encoder_state"}
    have = set(MS.annotations)
    ctx.check(need <= have, "C04.R5", "the state needed to replay is held in dataclass fields", MS.where, ctx.construct(MS.qualname, text="fields"),
              f"missing fields: {sorted(need - have)}")
    ok = any("dataclass(frozen=True)" in norm(d) for d in MS.node.decorator_list)
    ctx.check(ok, "C04.R5", "ModelSpec is a frozen dataclass", MS.where, ctx.construct(MS.qualname, text="frozen"), "ModelSpec must stay @dataclass(frozen=True)")
    for q, want in (("formulaic.model_matrix.ModelMatrix", "(ModelMatrix, (self.__wrapped__, self._self_model_spec))"),
                    ("formulaic.materializers.types.factor_values.FactorValues", "(FactorValues, (self.__wrapped__, self._self_metadata))")):
        m = P.method(q, "__reduce_ex__")
        r = returns_of(m.node)
        ctx.check(bool(r) and norm(r[0].value) == want, "C04.R5", f"{q.split('.')[-1]} pickles both the wrapped object and its spec/metadata", m.where,
                  ctx.construct(m, text="reduce"), f"__reduce_ex__ returns `{norm(r[0].value) if r else None}`")



def r6(ctx):
    """Row-wise transformations of the data are applied identically when fitting and when replaying: an assignment that
    re-binds a data-derived value reaching the result must be reachable in the TRAINING slice (no key recorded) exactly
    when it is reachable in the REPLAY slice (all keys recorded)."""
    P = ctx.project
    n = 0
    for f, S in state_functions(P):
        if f.qualname.endswith(".wrapper") or f.qualname.endswith(".wrapped"):
            continue
        fn = f.node
        rep, trn = ReplaySlice(P, f, S, True), ReplaySlice(P, f, S, False)
        rid, tid = {id(s) for s in rep.stmts}, {id(s) for s in trn.stmts}
        data_params = [p for p in param_names(fn) if not p.startswith("*") and p not in STATE_NAMES and not p.startswith("_")][:1]
        asg = assignments(fn, nested=True)
        data = set(data_params)
        changed = True
        while changed:
            changed = False
            for nm, v, _ in asg:
                if nm not in data and mentions(v, data) and not _reads_state(v, S):
                    data.add(nm)
                    changed = True
        # names that are (aliases of) recorded state are not "data"
        state_alias = {nm for nm, v, st in asg if _reads_state(v, S)}
        for st in walk_no_nested(fn):
            if isinstance(st, ast.Assign):
                for t in st.targets:
                    if isinstance(t, ast.Subscript) and isinstance(t.value, ast.Name) and t.value.id == S and isinstance(st.value, ast.Name):
                        state_alias.add(st.value.id)
                if len(st.targets) > 1:  # _state[k] = name = value
                    if any(isinstance(t, ast.Subscript) and isinstance(t.value, ast.Name) and t.value.id == S for t in st.targets):
                        state_alias |= {t.id for t in st.targets if isinstance(t, ast.Name)}
        for nm, v, st in asg:
            if not isinstance(st, (ast.Assign, ast.AugAssign, ast.AnnAssign)) or nm not in data or nm in state_alias:
                continue
            in_r, in_t = id(st) in rid, id(st) in tid
            if in_r == in_t:
                continue
            # a fit-time form paired with a replay-time form of the same re-binding (discover levels / apply recorded levels) is the
            # intended shape: look for a counterpart binding of the same name reachable in the opposite slice, in another arm of an enclosing `if`
            paired = False
            par, child = P.parent(st), st
            while par is not None and par is not fn and not paired:
                if isinstance(par, ast.If):
                    arm_other = par.orelse if any(child is x for x in par.body) else par.body
                    for x in arm_other:
                        for y in ast.walk(x):
                            if isinstance(y, (ast.Assign, ast.AnnAssign, ast.AugAssign)) and nm in {t.id for t in ast.walk(y) if isinstance(t, ast.Name) and isinstance(t.ctx, ast.Store)}:
                                if (id(y) in rid) != in_r or (id(y) in tid) != in_t:
                                    paired = True
                child, par = par, P.parent(par)
            if paired:
                continue
            n += 1
            ctx.look()
            # does the re-bound value reach the result (not through the state)?
            flow = {nm}
            item_stores = []
            for x in ast.walk(fn):
                if isinstance(x, (ast.Assign, ast.AugAssign)):
                    for t in (x.targets if isinstance(x, ast.Assign) else [x.target]):
                        b = t
                        while isinstance(b, (ast.Subscript, ast.Attribute)):
                            b = b.value
                        if isinstance(t, ast.Subscript) and isinstance(b, ast.Name) and b.id != S:
                            item_stores.append((b.id, x.value))
            changed = True
            while changed:
                changed = False
                for n2, v2, s2 in asg:
                    if n2 not in flow and n2 not in state_alias and mentions(v2, flow) and not _reads_state(v2, S):
                        flow.add(n2)
                        changed = True
                for base, v2 in item_stores:
                    if base not in flow and base not in state_alias and mentions(v2, flow):
                        flow.add(base)
                        changed = True
            reaches = any(isinstance(r, ast.Return) and r.value is not None and mentions(r.value, flow) for r in rep.stmts + trn.stmts)
            ctx.check(not reaches, "C04.R6", f"{f.qualname.replace('formulaic.', '')}: `{stmt_text(st, 50)}` is applied both when fitting and when replaying",
                      f.module.line(st), ctx.construct(f, text=f"fit/replay asymmetry: {stmt_text(st, 70)}"),
                      f"`{stmt_text(st, 90)}` transforms the data only {'when replaying' if in_r else 'when fitting (no state recorded yet)'}: the same row is encoded "
                      f"differently the second time (e.g. out-of-range values are clipped at fit time but not on replay)")
    ctx.notes.append(f"C04.R6: {n} data re-bindings are slice-dependent (all confined to state estimation)")
    ctx.ok("C04.R6", f"data re-bindings reaching the result are slice-independent in all state functions ({n} slice-dependent ones feed the state only)", "formulaic/transforms")


def _reads_state(v: ast.AST, S: str) -> bool:
    return any(isinstance(x, ast.Name) and x.id == S for x in ast.walk(v))



def f1(ctx):
    """generic same-name parameter forwarding over this property's modules (see shared.generic_forwarding)."""
    from . import shared as _sh
    _sh.generic_forwarding(ctx, "C04.F1", _sh.PROPERTY_MODULES["C04"])



def s1(ctx):
    """shared mechanisms: rows are removed by position in every encoder (= C06.R2/R3); factor evaluation edits names in a private layer, so state keys do not depend on evaluation history (= C18.R4)"""
    from .shared import relabel
    from . import c06, c18
    relabel(ctx, "C04.S1", c06.r2, c06.r3, c18.r4)


def _s1_parts():
    from .shared import relabel
    from . import c06, c18
    from .shared import relabel_parts
    return relabel_parts("C04.S1", c06.r2, c06.r3, c18.r4)


s1.parts = _s1_parts


RULES = [("C04.R1", r1), ("C04.R2", r2), ("C04.R3", r3), ("C04.R4", r4), ("C04.R5", r5), ("C04.R6", r6), ("C04.F1", f1), ("C04.S1", s1)]
