"""C08 — text and categorical columns are dummy-coded; the matrix is always numeric."""
from __future__ import annotations

import ast
import itertools
import re
from typing import Dict, FrozenSet, List, Optional, Set

from .. import sym
from ..core import AnalysisError, FunctionInfo, Project, dotted, is_const, kwarg, norm, param_names, walk_no_nested
from ..util import assignments, count_negations, returns_of, stmt_text
from .shared import MAT, NARWHALS, PANDAS

FAMILIES = ("object", "string", "category", "int", "uint", "float", "bool")
ALL = frozenset(FAMILIES)

EXPLANATION = (
    "Static rules: (R1) the _is_categorical predicate of every concrete materializer is abstractly evaluated over the dtype "
    "families {object, string, category, int, uint, float, bool} with a frozen truth table for the dtype primitives that "
    "occur in such predicates; it must be true on {object, string, category}, false on {int, uint, float}, and all "
    "materializers must agree on every family (including bool); (R2) in _evaluate_factor a value of kind UNKNOWN is always "
    "re-wrapped as CATEGORICAL (spanning the intercept) or NUMERICAL before it is cached, and _encode_evaled_factor raises "
    "for any kind outside {CATEGORICAL, NUMERICAL, CONSTANT}; (R3) between the categorical conversion and the dummy "
    "encoding in encode_contrasts the declared level order is not re-sorted and explicit levels are passed through as "
    "given. That every cell is a number is not decided (depends on pandas' conversion per dtype)."
)
ASSUMPTIONS = [
    "truth table: `dtype == object` ⇔ object; isinstance(dtype, CategoricalDtype) ⇔ category; isinstance(dtype, StringDtype) ⇔ string "
    "(pandas 'str' / 'string[pyarrow]' / 'string[python]'); pandas.api.types.is_numeric_dtype ⇔ {int,uint,float,bool}; "
    "is_bool_dtype ⇔ bool; is_string_dtype ⇔ string only (for object dtype pandas>=2 inspects the elements, so it is not guaranteed); is_object_dtype ⇔ object; narwhals dtype.is_numeric() ⇔ "
    "{int,uint,float}; dtype.kind: O for object/string/category, i/u/f/b for int/uint/float/bool",
    "a raw data column carries no __formulaic_metadata__ (the base-class fallback is false for it)",
]

ISINSTANCE_T = {"CategoricalDtype": {"category"}, "StringDtype": {"string"}, "BooleanDtype": {"bool"}, "ArrowDtype": set()}
FUNCS = {
    "is_numeric_dtype": {"int", "uint", "float", "bool"}, "is_bool_dtype": {"bool"},
    # pandas >= 2 decides is_string_dtype for OBJECT dtype by inspecting the elements (False as soon as one is not a str, e.g. None):
    # it is guaranteed true only for the dedicated string dtypes
    "is_string_dtype": {"string"},
    "is_object_dtype": {"object"}, "is_categorical_dtype": {"category"}, "is_integer_dtype": {"int", "uint"}, "is_float_dtype": {"float"},
}
KIND = {"O": {"object", "string", "category"}, "i": {"int"}, "u": {"uint"}, "f": {"float"}, "b": {"bool"}, "U": set(), "S": set(), "M": set(), "m": set(), "c": set()}


class Pred:
    """Abstract evaluation of a boolean predicate over the dtype family of its (data column) argument:
    the value is the set of families on which it is true."""

    def __init__(self, P: Project, f: FunctionInfo):
        self.P, self.f = P, f
        self.arg = [p for p in param_names(f.node) if p not in ("self", "cls")][0]

    def expr(self, e: ast.AST) -> FrozenSet[str]:
        a = self.arg
        if isinstance(e, ast.Constant) and isinstance(e.value, bool):
            return ALL if e.value else frozenset()
        if isinstance(e, ast.BoolOp):
            vals = [self.expr(v) for v in e.values]
            out = vals[0]
            for v in vals[1:]:
                out = (out & v) if isinstance(e.op, ast.And) else (out | v)
            return frozenset(out)
        if isinstance(e, ast.UnaryOp) and isinstance(e.op, ast.Not):
            return frozenset(ALL - self.expr(e.operand))
        if isinstance(e, ast.IfExp):
            c = self.expr(e.test)
            return frozenset((c & self.expr(e.body)) | ((ALL - c) & self.expr(e.orelse)))
        if isinstance(e, ast.Compare) and len(e.ops) == 1:
            l, r, op = e.left, e.comparators[0], e.ops[0]
            if norm(l) == f"{a}.dtype" and norm(r) in ("object", "numpy.object_", "'object'", "'O'") and isinstance(op, (ast.Eq, ast.NotEq, ast.Is, ast.IsNot)):
                s = frozenset({"object"})
                return s if isinstance(op, (ast.Eq, ast.Is)) else frozenset(ALL - s)
            if norm(l) == f"{a}.dtype.kind" and isinstance(op, (ast.In, ast.NotIn, ast.Eq, ast.NotEq)) and isinstance(r, (ast.Constant, ast.Tuple, ast.List, ast.Set)):
                chars = r.value if isinstance(r, ast.Constant) else "".join(x.value for x in r.elts)
                s = set()
                for ch in chars:
                    if ch not in KIND:
                        raise AnalysisError(f"C08.R1: dtype kind character {ch!r} is not in the table")
                    s |= KIND[ch]
                return frozenset(s) if isinstance(op, (ast.In, ast.Eq)) else frozenset(ALL - s)
            if norm(l).endswith(".__formulaic_metadata__.kind"):
                return frozenset()  # raw columns carry no metadata
        if isinstance(e, ast.Call):
            d = dotted(e.func) or ""
            tail = d.split(".")[-1]
            if d == "isinstance" and len(e.args) == 2:
                if norm(e.args[0]) == f"{a}.dtype":
                    ts = e.args[1].elts if isinstance(e.args[1], ast.Tuple) else [e.args[1]]
                    s = set()
                    for t in ts:
                        nm = (dotted(t) or "").split(".")[-1]
                        if nm not in ISINSTANCE_T:
                            raise AnalysisError(f"C08.R1: dtype class `{norm(t)}` is not in the table")
                        s |= ISINSTANCE_T[nm]
                    return frozenset(s)
                if norm(e.args[0]) == a:
                    return ALL  # container type guard: the column is of the materializer's native series type
            if tail in FUNCS and e.args and norm(e.args[0]) in (a, f"{a}.dtype"):
                return frozenset(FUNCS[tail])
            if tail == "is_numeric" and isinstance(e.func, ast.Attribute) and norm(e.func.value) == f"{a}.dtype":
                return frozenset({"int", "uint", "float"})
            if tail in ("is_narwhals_series", "is_pandas_series") and e.args and norm(e.args[0]) == a:
                return ALL
            if d == "hasattr" and len(e.args) == 2 and norm(e.args[0]) == a:
                return frozenset()
            if isinstance(e.func, ast.Attribute) and e.func.attr == "_is_categorical" and isinstance(e.func.value, ast.Call) and dotted(e.func.value.func) == "super":
                base = None
                for c in self.P.mro(self.f.cls.qualname)[1:]:
                    if "_is_categorical" in c.methods:
                        base = c.methods["_is_categorical"]
                        break
                if base is None:
                    raise AnalysisError("C08.R1: super()._is_categorical not found")
                return Pred(self.P, base).function()
        raise AnalysisError(f"C08.R1: predicate primitive `{norm(e)[:80]}` is not in the dtype truth table ({self.f.where})")

    def block(self, stmts: List[ast.stmt], live: FrozenSet[str]) -> FrozenSet[str]:
        """Families (among ``live``) on which the block returns True; falls through → continues."""
        true: Set[str] = set()
        for st in stmts:
            if not live:
                break
            if isinstance(st, ast.Return):
                v = self.expr(st.value) if st.value is not None else frozenset()
                return frozenset(true | (live & v))
            if isinstance(st, ast.If):
                t = self.expr(st.test)
                t_true = self.block(st.body, live & t)
                t_live_after = self._falls_through(st.body, live & t)
                f_true = self.block(st.orelse, live - t) if st.orelse else frozenset()
                f_live_after = self._falls_through(st.orelse, live - t) if st.orelse else (live - t)
                true |= t_true | f_true
                live = frozenset(t_live_after | f_live_after)
                continue
            if isinstance(st, ast.Expr) and isinstance(st.value, ast.Constant):
                continue
            raise AnalysisError(f"C08.R1: statement `{stmt_text(st, 60)}` not modelled in a kind predicate")
        return frozenset(true)

    def _falls_through(self, stmts: List[ast.stmt], live: FrozenSet[str]) -> FrozenSet[str]:
        for st in stmts:
            if isinstance(st, ast.Return):
                return frozenset()
            if isinstance(st, ast.If):
                t = self.expr(st.test)
                a = self._falls_through(st.body, live & t)
                b = self._falls_through(st.orelse, live - t) if st.orelse else (live - t)
                live = frozenset(a | b)
        return live

    def function(self) -> FrozenSet[str]:
        return self.block(self.f.node.body, ALL)


def r1(ctx):
    P = ctx.project
    subs = P.subclasses(MAT)
    res: Dict[str, FrozenSet[str]] = {}
    for c in subs:
        m = None
        for k in P.mro(c.qualname):
            if "_is_categorical" in k.methods:
                m = k.methods["_is_categorical"]
                break
        if m is None:
            raise AnalysisError(f"C08.R1: no _is_categorical for {c.qualname}")
        ctx.look(len(FAMILIES))
        res[c.qualname] = Pred(P, m).function() if m.cls.qualname != MAT else frozenset()
        short = c.qualname.split(".")[-1]
        for fam in ("object", "string", "category"):
            ctx.check(fam in res[c.qualname], "C08.R1", f"{short}._is_categorical is true on the `{fam}` dtype family", m.where,
                      ctx.construct(m, text=f"family {fam}"),
                      f"a column of the `{fam}` family is treated as numerical: its raw values are copied into the model matrix")
        for fam in ("int", "uint", "float"):
            ctx.check(fam not in res[c.qualname], "C08.R1", f"{short}._is_categorical is false on the `{fam}` dtype family", m.where,
                      ctx.construct(m, text=f"family {fam}"), f"numeric `{fam}` columns would be dummy-coded")
    ctx.floor("C08.R1", len(res), 2, "concrete materializer kind predicates")
    names = sorted(res)
    for fam in FAMILIES:
        vals = {q.split(".")[-1]: (fam in res[q]) for q in names}
        ctx.look()
        ctx.check(len(set(vals.values())) == 1, "C08.R1", f"all materializers classify the `{fam}` family alike", "formulaic/materializers",
                  f"formulaic.materializers:_is_categorical family {fam}",
                  f"kind inference disagrees on `{fam}` columns: {vals} — the same formula and data give different matrices depending on the materializer")


def r2(ctx):
    P = ctx.project
    f = P.func(MAT + "._evaluate_factor")
    # decided on the path summaries of _evaluate_factor, so that the wrapping / kind inference may live in a helper, an
    # if-chain, conditional expressions or guard clauses: on every path that stores into the factor cache
    #   (a) the value was tested for being a FactorValues and wrapped when it was not,
    #   (b) its kind was tested against UNKNOWN afterwards, and
    #   (c) when UNKNOWN, _is_categorical decided, and the value carried on is FactorValues(…, kind=CATEGORICAL, spans_intercept=True)
    #       on the categorical side and FactorValues(…, kind=NUMERICAL, spans_intercept=False) on the other.
    try:
        outs = sym.outcomes(f.node)
    except sym.Unmodelled as e:
        raise AnalysisError(f"C08.R2: _evaluate_factor cannot be summarised: {e}")
    is_store = lambda e: isinstance(e, ast.Assign) and norm(e.targets[0]).startswith("self.factor_cache[")
    paths = [o for o in outs if any(is_store(e) for e in o.effects)]
    ctx.floor("C08.R2", len(paths), 4, "paths of _evaluate_factor that store into the factor cache")
    UNK = re.compile(r"^(?!factor\.kind)(.+)\.__formulaic_metadata__\.kind is (not )?Factor\.Kind\.UNKNOWN$")
    CAT = re.compile(r"^(not )?self\._is_categorical\(")
    WRAPT = re.compile(r"^(not )?isinstance\((.+), FactorValues\)$")

    def typed_wraps(nodes):
        res = []
        for n in nodes:
            for c in ast.walk(n):
                if isinstance(c, ast.Call) and norm(c.func) == "FactorValues" and kwarg(c, "kind") is not None:
                    k, sp = norm(kwarg(c, "kind")), kwarg(c, "spans_intercept")
                    if k in ("Factor.Kind.CATEGORICAL", "Factor.Kind.NUMERICAL"):
                        res.append((k.split(".")[-1], norm(sp) if sp is not None else None))
        return res

    bad_wrap, bad_test, bad_kind = [], [], []
    n_unknown = {"CATEGORICAL": 0, "NUMERICAL": 0}
    for o in paths:
        ctx.look()
        texts = o.cond_text()
        iu = next((i for i, t in enumerate(texts) if UNK.match(t)), None)
        iw = next((i for i, t in enumerate(texts) if WRAPT.match(t)), None)
        if iu is None:
            bad_test.append(texts)
            continue
        subj = ast.parse(UNK.match(texts[iu]).group(1), mode="eval").body
        inline = sym.pm_any(["ANY_v if isinstance(ANY_v, FactorValues) else FactorValues(ANY_v)", "FactorValues(ANY_v) if not isinstance(ANY_v, FactorValues) else ANY_v"], subj) is not None
        if not inline and (iw is None or iw > iu or (WRAPT.match(texts[iw]).group(1) and not norm(subj).startswith("FactorValues("))):
            bad_wrap.append(texts[: iu + 1])
        if UNK.match(texts[iu]).group(2):
            continue  # kind already known: carried on as is
        cats = [t for t in texts[iu + 1:] if CAT.match(t)]
        later = [c for c, _pol in o.conds[iu + 1:]] + list(o.effects) + ([o.value] if o.value is not None else [])
        seen = set(typed_wraps(later))
        if len(cats) != 1:
            bad_kind.append(f"UNKNOWN kind resolved without (one) _is_categorical decision: {texts[iu:iu + 3]}")
            continue
        want_k = ("NUMERICAL", "False") if CAT.match(cats[0]).group(1) else ("CATEGORICAL", "True")
        n_unknown[want_k[0]] += 1
        if seen != {want_k}:
            bad_kind.append(f"`{cats[0][:60]}` carries on {sorted(seen)} instead of {want_k}")
    b = f.node
    ctx.check(not bad_kind and not bad_test and all(n_unknown.values()), "C08.R2", "an UNKNOWN kind becomes CATEGORICAL (spanning the intercept) or NUMERICAL on both branches", f.where,
              ctx.construct(f, text="resolve UNKNOWN"), "both sides of the categorical test must carry on a value re-wrapped with the matching kind and spans_intercept; "
              f"{(bad_kind or bad_test or ['one side of the decision is missing'])[0]}")
    ctx.check(not bad_test, "C08.R2", "only kind-resolved values are cached", f.where, ctx.construct(f, text="cache store"),
              f"a path stores into factor_cache without having tested the kind of the value against UNKNOWN: {bad_test[:1]}")
    ctx.check(not bad_wrap, "C08.R2", "every evaluated value is wrapped (default kind UNKNOWN) before the kind test", f.where, ctx.construct(f, text="wrap"),
              f"a value that is not a FactorValues must be wrapped before its kind is read: {bad_wrap[:1]}")
    g = P.func(MAT + "._encode_evaled_factor")
    # under which kinds each encoder runs, and under which the function refuses (if/elif chain, nested else, or guards: same formula)
    from ..util import atom_mapper, reach_condition, truth_table
    am = atom_mapper({f"factor.metadata.kind is Factor.Kind.{k}": i for i, k in enumerate(("CATEGORICAL", "NUMERICAL", "CONSTANT"))})
    on_kind = lambda c: "metadata.kind" in norm(c)
    from .shared import dict_mapper
    MAPPER = dict_mapper(P)[0]
    want = {"_encode_categorical": lambda c, n, k: c, "_encode_numerical": lambda c, n, k: (not c) and n, "_encode_constant": lambda c, n, k: (not c) and (not n) and k}
    ONE = [i for i, v in enumerate(itertools.product([False, True], repeat=3)) if sum(v) <= 1]
    sites, kinds, pair_ok = {}, [], True
    for st in walk_no_nested(g.node):
        if not isinstance(st, (ast.Assign, ast.Expr, ast.Return)):
            continue
        for enc in want:
            if any(isinstance(c, ast.Call) and norm(c) == f"{MAPPER}(self.{enc})" for c in ast.walk(st)):
                sites.setdefault(enc, []).append(st)
    ctx.floor("C08.R2", len(sites), 1, "kind dispatch chains in _encode_evaled_factor")
    for enc, fn_ in want.items():
        sts = sites.get(enc, [])
        tabs = [truth_table(rc, am, 3) if rc is not None else None for rc in (reach_condition(P, st, keep=on_kind) for st in sts)]
        # a value has ONE kind: only the assignments with at most one kind true exist, and on those a chain tested in any order agrees
        good = len(sts) == 1 and isinstance(tabs[0], tuple) and [tabs[0][i] for i in ONE] == [(c if enc.endswith("categorical") else n if enc.endswith("numerical") else k)
                                                                                             for i, (c, n, k) in enumerate(itertools.product([False, True], repeat=3)) if i in ONE]
        if sts:
            kinds.append(enc.split("_")[-1].upper())
        pair_ok = pair_ok and good
    refuse = [n for n in walk_no_nested(g.node) if isinstance(n, ast.Raise) and "FactorEncodingError" in norm(n)]
    rt = [truth_table(rc, am, 3) for rc in (reach_condition(P, r_, keep=on_kind) for r_ in refuse) if rc is not None]
    ok = kinds == ["CATEGORICAL", "NUMERICAL", "CONSTANT"] and any(
        isinstance(t_, tuple) and [t_[i] for i in ONE] == [not any(v) for i, v in enumerate(itertools.product([False, True], repeat=3)) if i in ONE] for t_ in rt)
    first = (sites.get("_encode_categorical") or [g.node])[0]
    ctx.check(ok, "C08.R2", "encoding dispatches on CATEGORICAL / NUMERICAL / CONSTANT and raises for anything else", g.module.line(first),
              ctx.construct(g, text="kind dispatch"), f"dispatch chain handles {kinds}")
    # each branch uses the matching encoder
    ctx.check(pair_ok, "C08.R2", "each kind is encoded by its own encoder", g.module.line(first), ctx.construct(g, text="kind → encoder"), "kind/encoder pairing changed")


def r3(ctx):
    P = ctx.project
    f = P.func("formulaic.transforms.contrasts.encode_contrasts")
    ctx.look(3)
    bad = [c for c in ast.walk(f.node) if isinstance(c, ast.Call) and ((dotted(c.func) or "") == "sorted" or (isinstance(c.func, ast.Attribute) and c.func.attr in (
        "reorder_categories", "sort_values", "sort_index", "as_ordered", "set_categories", "sort")))]
    for b in bad:
        ctx.fail("C08.R3", "the declared level order is not re-sorted", f.module.line(b), ctx.construct(f, b),
                 f"`{norm(b)[:80]}` re-orders levels between the categorical conversion and the dummy encoding")
    if not bad:
        ctx.ok("C08.R3", "the declared level order is not re-sorted", f.where)
    from ..expect import contains, contains_any
    # every returning path of encode_contrasts, read off its summary (order of the output tests, helpers and temporaries do not
    # matter): D = the categorical built from the data, with the levels in force if there are any; dense outputs take
    # categories = list(D.cat.categories) and dummies = get_dummies(D); sparse takes both from the sparse encoder applied to D;
    # the state records those categories and contrasts.apply receives them as levels
    try:
        eouts = [o for o in sym.outcomes(f.node) if o.kind == "return" and o.value is not None]
    except sym.Unmodelled as e:
        raise AnalysisError(f"C08.R3: encode_contrasts cannot be summarised: {e}")
    ok_lv = ok_disc = ok_dense = ok_sparse = ok_apply = bool(eouts)
    why = "no returning path"
    n_dense = n_sparse = n_lv = n_disc = 0
    for o in eouts:
        frozen = {e.targets[0].id: e.value for e in o.effects if isinstance(e, ast.Assign) and len(e.targets) == 1 and isinstance(e.targets[0], ast.Name)}

        def res(x):
            return sym.subst(x, frozen) if (x is not None and frozen) else x
        d = res(sym.value_of(o, "data"))
        b_lv = sym.pm_any(["pandas.Series(pandas.Categorical(ANY_d0, categories=ANY_L))", "pandas.Series(pandas.Categorical(ANY_d0, ANY_L))"], d)
        b_ds = sym.pm("pandas.Series(ANY_d0).astype('category')", d)
        cond_txt = {(norm(res(c)), pol) for c, pol in o.conds}
        if b_lv is not None and ((f"({b_lv['ANY_L']}) is None", False) in cond_txt or (f"{b_lv['ANY_L']} is None", False) in cond_txt):
            n_lv += 1
        elif b_ds is not None:
            n_disc += 1
        else:
            ok_lv = ok_disc = False
            why = f"the categorical is built as `{norm(d)[:160] if d is not None else None}`"
            continue
        D = norm(d)
        tup = [e for e in o.effects if isinstance(e, ast.Assign) and isinstance(e.targets[0], ast.Tuple) and
               sym.pm("categorical_encode_series_to_sparse_csc_matrix(ANY_x)", res(e.value)) is not None]
        bv = sym.pm("ANY_c.apply(ANY_e, levels=ANY_cat, reduced_rank=reduced_rank, output=ANY_o)", res(o.value))
        recorded = [res(e.value) for e in o.effects if isinstance(e, ast.Assign) and norm(e.targets[0]) == "_state['categories']"]
        if bv is None or len(recorded) != 1 or norm(recorded[0]) != bv["ANY_cat"]:
            ok_apply = False
            why = f"returns `{norm(res(o.value))[:160]}` with recorded categories {[norm(r)[:80] for r in recorded]}"
            continue
        if tup:
            n_sparse += 1
            tg = [norm(t_) for t_ in tup[0].targets[0].elts]
            if not (len(tup) == 1 and norm(res(tup[0].value)) == f"categorical_encode_series_to_sparse_csc_matrix({D})" and tg == [bv["ANY_cat"], bv["ANY_e"]]):
                ok_sparse = False
                why = f"sparse path: `{norm(res(tup[0]))[:200]}`"
        else:
            n_dense += 1
            if not (bv["ANY_cat"] == f"list({D}.cat.categories)" and bv["ANY_e"] == f"pandas.get_dummies({D})"):
                ok_dense = False
                why = f"dense path applies `{bv['ANY_e'][:120]}` with levels `{bv['ANY_cat'][:120]}`"
    ok_lv, ok_disc = ok_lv and n_lv > 0, ok_disc and n_disc > 0
    ok_dense, ok_sparse = ok_dense and n_dense > 0, ok_sparse and n_sparse > 0
    ctx.check(ok_lv, "C08.R3", "explicit / recorded levels are passed through as given", f.where, ctx.construct(f, text="Categorical(categories=levels)"),
              f"expected pandas.Categorical(data, categories=levels): {why}")
    ctx.check(ok_disc, "C08.R3", "levels are discovered by the categorical dtype conversion (sorted for text, declared order for category dtype)", f.where,
              ctx.construct(f, text="astype(category)"), f"expected pandas.Series(data).astype('category') when no levels are given: {why}")
    ctx.check(ok_dense and ok_apply, "C08.R3", "dummy columns and reported categories both come from the categorical's own category list", f.where,
              ctx.construct(f, text="categories/get_dummies"), f"categories must be list(data.cat.categories) and dummies pandas.get_dummies(data): {why}")
    ctx.check(ok_sparse and ok_apply, "C08.R3", "the sparse path encodes the same categorical", f.where, ctx.construct(f, text="sparse dummy"), f"sparse dummy encoding call changed: {why}")
    ctx.check(ok_apply, "C08.R3", "contrasts are applied with the same category order", f.where, ctx.construct(f, text="apply(levels=categories)"),
              f"contrasts.apply must receive levels=categories: {why}")
    sp = P.func("formulaic.utils.sparse.categorical_encode_series_to_sparse_csc_matrix")
    # what is returned for a non-empty level list, written over the parameters: the level list itself and an indicator matrix
    # with one row per element, one column per level, a one at (row, code) for every coded (non -1) row
    try:
        souts = [o for o in sym.outcomes(sp.node) if o.kind == "return" and o.value is not None]
    except sym.Unmodelled as e:
        raise AnalysisError(f"C08.R3: the sparse dummy encoder cannot be summarised: {e}")
    LV = ["list(levels or pandas.Categorical(series, levels).categories)", "list(levels or pandas.Categorical(series, categories=levels).categories)",
          "list(levels) if levels else list(pandas.Categorical(series, levels).categories)"]
    LVE = [f"len({x}) == 0" for x in LV]
    full = [o for o in souts if any((pol and norm(c) in LV) or (not pol and norm(c) in LVE) for c, pol in o.conds) and any(not pol and norm(c) == "drop_first" for c, pol in o.conds)]
    ok, why = bool(full), "no returning path for a non-empty level list without drop_first"
    for o in full:
        b_ = sym.pm("(ANY_lv, spsparse.csc_matrix((numpy.ones(ANY_c.shape[0], dtype=float), (ANY_i, ANY_c)), shape=(ANY_s.shape[0], len(ANY_lv))))", o.value)
        good = b_ is not None and b_["ANY_lv"] in LV and b_["ANY_s"] in ("pandas.Categorical(series, levels)", "pandas.Categorical(series, categories=levels)") \
            and b_["ANY_c"] == f"{b_['ANY_s']}.codes[{b_['ANY_s']}.codes != -1]" and b_["ANY_i"] == f"numpy.arange({b_['ANY_s']}.shape[0])[{b_['ANY_s']}.codes != -1]"
        if not good:
            ok, why = False, f"returns `{norm(o.value)[:200]}`"
    ctx.check(ok, "C08.R3", "the sparse encoder keeps the categorical's level order and one column per level", sp.where,
              ctx.construct(sp, text="sparse levels"), f"sparse dummy encoder level handling changed: {why}")


def r4(ctx):
    """Row removal keeps the column's dtype: a categorical dtype (declared level order, unused levels) must survive drop_rows."""
    P = ctx.project
    from .c06 import NULLS, first_param_annotation
    regs = [f for f in P.registrations(f"{NULLS}.drop_rows") if first_param_annotation(f) in ("pandas.Series",)]
    ctx.floor("C08.R4", len(regs), 1, "drop_rows registrations for pandas.Series")
    for f in regs:
        ctx.look()
        vals = param_names(f.node)[0]
        bad = [c for c in ast.walk(f.node) if (isinstance(c, ast.Call) and isinstance(c.func, ast.Attribute) and c.func.attr in ("to_numpy", "tolist", "to_list", "astype") and norm(c.func.value) == vals)
               or (isinstance(c, ast.Attribute) and c.attr == "values" and norm(c.value) == vals)
               or (isinstance(c, ast.Call) and (dotted(c.func) or "") in ("numpy.array", "numpy.asarray", "list") and c.args and norm(c.args[0]) == vals)]
        rets = returns_of(f.node)
        stays = bool(rets) and isinstance(rets[0].value, ast.Subscript) and isinstance(rets[0].value.value, ast.Attribute) and rets[0].value.value.attr in ("iloc", "loc") \
            and norm(rets[0].value.value.value) == vals or (bool(rets) and isinstance(rets[0].value, ast.Subscript) and norm(rets[0].value.value) == vals)
        ctx.check(not bad and stays, "C08.R4", "drop_rows[pandas.Series] selects rows of the Series itself (its dtype and declared categories survive)", f.where,
                  ctx.construct(f"{NULLS}.drop_rows[pandas.Series]", text="dtype preserving"),
                  f"the Series is rebuilt from raw values (`{norm(bad[0])[:60] if bad else norm(rets[0].value)[:60] if rets else ''}`): a categorical column loses its dtype, so levels "
                  f"come out sorted and unused levels vanish whenever a row is dropped")
    # the C() encoder wraps into a Series and then removes rows positionally on it
    enc = P.func("formulaic.transforms.contrasts.C").locals_named("encoder")
    t = norm(enc.node)
    ok = "values = pandas.Series(values.__wrapped__ if isinstance(values, FactorValues) else values)" in t and "values = values.iloc[" in t
    ctx.check(ok, "C08.R4", "C().encoder removes rows on the Series (dtype preserving)", enc.where, ctx.construct(enc, text="dtype preserving"), "C().encoder changed shape")


def r5(ctx):
    """levels are discovered from the data being encoded, never inherited from an earlier call: the working spec owns its encoder state (= C18.R1)."""
    from . import c18
    saved = ctx.obligations
    ctx.obligations = []
    c18.r1(ctx)
    for o in ctx.obligations:
        o.rule = "C08.R5"
    ctx.obligations = saved + ctx.obligations



def r6(ctx):
    """both materializers encode identically (kind inference aside): shared encoders are the same functions (= C05.R1)."""
    from .shared import relabel
    from . import c05
    relabel(ctx, "C08.R6", c05.r1)


def _r6_parts():
    from .shared import relabel
    from . import c05
    from .shared import relabel_parts
    return relabel_parts("C08.R6", c05.r1)


r6.parts = _r6_parts


def s1(ctx):
    """shared mechanism: all parts of one build agree on the output type before an encoding is shared between them (pooled-attribute guard, = C18.R2)"""
    from .shared import relabel
    from . import c18
    relabel(ctx, "C08.S1", c18.r2)


def _s1_parts():
    from .shared import relabel
    from . import c18
    from .shared import relabel_parts
    return relabel_parts("C08.S1", c18.r2)


s1.parts = _s1_parts


RULES = [("C08.R1", r1), ("C08.R2", r2), ("C08.R3", r3), ("C08.R4", r4), ("C08.R5", r5), ("C08.R6", r6), ("C08.S1", s1)]
