"""C01 — formula strings denote exactly the documented Wilkinson term algebra (tables, denotations,
sign-run rewriting, intercept/zero rewriting, term identity, degree order, spec forms, pop condition)."""
from __future__ import annotations

import ast
import itertools
import re
from typing import Any, Dict, List, Optional, Tuple

from ..cfg import CFG, ENTRY, EXIT
from ..core import AnalysisError, FunctionInfo, Project, arg_for, const_value, dotted, is_const, kwarg, norm, param_names, walk_no_nested
from .. import sym
from ..util import (assignments, count_negations, derived_names, header_calls, inline_locals, mentions, returns_of,
                    single_assignment_env, stmt_text, strip_casts)

PARSER = "formulaic.parser.parser"
RESOLVER = PARSER + ".DefaultOperatorResolver"
OPS = RESOLVER + ".operators"
DFP = PARSER + ".DefaultFormulaParser"
GRAMMAR = "docsite/docs/guides/grammar.md"

EXPLANATION = (
    "Static rules: (R1) the Operator(...) records of DefaultOperatorResolver.operators agree with the operator table of "
    "docsite/docs/guides/grammar.md on symbols, arities, precedence order classes, associativity, aliasing and structural "
    "flags, and %in% is lexed to the symbol `in`; (R2) each to_terms callable is translated into a term-set algebra normal "
    "form and compared with the documented identity (a+b union, a-b difference, : cross product, * = chain|cross, / and %in% "
    "nested expansion with argument inversion, ~ structure, | tuple concatenation, ** repeated cross product guarded by a "
    "single positive integer literal exponent); (R3) sign-run collapsing keeps prefix and suffix and picks '-' iff the number "
    "of '-' is odd, on every branch; (R4) intercept/zero rewriting of the token stream inserts only 1/+/- at the documented "
    "places and nothing when include_intercept is off; (R5) Term equality/hash use one order-insensitive duplicate-free key; "
    "(R6) DEGREE ordering is a stable ascending sort on Term.degree applied at construction and after every store; (R7) every "
    "FormulaSpec form is dispatched with the right parser; (R8) OrderedSet keeps insertion order; (R9) the shunting-yard pop "
    "condition is the textbook boolean function. Decides the tables and denotations the parser consumes/applies, not that the "
    "shunting-yard loop parses every string of the grammar to the documented tree."
)
ASSUMPTIONS = [
    "docsite/docs/guides/grammar.md is the documented grammar (operator table rows, '-----' separators = precedence blocks, "
    "'all binary operators are left-associative')",
    "collections.abc.Set mixin operators (|, -) preserve the iteration order of the left operand then the right",
    "dict.fromkeys preserves first-appearance order; sorted() is stable",
]


# ============================================================================ operator records
class Rec:
    def __init__(self, call: ast.Call, f: FunctionInfo):
        self.call = call
        self.symbol = const_value(call.args[0]) if call.args else const_value(kwarg(call, "symbol"))
        self.arity = const_value(kwarg(call, "arity"))
        self.precedence = const_value(kwarg(call, "precedence"))
        a = kwarg(call, "associativity")
        self.assoc = "none" if a is None or is_const(a, None) else _enum_or_str(a)
        fx = kwarg(call, "fixity")
        self.fixity = "infix" if fx is None else _enum_or_str(fx)
        self.to_terms = kwarg(call, "to_terms")
        st = kwarg(call, "structural")
        self.structural = bool(const_value(st)) if st is not None else False
        self.disabled = kwarg(call, "disabled")
        self.accepts = kwarg(call, "accepts_context")
        self.line = call.lineno

    @property
    def ident(self):
        return f"{self.symbol!r}/{self.arity}" + ("[" if self.is_multistage else "")

    @property
    def is_multistage(self):
        return self.accepts is not None and '"["' in ast.unparse(self.accepts).replace("'", '"')


def _enum_or_str(a: ast.AST) -> str:
    if isinstance(a, ast.Constant):
        return str(a.value).lower() if a.value is not None else "none"
    d = dotted(a)
    if d:
        return d.split(".")[-1].lower()
    raise AnalysisError(f"cannot read operator attribute `{norm(a)}`")


def records(P: Project, qual: str = OPS) -> Tuple[FunctionInfo, List[Rec]]:
    f = P.func(qual)
    rets = returns_of(f.node)
    if len(rets) != 1 or not isinstance(rets[0].value, ast.List):
        raise AnalysisError(f"{qual} no longer returns a literal list of Operator(...) records")
    recs = []
    for e in rets[0].value.elts:
        if not (isinstance(e, ast.Call) and (dotted(e.func) or "").split(".")[-1] == "Operator"):
            raise AnalysisError(f"{qual}: list element `{norm(e)[:60]}` is not an Operator(...) record")
        try:
            recs.append(Rec(e, f))
        except (ValueError, TypeError) as ex:
            raise AnalysisError(f"{qual}: record at line {e.lineno} has a non-literal field ({ex})")
    return f, recs


def doc_table(P: Project) -> List[List[Tuple[str, set]]]:
    """Blocks (highest precedence first) of (symbol, arities) from the grammar doc, starting at `.`."""
    if not P.exists(GRAMMAR):
        raise AnalysisError(f"anchor vanished: {GRAMMAR}")
    lines = P.read(GRAMMAR).splitlines()
    try:
        start = next(i for i, l in enumerate(lines) if l.startswith("| Operator | Arity"))
    except StopIteration:
        raise AnalysisError("grammar.md: operator table header not found")
    blocks, cur = [], []
    for l in lines[start + 2:]:
        if not l.startswith("|"):
            break
        if re.match(r"^\|-+\|\s*$", l):
            blocks.append(cur)
            cur = []
            continue
        cells = [c.strip() for c in re.split(r"(?<!\\)\|", l)[1:-1]]
        sym = re.sub(r"\[\^\d+\]", "", cells[0]).strip().strip("`").strip()
        sym = sym.replace("\\|", "|")
        ar = {int(x) for x in cells[1].split(",")}
        cur.append((sym, ar))
    blocks.append(cur)
    # drop the literal/quoting block and the parentheses block (not operator records)
    out = [b for b in blocks if b and not any(s in ('"..."', "(...)") for s, _ in b)]
    if len(out) < 7:
        raise AnalysisError(f"grammar.md: expected >= 7 operator precedence blocks, found {len(out)}")
    return out


def doc_says_left_assoc(P: Project) -> bool:
    t = " ".join(P.read(GRAMMAR).split())
    return "all binary operators are evaluated from left to right" in t and "left-associative" in t


def r1(ctx):
    P = ctx.project
    f, recs = records(P)
    blocks = doc_table(P)
    ctx.floor("C01.R1", len(recs), 15, "Operator records")
    nrows = sum(len(b) for b in blocks)
    ctx.floor("C01.R1", nrows, 14, "documented operator rows")
    where = lambda r: f"{f.module.relpath}:{r.line}"
    DOC2SYM = {"%in%": "in", "[ . ~ . ]": "~["}
    doc_syms: Dict[str, Tuple[int, set]] = {}
    for bi, b in enumerate(blocks):
        for s, ar in b:
            key = DOC2SYM.get(s, s)
            if key in doc_syms:
                doc_syms[key] = (doc_syms[key][0], doc_syms[key][1] | ar)
                if doc_syms[key][0] != bi:
                    raise AnalysisError(f"grammar.md lists `{s}` in two precedence blocks")
            else:
                doc_syms[key] = (bi, set(ar))
    by_sym: Dict[str, List[Rec]] = {}
    for r in recs:
        by_sym.setdefault("~[" if r.is_multistage else r.symbol, []).append(r)
    # (i) every documented operator has a record with each documented arity
    for key, (bi, ars) in doc_syms.items():
        for a in sorted(ars):
            ctx.look()
            have = [r for r in by_sym.get(key, []) if r.arity == a]
            ctx.check(bool(have), "C01.R1", f"(i) documented operator `{key}` arity {a} has a record", f.where,
                      ctx.construct(f, text=f"record {key}/{a}"), f"grammar.md documents `{key}` with arity {a} but no Operator record implements it")
    # (ii) no undocumented record
    for key, rs in by_sym.items():
        for r in rs:
            ctx.look()
            ok = key in doc_syms and r.arity in doc_syms[key][1]
            ctx.check(ok, "C01.R1", f"(ii) record {r.ident} is documented", where(r), ctx.construct(f, text=f"record {key}/{r.arity}"),
                      f"Operator record `{r.symbol}` arity {r.arity} is not in the documented grammar")
    # (iii) order classes of precedences == documented block order
    pairs = [(r1_, r2_) for r1_, r2_ in itertools.combinations(recs, 2)]
    for a, b in pairs:
        ka, kb = ("~[" if a.is_multistage else a.symbol), ("~[" if b.is_multistage else b.symbol)
        if ka not in doc_syms or kb not in doc_syms:
            continue
        ctx.look()
        da, db = doc_syms[ka][0], doc_syms[kb][0]
        want = (da > db) - (da < db)  # block index larger = lower precedence
        got = (a.precedence < b.precedence) - (a.precedence > b.precedence)
        if want != got:
            ctx.fail("C01.R1", f"(iii) precedence order of {a.ident} vs {b.ident}", where(a),
                     ctx.construct(f, text=f"precedence {ka}/{a.arity} vs {kb}/{b.arity}"),
                     f"documented: `{ka}` {'binds tighter than' if want < 0 else 'binds looser than' if want > 0 else 'has the same precedence as'} "
                     f"`{kb}`; records have precedence {a.precedence} vs {b.precedence}")
    ctx.ok("C01.R1", f"(iii) {len(pairs)} precedence pairs compared with the documented block order", f.where)
    # (iv) associativity / fixity
    left_doc = doc_says_left_assoc(P)
    if not left_doc:
        raise AnalysisError("grammar.md no longer states the associativity of binary operators")
    for r in recs:
        ctx.look()
        key = "~[" if r.is_multistage else r.symbol
        if r.arity == 2:
            ctx.check(r.fixity == "infix", "C01.R1", f"(iv) binary {r.ident} is infix", where(r),
                      ctx.construct(f, text=f"fixity {key}/{r.arity}"), f"binary operator declared {r.fixity}")
            if not r.structural:
                ctx.check(r.assoc == "left", "C01.R1", f"(iv) binary {r.ident} is left-associative as documented", where(r),
                          ctx.construct(f, text=f"associativity {key}/{r.arity}"),
                          f"grammar.md: 'all binary operators are ... left-associative'; record declares associativity={r.assoc!r}")
        elif r.arity == 1:
            ctx.check(r.fixity == "prefix", "C01.R1", f"(iv) unary {r.ident} is prefix", where(r),
                      ctx.construct(f, text=f"fixity {key}/{r.arity}"), f"unary operator declared {r.fixity}")
            if not r.structural:
                ctx.check(r.assoc == "right", "C01.R1", f"(iv) unary prefix {r.ident} is right-associative", where(r),
                          ctx.construct(f, text=f"associativity {key}/{r.arity}"),
                          f"a prefix sign must not pop an equal-precedence operator; declared associativity={r.assoc!r}")
    # (v) ^ is an alias of **
    pw, ht = by_sym.get("**", []), by_sym.get("^", [])
    if len(pw) == 1 and len(ht) == 1:
        a, b = pw[0], ht[0]
        same = (a.arity, a.precedence, a.assoc, a.fixity, a.structural) == (b.arity, b.precedence, b.assoc, b.fixity, b.structural) \
            and a.to_terms is not None and b.to_terms is not None and norm(a.to_terms) == norm(b.to_terms) \
            and isinstance(a.to_terms, ast.Name)
        ctx.check(same, "C01.R1", "(v) `^` is an alias of `**`", where(b), ctx.construct(f, text="alias ^ = **"),
                  "`^` and `**` must share arity, precedence, associativity, fixity and the same to_terms callable")
    # (vii) structural flags
    for r in recs:
        want = r.symbol in ("~", "|")
        ctx.check(r.structural == want, "C01.R1", f"(vii) structural flag of {r.ident}", where(r),
                  ctx.construct(f, text=f"structural {r.symbol}/{r.arity}"),
                  f"structural={r.structural}; only `~` and `|` build structure (others must be merged over structure by ASTNode.to_terms)")
    # (vi) %in% is lexed to the symbol `in`
    tk = P.func("formulaic.parser.algos.tokenize.tokenize")
    opener = closer = None
    for n in walk_no_nested(tk.node):
        if isinstance(n, ast.If):
            t = norm(n.test)
            if t in ("char == '%'",):
                opener = n
            if "quote_context[-1] in '}`%'" in t and "char == quote_context[-1]" in t:
                closer = n
    ctx.look(2)
    ok_open = opener is not None and any(isinstance(c, ast.Call) and dotted(c.func) == "Token" and is_const(kwarg(c, "kind") or ast.Constant(0), "operator")
                                         for c in ast.walk(opener)) and not any(
        isinstance(c, ast.Call) and isinstance(c.func, ast.Attribute) and c.func.attr == "update" for s in opener.body for c in ast.walk(s))
    ctx.check(ok_open, "C01.R1", "(vi) `%` opens an OPERATOR token without recording the delimiter",
              tk.module.line(opener) if opener else tk.where, ctx.construct(tk, text="% opener"),
              "the `%` opener must start an operator token and not append the `%` itself (so `%in%` resolves to the record `in`)")
    ok_close = False
    if closer is not None:
        # the closing delimiter is appended only when still inside an outer quote
        upd = [c for s in closer.body for c in ast.walk(s) if isinstance(c, ast.Call) and isinstance(c.func, ast.Attribute) and c.func.attr == "update"]
        ok_close = all(isinstance(P.parent(P.enclosing_stmt(u)), ast.If) and norm(P.parent(P.enclosing_stmt(u)).test) == "quote_context" for u in upd)
    ctx.check(ok_close, "C01.R1", "(vi) the closing `%` is not recorded in the operator token",
              tk.module.line(closer) if closer else tk.where, ctx.construct(tk, text="% closer"),
              "the closing delimiter of %...% / {...} / `...` must not be appended at top level")
    in_rec = by_sym.get("in", [])
    ctx.check(len(in_rec) == 1, "C01.R1", "(vi) record `in` exists for %in%", f.where, ctx.construct(f, text="record in"),
              "no single Operator record with symbol 'in'")


# ============================================================================ R2 denotations
MUL_LAMBDA = "lambda x, y: x * y"


class Denot:
    """Translator of a to_terms callable into a term-set algebra normal form (nested tuples)."""

    def __init__(self, P: Project, scope: FunctionInfo):
        self.P, self.scope = P, scope

    def callable_nf(self, e: ast.AST):
        if isinstance(e, ast.Lambda):
            return self.fn_nf(e, e.body)
        if isinstance(e, ast.Name):
            q = f"{self.scope.qualname}.<locals>.{e.id}"
            if q in self.P.functions:
                fn = self.P.functions[q].node
                return self.def_nf(fn)
        return ("unknown", norm(e))

    def env_for(self, fn) -> Dict[str, Any]:
        a = fn.args
        env = {}
        for i, p in enumerate(list(a.posonlyargs) + list(a.args)):
            env[p.arg] = ("arg", i)
        if a.vararg:
            env[a.vararg.arg] = ("args",)
        return env

    def fn_nf(self, fn, body_expr):
        return self.expr(body_expr, self.env_for(fn), fn)

    def def_nf(self, fn: ast.FunctionDef):
        env = self.env_for(fn)
        # skip docstring, guard-raises and nested defs; inline single-assignment locals
        rets = returns_of(fn)
        if len(rets) != 1:
            return ("unknown", f"{fn.name}: {len(rets)} returns")
        tc = _tuplecat(fn)
        if tc is not None:
            return ("tuplecat", tuple(env.get(n, ("unknown", n)) for n in tc))
        env = dict(env)
        env["<locals>"] = single_assignment_env(fn)
        return self.expr(rets[0].value, env, fn)

    def is_mul(self, e) -> bool:
        return norm(e) == MUL_LAMBDA or dotted(e) in ("operator.mul",)

    def expr(self, e, env, fn):
        e = strip_casts(e)
        if isinstance(e, ast.Name):
            if e.id in env:
                return env[e.id]
            loc = env.get("<locals>", {})
            if e.id in loc:
                return self.expr(loc[e.id], env, fn)
            return ("name", e.id)
        if isinstance(e, ast.BinOp) and isinstance(e.op, ast.BitOr):
            return ("union", self.expr(e.left, env, fn), self.expr(e.right, env, fn))
        if isinstance(e, ast.BinOp) and isinstance(e.op, ast.Sub):
            return ("diff", self.expr(e.left, env, fn), self.expr(e.right, env, fn))
        if isinstance(e, ast.Call):
            d = dotted(e.func) or ""
            tail = d.split(".")[-1]
            if tail == "OrderedSet":
                if not e.args and not e.keywords:
                    return ("empty",)
                a = e.args[0]
                if isinstance(a, ast.Call) and (dotted(a.func) or "").endswith("chain") and len(a.args) == 1 and isinstance(a.args[0], ast.Starred):
                    return ("chain", self.seq(a.args[0].value, env, fn))
                if isinstance(a, ast.GeneratorExp) and len(a.generators) == 1 and not a.generators[0].ifs:
                    g = a.generators[0]
                    if isinstance(g.target, ast.Name):
                        v = g.target.id
                        # reduce(MUL, t) for t in product(*xs)
                        if (isinstance(a.elt, ast.Call) and (dotted(a.elt.func) or "").endswith("reduce") and len(a.elt.args) == 2
                                and self.is_mul(a.elt.args[0]) and isinstance(a.elt.args[1], ast.Name) and a.elt.args[1].id == v
                                and isinstance(g.iter, ast.Call) and (dotted(g.iter.func) or "").endswith("product")
                                and len(g.iter.args) == 1 and isinstance(g.iter.args[0], ast.Starred) and not g.iter.keywords):
                            return ("cross", self.seq(g.iter.args[0].value, env, fn))
                        # c * t for t in n
                        if (isinstance(a.elt, ast.BinOp) and isinstance(a.elt.op, ast.Mult) and isinstance(a.elt.right, ast.Name)
                                and a.elt.right.id == v):
                            return ("scaleall", self.expr(a.elt.left, env, fn), self.expr(g.iter, env, fn))
                        if (isinstance(a.elt, ast.BinOp) and isinstance(a.elt.op, ast.Mult) and isinstance(a.elt.left, ast.Name)
                                and a.elt.left.id == v):
                            return ("scaleall_right", self.expr(a.elt.right, env, fn), self.expr(g.iter, env, fn))
                return ("unknown", norm(e)[:120])
            if tail == "reduce" and len(e.args) == 2 and self.is_mul(e.args[0]):
                return ("prodall", self.expr(e.args[1], env, fn))
            if tail == "Structured" and not e.args:
                return ("struct", tuple((k.arg, self.expr(k.value, env, fn)) for k in e.keywords))
            # call to a sibling local def: inline with arguments substituted
            if isinstance(e.func, ast.Name):
                q = f"{self.scope.qualname}.<locals>.{e.func.id}"
                if q in self.P.functions and not e.keywords:
                    callee = self.P.functions[q].node
                    inner = self.def_nf(callee)
                    actuals = [self.expr(a, env, fn) for a in e.args]
                    return _subst_args(inner, actuals)
            return ("unknown", norm(e)[:120])
        return ("unknown", norm(e)[:120])

    def seq(self, e, env, fn):
        """A sequence of term sets (the operand list handed to chain/product)."""
        if isinstance(e, ast.Name) and env.get(e.id) == ("args",):
            return ("args",)
        if isinstance(e, ast.BinOp) and isinstance(e.op, ast.Mult) and isinstance(e.left, ast.List) and len(e.left.elts) == 1:
            return ("repeat", self.expr(e.left.elts[0], env, fn), self.count(e.right, env))
        if isinstance(e, (ast.List, ast.Tuple)):
            return ("list",) + tuple(self.expr(x, env, fn) for x in e.elts)
        return ("unknown", norm(e)[:80])

    def count(self, e, env):
        if isinstance(e, ast.Name):
            return ("count", e.id)
        return ("count-expr", norm(e))


def _subst_args(nf, actuals):
    if isinstance(nf, tuple):
        if len(nf) == 2 and nf[0] == "arg" and isinstance(nf[1], int):
            return actuals[nf[1]] if nf[1] < len(actuals) else ("unknown", f"arg{nf[1]}")
        return tuple(_subst_args(x, actuals) for x in nf)
    return nf


def _tuplecat(fn: ast.FunctionDef) -> Optional[List[str]]:
    """Recognise: for termset in (a, b): a tuple operand is spliced into the accumulator (`out.extend`), any other operand is
    appended; `tuple(out)` is returned → names (a, b) in order; else None.  Decided on the per-iteration summaries, so the
    if/else, guard-and-continue and conditional-expression spellings are the same thing."""
    try:
        outs = sym.outcomes(fn)
    except sym.Unmodelled:
        return None
    lps = sym.loops_of(outs)
    rets = [o for o in outs if o.kind == "return"]
    if not lps and len(rets) == 1 and rets[0].value is not None:
        # the same thing as one expression: a tuple built by flattening (a, b) one level
        b_ = sym.pm_any(["tuple((VAR_p for VAR_t in (VAR_a, VAR_b) for VAR_p in (VAR_t if isinstance(VAR_t, tuple) else (VAR_t,))))",
                         "tuple((VAR_p for VAR_t in (VAR_a, VAR_b) for VAR_p in ((VAR_t,) if not isinstance(VAR_t, tuple) else VAR_t)))",
                         "(*(VAR_a if isinstance(VAR_a, tuple) else (VAR_a,)), *(VAR_b if isinstance(VAR_b, tuple) else (VAR_b,)))",
                         "(VAR_a if isinstance(VAR_a, tuple) else (VAR_a,)) + (VAR_b if isinstance(VAR_b, tuple) else (VAR_b,))"], rets[0].value)
        return [b_["VAR_a"], b_["VAR_b"]] if b_ is not None else None
    if len(lps) != 1 or len(rets) != 1 or rets[0].loops:
        return None
    lp = lps[0]
    it, tg = lp._sym_head, lp._sym_orig.target
    if not (isinstance(it, ast.Tuple) and all(isinstance(x, ast.Name) for x in it.elts) and isinstance(tg, ast.Name)) or lp._sym_orig.orelse:
        return None
    v = tg.id
    T = f"isinstance({v}, tuple)"
    spliced = sym.iteration_effects(outs, lp, {T: True})
    single = sym.iteration_effects(outs, lp, {T: False})
    if len(spliced) != 1 or len(single) != 1 or spliced[0][0] not in ("fall", "continue") or single[0][0] not in ("fall", "continue") \
            or len(spliced[0][1]) != 1 or len(single[0][1]) != 1:
        return None
    m1 = re.fullmatch(r"(\w+)\.extend\(%s\)" % v, norm(spliced[0][1][0]))
    m2 = re.fullmatch(r"(\w+)\.append\(%s\)" % v, norm(single[0][1][0]))
    if not (m1 and m2 and m1.group(1) == m2.group(1)):
        return None
    acc = m1.group(1)
    if rets[0].value is None or norm(rets[0].value) != f"tuple({acc})":
        return None
    inits = [val for n, val, _ in assignments(fn) if n == acc]
    if len(inits) != 1 or norm(inits[0]) != "[]":
        return None
    return [x.id for x in it.elts]


A0, A1, ARGS = ("arg", 0), ("arg", 1), ("args",)
NESTED = lambda p, n: ("union", p, ("scaleall", ("prodall", p), n))
EXPECTED = {
    ("+", 2): ("union", A0, A1),
    ("-", 2): ("diff", A0, A1),
    ("+", 1): A0,
    ("-", 1): ("empty",),
    (":", 2): ("cross", ARGS),
    ("*", 2): ("union", ("chain", ARGS), ("cross", ARGS)),
    ("/", 2): NESTED(A0, A1),
    ("in", 2): NESTED(A1, A0),
    ("~", 2): ("struct", (("lhs", A0), ("rhs", A1))),
    ("~", 1): A0,
    ("|", 2): ("tuplecat", (A0, A1)),
}


def _equiv(nf, want) -> bool:
    if nf == want:
        return True
    # `:`/`*` written with two named parameters instead of *args
    def widen(x):
        if isinstance(x, tuple):
            if x == ("list", A0, A1):
                return ARGS
            return tuple(widen(y) for y in x)
        return x
    return widen(nf) == want


def r2(ctx):
    P = ctx.project
    f, recs = records(P)
    D = Denot(P, f)
    n = 0
    for r in recs:
        if r.is_multistage or r.symbol in ("**", "^", "."):
            continue
        ctx.look()
        n += 1
        want = EXPECTED.get((r.symbol, r.arity))
        if want is None:
            continue
        nf = D.callable_nf(r.to_terms) if r.to_terms is not None else ("unknown", "no to_terms")
        ctx.check(_equiv(nf, want), "C01.R2", f"denotation of {r.ident}", f"{f.module.relpath}:{r.line}",
                  ctx.construct(f, text=f"to_terms {r.symbol}/{r.arity}"),
                  f"to_terms of `{r.symbol}` (arity {r.arity}) denotes {nf}; the documented algebra requires {want}")
    ctx.floor("C01.R2", n, 11, "denotations translated")
    # ** / ^ : repeated cross product guarded by a single positive integer literal exponent
    pw = [r for r in recs if r.symbol in ("**", "^")]
    for r in pw:
        nf = D.callable_nf(r.to_terms)
        ctx.look()
        ok = isinstance(nf, tuple) and nf[0] == "cross" and nf[1][0] == "repeat" and nf[1][1] == A0 and nf[1][2][0] == "count"
        ctx.check(ok, "C01.R2", f"denotation of {r.ident} is the k-fold cross product of the left operand", f"{f.module.relpath}:{r.line}",
                  ctx.construct(f, text=f"to_terms {r.symbol}/{r.arity}"),
                  f"to_terms of `{r.symbol}` denotes {nf}; expected ('cross', ('repeat', arg0, k))")
    if pw and isinstance(pw[0].to_terms, ast.Name):
        pf = f.locals_named(pw[0].to_terms.id)
        facts = power_guard_facts(P, pf)
        for key in ("single-term", "single-factor", "value-token", "integer"):
            ok, msg = facts[key]
            ctx.look()
            ctx.check(ok, "C01.R2", f"`**` exponent guard: {key}", pf.where, ctx.construct(pf, text=f"guard {key}"), msg)
        # the repeat count is the validated exponent
        nf = D.callable_nf(pw[0].to_terms)
        if isinstance(nf, tuple) and nf[0] == "cross" and nf[1][0] == "repeat" and nf[1][2][0] == "count":
            k = nf[1][2][1]
            ok, msg = facts["count-is-validated"](k)
            ctx.check(ok, "C01.R2", "`**` repeats the operand exactly <validated exponent> times", pf.where,
                      ctx.construct(pf, text="repeat count"), msg)
    # argument order of the merge: Structured._merge passes operands positionally in source order
    an = P.func("formulaic.parser.types.ast_node.ASTNode.to_terms")
    gens = [g for g in ast.walk(an.node) if isinstance(g, ast.GeneratorExp) and "node.args" in norm(g.generators[0].iter)]
    ctx.look()
    ok = len(gens) == 1 and norm(gens[0].generators[0].iter) == "node.args" and not gens[0].generators[0].ifs
    ctx.check(ok, "C01.R2", "ASTNode.to_terms evaluates the operands in source order", an.where, ctx.construct(an, text="operand order"),
              "operands must be evaluated and passed to Operator.to_terms in the order they were written (first-appearance order)")


def power_guard_facts(P: Project, pf: FunctionInfo):
    """Structural facts about the validation of the `**` exponent (searched semantically in `power`
    and its nested helpers)."""
    fn = pf.node
    params = [p for p in param_names(fn)]
    expo = params[1] if len(params) > 1 else None
    nodes = list(ast.walk(fn))
    facts = {}

    def rejecting(test_node, when_true: bool) -> bool:
        """Does the construct holding ``test_node`` lead to raise/None when the test is ``when_true``?"""
        par = P.parent(test_node)
        # climb BoolOp (or-chains of rejection reasons) and `not`
        pol = when_true
        while isinstance(par, (ast.BoolOp, ast.UnaryOp)):
            if isinstance(par, ast.UnaryOp) and isinstance(par.op, ast.Not):
                pol = not pol
            test_node, par = par, P.parent(par)
        if isinstance(par, ast.If) and par.test is test_node:
            branch = par.body if pol else par.orelse

            def none_then_raise(s):
                # `x = None` where the function goes on to raise on `x is None` (the statement spelling of `x = … if ok else None`)
                if not (isinstance(s, ast.Assign) and len(s.targets) == 1 and isinstance(s.targets[0], ast.Name) and is_const(s.value, None)):
                    return False
                t_ = s.targets[0].id
                return any(isinstance(i_, ast.If) and norm(i_.test) == f"{t_} is None" and any(isinstance(b_, ast.Raise) for b_ in i_.body) for i_ in nodes)
            return any(isinstance(s, ast.Raise) or (isinstance(s, ast.Return) and (s.value is None or is_const(s.value, None))) or none_then_raise(s) for s in branch)
        if isinstance(par, ast.IfExp) and par.test is test_node:
            br = par.body if pol else par.orelse
            return is_const(br, None)
        return False

    # single-term exponent: len(<exponent operand>) ==/!= 1
    ok = False
    for n in nodes:
        if isinstance(n, ast.Compare) and len(n.ops) == 1 and isinstance(n.left, ast.Call) and dotted(n.left.func) == "len" \
                and n.left.args and isinstance(n.left.args[0], ast.Name) and n.left.args[0].id == expo and is_const(n.comparators[0], 1):
            if isinstance(n.ops[0], ast.Eq) and rejecting(n, False):
                ok = True
            if isinstance(n.ops[0], ast.NotEq) and rejecting(n, True):
                ok = True
    facts["single-term"] = (ok, f"the exponent operand `{expo}` must be rejected unless it holds exactly one term "
                                "(`a**(1+2)` would silently be read as `a**1`)")
    # non-empty before next(iter(...)) is implied by single-term when it dominates; checked in C14.R3
    ok_pos = False
    for n in nodes:
        if isinstance(n, ast.Compare) and len(n.ops) == 1 and isinstance(n.left, ast.Name):
            c = n.comparators[0]
            if (isinstance(n.ops[0], ast.Gt) and is_const(c, 0)) or (isinstance(n.ops[0], ast.GtE) and is_const(c, 1)):
                if rejecting(n, False):
                    ok_pos = True
            if (isinstance(n.ops[0], ast.LtE) and is_const(c, 0)) or (isinstance(n.ops[0], ast.Lt) and is_const(c, 1)):
                if rejecting(n, True):
                    ok_pos = True
    facts["positive"] = (ok_pos, "the exponent must be rejected unless it is strictly positive (`a**(0)` has no terms to multiply)")
    ok_int = any(isinstance(n, ast.Call) and dotted(n.func) == "isinstance" and len(n.args) == 2 and norm(n.args[1]) == "int"
                 for n in nodes)
    facts["integer"] = (ok_int, "the exponent literal must be checked to be an int")
    ok_val = any(isinstance(n, ast.Compare) and len(n.ops) == 1 and isinstance(n.ops[0], (ast.IsNot, ast.NotEq, ast.Is, ast.Eq))
                 and (P.resolve_in(pf, n.comparators[0]) or "").endswith("Token.Kind.VALUE") and norm(n.left).endswith(".token.kind")
                 for n in nodes)
    facts["value-token"] = (ok_val, "the exponent must come from a VALUE token (not a name or Python expression)")
    ok_one = any(isinstance(n, ast.Compare) and len(n.ops) == 1 and isinstance(n.left, ast.Call) and dotted(n.left.func) == "len"
                 and n.left.args and norm(n.left.args[0]).endswith(".factors") and is_const(n.comparators[0], 1) for n in nodes)
    facts["single-factor"] = (ok_one, "the exponent term must consist of exactly one factor")
    lit = [n for n in nodes if isinstance(n, ast.Call) and (dotted(n.func) or "").endswith("literal_eval")]
    ok_try = bool(lit)
    for c in lit:
        t = P.parent(c)
        while t is not None and not isinstance(t, (ast.Try, ast.FunctionDef, ast.Lambda)):
            t = P.parent(t)
        caught = set()
        if isinstance(t, ast.Try) and any(id(c) in {id(x) for s in t.body for x in ast.walk(s)} for _ in [0]):
            for h in t.handlers:
                if h.type is None:
                    caught.add("BaseException")
                else:
                    for x in ([h.type] if not isinstance(h.type, ast.Tuple) else h.type.elts):
                        caught.add(dotted(x) or "")
        if not ({"SyntaxError", "ValueError"} <= caught or caught & {"Exception", "BaseException"}):
            ok_try = False
    facts["literal-eval-guarded"] = (ok_try, "ast.literal_eval of VALUE-token text must sit in a try whose handler catches "
                                             "SyntaxError and ValueError (`a**1.5.2`, `a**01` would escape as a bare SyntaxError)")

    def count_is_validated(k: str):
        # the repeat count `k` must be the value returned by the validating helper / compared against None before use
        asg = [(n_, v) for n_, v, _ in assignments(fn) if n_ == k]
        if not asg:
            return False, f"repeat count `{k}` is not a validated local"
        guard = any(isinstance(n, ast.If) and isinstance(n.test, ast.Compare) and isinstance(n.test.left, ast.Name) and n.test.left.id == k
                    and isinstance(n.test.ops[0], ast.Is) and is_const(n.test.comparators[0], None)
                    and any(isinstance(s, ast.Raise) for s in n.body) for n in walk_no_nested(fn))
        if not guard:
            return False, f"no `if {k} is None: raise` guard precedes the product"
        return True, ""

    facts["count-is-validated"] = count_is_validated
    return facts


# ============================================================================ R3 sign runs
def r3(ctx):
    P = ctx.project
    f = P.func(RESOLVER + ".resolve")
    fn = f.node
    loops = [n for n in walk_no_nested(fn) if isinstance(n, ast.While)]
    target = None
    for lp in loops:
        ms = [(n, v) for n, v, st in assignments(lp) if isinstance(v, ast.Call) and (dotted(v.func) or "").endswith("re.search")]
        if ms:
            target = (lp, ms[0][0], ms[0][1])
    if target is None:
        raise AnalysisError("C01.R3: sign-run loop (re.search in a while loop) not found in resolve")
    lp, mvar, search = target
    pat = search.args[0]
    subj = search.args[1]
    ctx.look()
    ok_pat = isinstance(pat, ast.Constant) and pat.value in (r"[+\-]{2,}", r"[-+]{2,}", r"[\+\-]{2,}", r"[\-+]{2,}")
    ctx.check(ok_pat, "C01.R3", "sign runs are maximal runs of two or more +/-", f.module.line(search), ctx.construct(f, search),
              f"pattern `{norm(pat)}` does not match exactly the runs of two or more '+'/'-' characters")
    if not isinstance(subj, ast.Name):
        raise AnalysisError("C01.R3: re.search subject is not a variable")
    sym = subj.id
    stores = [st for n, v, st in assignments(lp) if n == sym]
    ctx.floor("C01.R3", len(stores), 1, "assignments back to the symbol in the sign-run loop")
    for st in stores:
        ctx.look()
        branches = _string_branches(st.value, sym, mvar)
        bad = []
        for cond, pieces in branches:
            if cond not in ("odd", "even"):
                bad.append(f"branch condition `{cond}` is not the parity of the number of '-' in the run")
                continue
            want = ["P", "-" if cond == "odd" else "+", "S"]
            if pieces != want:
                bad.append(f"when the number of '-' is {cond} the symbol becomes {'·'.join(pieces) or 'ε'} instead of {'·'.join(want)} "
                           f"(P = text before the run, S = text after it)")
        if {c for c, _ in branches} != {"odd", "even"}:
            bad.append("both parities must be handled")
        ctx.check(not bad, "C01.R3", "sign-run collapsing keeps prefix/suffix and picks '-' iff the number of '-' is odd",
                  f.module.line(st), ctx.construct(f, st), "; ".join(bad))
    # after collapsing: whole symbol looked up, else split per character
    ctx.ok("C01.R3", f"{len(stores)} rewrite statement(s) evaluated over symbolic pieces", f.where)


def _string_branches(e: ast.AST, sym: str, m: str) -> List[Tuple[str, List[str]]]:
    """Evaluate a string expression over pieces P / S / literal chars, splitting on conditional expressions."""
    def piece(x) -> Optional[str]:
        t = norm(x)
        if re.fullmatch(r"%s\[:%s\.start\((0)?\)\]" % (sym, m), t):
            return "P"
        if re.fullmatch(r"%s\[%s\.end\((0)?\):\]" % (sym, m), t):
            return "S"
        if isinstance(x, ast.Constant) and isinstance(x.value, str):
            return x.value
        return None

    def ev(x) -> List[Tuple[Optional[str], List[str]]]:
        p = piece(x)
        if p is not None:
            return [(None, [p] if p != "" else [])]
        if isinstance(x, ast.BinOp) and isinstance(x.op, ast.Add):
            out = []
            for c1, l in ev(x.left):
                for c2, r in ev(x.right):
                    if c1 and c2 and c1 != c2:
                        continue
                    out.append((c1 or c2, l + r))
            return out
        if isinstance(x, ast.IfExp):
            par = _parity(x.test, m)
            t, fl = ("odd", "even") if par == "odd" else ("even", "odd") if par == "even" else (f"{norm(x.test)}", f"not ({norm(x.test)})")
            out = []
            for c, l in ev(x.body):
                out.append((t if c is None else (c if c == t else "conflict"), l))
            for c, l in ev(x.orelse):
                out.append((fl if c is None else (c if c == fl else "conflict"), l))
            return out
        if isinstance(x, ast.JoinedStr):
            parts: List[Tuple[Optional[str], List[str]]] = [(None, [])]
            for v in x.values:
                sub = ev(v.value) if isinstance(v, ast.FormattedValue) else ev(v)
                parts = [(c1 or c2, l + r) for c1, l in parts for c2, r in sub if not (c1 and c2 and c1 != c2)]
            return parts
        return [("unmodelled:" + norm(x)[:50], ["?"])]

    res = ev(e)
    # a branch without a condition holds for both parities
    out = []
    for c, l in res:
        if c is None:
            out += [("odd", l), ("even", l)]
        else:
            out.append((c, l))
    return out


def _parity(test: ast.AST, m: str) -> Optional[str]:
    """'odd' if the test is true exactly when the run has an odd number of '-', 'even' for the reverse."""
    t, neg = count_negations(test)
    pol = None
    cmpv = None
    if isinstance(t, ast.Compare) and len(t.ops) == 1 and isinstance(t.comparators[0], ast.Constant) and t.comparators[0].value in (0, 1):
        cmpv = (t.ops[0], t.comparators[0].value)
        t = t.left
    if isinstance(t, ast.BinOp) and isinstance(t.op, ast.Mod) and is_const(t.right, 2):
        cnt = norm(t.left)
        run = r"%s\.group\((0)?\)" % m
        if re.fullmatch(r"len\(%s\.replace\('\+', ''\)\)" % run, cnt) or re.fullmatch(r"%s\.count\('-'\)" % run, cnt):
            pol = "odd"
        elif re.fullmatch(r"len\(%s\.replace\('-', ''\)\)" % run, cnt) or re.fullmatch(r"%s\.count\('\+'\)" % run, cnt):
            return None  # parity of '+' count is not the parity of '-' count
    if pol is None:
        return None
    if cmpv is not None:
        op, v = cmpv
        truth_when_odd = (isinstance(op, ast.Eq) and v == 1) or (isinstance(op, ast.NotEq) and v == 0)
        truth_when_even = (isinstance(op, ast.Eq) and v == 0) or (isinstance(op, ast.NotEq) and v == 1)
        if not (truth_when_odd or truth_when_even):
            return None
        pol = "odd" if truth_when_odd else "even"
    if neg % 2:
        pol = "even" if pol == "odd" else "odd"
    return pol


# ============================================================================ R4 intercept / zero rewriting
def r4(ctx):
    P = ctx.project
    f = P.func(DFP + ".get_tokens_from_formula")
    fn = f.node
    env = {n: v for n, v, _ in assignments(fn)}
    # token constants
    def token_const(name):
        v = env.get(name)
        if isinstance(v, ast.Call) and dotted(v.func) == "Token" and v.args and isinstance(v.args[0], ast.Constant):
            k = kwarg(v, "kind")
            return v.args[0].value, (P.resolve_in(f, k) or norm(k)).split(".")[-1] if k is not None else None
        return None
    tok = {n: token_const(n) for n in env if token_const(n)}
    one = [n for n, v in tok.items() if v == ("1", "VALUE")]
    plus = [n for n, v in tok.items() if v == ("+", "OPERATOR")]
    minus = [n for n, v in tok.items() if v == ("-", "OPERATOR")]
    if not (one and plus and minus):
        raise AnalysisError("C01.R4: token constants for '1', '+', '-' not found in get_tokens_from_formula")
    one, plus, minus = one[0], plus[0], minus[0]
    others = {n: v for n, v in tok.items() if n not in (one, plus, minus)}
    ctx.look()
    ctx.check(not others, "C01.R4", "only the tokens 1, + and - can be inserted", f.where, ctx.construct(f, text="inserted tokens"),
              f"the rewriting creates other tokens: {others}")
    # zero replacement
    rep = [c for c in ast.walk(fn) if isinstance(c, ast.Call) and dotted(c.func) == "replace_tokens"]
    ctx.floor("C01.R4", len(rep), 1, "replace_tokens calls")
    rfn = P.func("formulaic.parser.utils.replace_tokens").node
    for c in rep:
        ctx.look()
        a_tok = arg_for(c, rfn, "token_to_replace")
        a_rep = arg_for(c, rfn, "replacement")
        a_kind = kwarg(c, "kind")
        ok = (is_const(a_tok, "0") and isinstance(a_rep, (ast.List, ast.Tuple)) and [norm(x) for x in a_rep.elts] == [minus, one]
              and a_kind is not None and (P.resolve_in(f, a_kind) or "").endswith("Token.Kind.VALUE"))
        ctx.check(ok, "C01.R4", "VALUE token `0` is rewritten to `-`,`1` (and only VALUE tokens)", f.module.line(c), ctx.construct(f, c),
                  f"expected replace_tokens(tokens, '0', [{minus}, {one}], kind=Token.Kind.VALUE); got `{norm(c)[:120]}`")
    # intercept insertions
    ins = [c for c in ast.walk(fn) if isinstance(c, ast.Call) and dotted(c.func) == "insert_tokens_after"]
    ctx.floor("C01.R4", len(ins), 2, "insert_tokens_after calls")
    ifn = P.func("formulaic.parser.utils.insert_tokens_after").node
    seen_pat = set()
    for c in ins:
        ctx.look()
        pat = arg_for(c, ifn, "pattern")
        add = arg_for(c, ifn, "tokens_to_add")
        kind = kwarg(c, "kind")
        join = kwarg(c, "join_operator")
        nojoin = kwarg(c, "no_join_for_operators")
        if isinstance(nojoin, ast.Name) and isinstance(env.get(nojoin.id), ast.Set):
            nojoin = env[nojoin.id]   # a set literal shared through a local
        patv = pat.value if isinstance(pat, ast.Constant) else None
        seen_pat.add(patv)
        for flag in (True, False):
            guarded = _under_include_intercept(P, c)
            if guarded and not flag:
                continue
            addv = _fold_flag(add, flag)
            joinv = _fold_flag(join, flag) if join is not None else ast.Constant(None)
            want_add = [one] if flag else []
            got_add = [norm(x) for x in addv.elts] if isinstance(addv, (ast.List, ast.Tuple)) else None
            ok_add = got_add == want_add
            ok_join = (is_const(joinv, "+") if flag else (is_const(joinv, None) or got_add == []))
            ok_nojoin = (not flag) or (isinstance(nojoin, ast.Set) and sorted(const_value(x) for x in nojoin.elts) == ["+", "-"])
            ok_kind = kind is not None and (P.resolve_in(f, kind) or "").endswith("Token.Kind.OPERATOR")
            ok_pat = patv in ("~", r"\|")
            msgs = []
            if not ok_pat:
                msgs.append(f"pattern {patv!r} is neither `~` nor `|`")
            if not ok_add:
                msgs.append(f"with include_intercept={flag} inserts {got_add} (expected {want_add})")
            if not ok_join:
                msgs.append(f"with include_intercept={flag} join operator is `{norm(joinv)}`")
            if not ok_nojoin:
                msgs.append("no_join_for_operators must be {'+', '-'} so that an explicit sign follows the inserted 1 directly")
            if not ok_kind:
                msgs.append("insertion must only look at OPERATOR tokens")
            ctx.check(not msgs, "C01.R4", f"insertion after {patv!r} with include_intercept={flag}", f.module.line(c),
                      ctx.construct(f, text=f"insert_tokens_after {patv!r}"), "; ".join(msgs))
        # the `|` insertion applies only right of the top-level `~`
        if patv == r"\|":
            a0 = arg_for(c, ifn, "tokens")
            ok = isinstance(a0, ast.Subscript) and isinstance(a0.slice, ast.Slice) and a0.slice.lower is not None and a0.slice.upper is None \
                and norm(a0.slice.lower) == "rhs_index"
            ctx.check(ok, "C01.R4", "intercepts after `|` are only inserted right of the top-level `~`", f.module.line(c),
                      ctx.construct(f, text="insert_tokens_after | slice"),
                      f"`|` insertion is applied to `{norm(a0) if a0 is not None else None}`; expected tokens[rhs_index:]")
            ctx.check(_under_include_intercept(P, c), "C01.R4", "`|` intercept insertion only with include_intercept", f.module.line(c),
                      ctx.construct(f, text="insert_tokens_after | guard"), "the `|` insertion is reachable without include_intercept")
    ctx.check(seen_pat >= {"~", r"\|"}, "C01.R4", "intercepts are inserted after `~` and after `|`", f.where,
              ctx.construct(f, text="insertion patterns"), f"patterns handled: {seen_pat}")
    # assembly: lhs slice forwarded unchanged, `1 +` prefix when there is no `~`
    lists = [n for n in ast.walk(fn) if isinstance(n, ast.List) and any(isinstance(e, ast.Starred) for e in n.elts)
             and any("insert_tokens_after" in norm(e) for e in n.elts)]
    ctx.floor("C01.R4", len(lists), 1, "token list re-assembly")
    for l in lists:
        ctx.look()
        first = l.elts[0].value if isinstance(l.elts[0], ast.Starred) else None
        ok = isinstance(first, ast.IfExp) and norm(first.test) in ("rhs_index > 0", "rhs_index >= 1", "0 < rhs_index") \
            and norm(first.body) == "tokens[:rhs_index]"
        alt = first.orelse if isinstance(first, ast.IfExp) else None
        ok_prefix = False
        if isinstance(alt, ast.IfExp):
            ok_prefix = norm(alt.body) == f"[{one}, {plus}]" and norm(alt.orelse) == f"[{one}]" and norm(alt.test) in ("len(tokens) > 0", "tokens")
        elif alt is not None:
            ok_prefix = norm(alt) == f"[{one}, {plus}]"
        ctx.check(ok and ok_prefix and _under_include_intercept(P, l), "C01.R4",
                  "left-hand side forwarded unchanged; `1 +` prefix when the formula has no `~`", f.module.line(l),
                  ctx.construct(f, text="token re-assembly"),
                  f"expected [*(tokens[:rhs_index] if rhs_index > 0 else [1, +] | [1]), *insert_tokens_after(tokens[rhs_index:], '|', ...)] "
                  f"under include_intercept; got `{norm(l)[:140]}`")
    # rhs_index = find_rhs_index(tokens) + 1
    rhs = env.get("rhs_index")
    # the search helper may be a nested function or a (private) module-level function of the same module
    helper = None
    if isinstance(rhs, ast.BinOp) and isinstance(rhs.op, ast.Add) and isinstance(rhs.left, ast.Call) and isinstance(rhs.left.func, ast.Name) \
            and is_const(rhs.right, 1) and [norm(a) for a in rhs.left.args] == ["tokens"] and not rhs.left.keywords:
        helper = rhs.left.func.id
    ctx.check(helper is not None, "C01.R4", "rhs_index is one past the top-level `~`", f.where,
              ctx.construct(f, text="rhs_index"), f"rhs_index = `{norm(rhs) if rhs is not None else None}`")
    fr = P.functions.get(f"{f.qualname}.<locals>.{helper}") or P.functions.get(f"{f.module.name}.{helper}") if helper else None
    if fr is None:
        raise AnalysisError("C01.R4: the top-level `~` search helper of get_tokens_from_formula was not found")
    r_ret = [r for r in returns_of(fr.node)]
    ok = any(norm(r.value) == "index" for r in r_ret) and any(norm(r.value) == "-1" for r in r_ret) and \
        any(isinstance(n, ast.If) and norm(n.test) == "token.token == '~'" for n in ast.walk(fr.node)) and \
        any(isinstance(n, ast.If) and norm(n.test) == "context" and isinstance(n.body[0], ast.Continue) for n in ast.walk(fr.node))
    ctx.check(ok, "C01.R4", "find_rhs_index returns the index of the first `~` outside brackets, else -1", fr.where,
              ctx.construct(fr, text="find_rhs_index"), "the top-level `~` search must skip bracketed tokens and return -1 when absent")
    # finally the inserted signs are merged with adjacent sign tokens
    mg = [c for c in ast.walk(fn) if isinstance(c, ast.Call) and dotted(c.func) == "merge_operator_tokens"]
    sy = kwarg(mg[0], "symbols") if len(mg) == 1 else None
    if isinstance(sy, ast.Name) and isinstance(env.get(sy.id), ast.Set):
        sy = env[sy.id]
    ok = len(mg) == 1 and isinstance(sy, ast.Set) and sorted(const_value(x) for x in sy.elts) == ["+", "-"]
    last_ret = returns_of(fn)
    ctx.check(ok and len(last_ret) == 1 and isinstance(last_ret[0].value, ast.Name), "C01.R4",
              "inserted +/- are merged with adjacent sign tokens before resolution", f.where, ctx.construct(f, text="merge_operator_tokens"),
              "merge_operator_tokens(tokens, symbols={'+','-'}) must be the last rewriting step")
    # every use of the `1` token other than the `0` replacement is unreachable without include_intercept
    uses = [n for n in ast.walk(fn) if isinstance(n, ast.Name) and n.id == one and isinstance(n.ctx, ast.Load)]
    for u in uses:
        ctx.look()
        in_rep = any(id(u) in {id(x) for x in ast.walk(c)} for c in rep)
        ok = in_rep or _under_include_intercept(P, u) or _in_flag_true_branch(P, u)
        ctx.check(ok, "C01.R4", "no `1` is inserted when include_intercept is off", f.module.line(u), ctx.construct(f, P.enclosing_stmt(u)),
                  "an intercept token is reachable with include_intercept=False")


def _is_flag(t: ast.AST) -> bool:
    return norm(t) == "self.include_intercept"


def _under_include_intercept(P: Project, node: ast.AST) -> bool:
    n, child = P.parent(node), node
    while n is not None and not isinstance(n, (ast.FunctionDef, ast.Lambda)) or (isinstance(n, ast.FunctionDef) and n.name == "find_rhs_index"):
        if isinstance(n, ast.If) and _is_flag(n.test) and any(child is s for s in n.body):
            return True
        child, n = n, P.parent(n)
    return False


def _in_flag_true_branch(P: Project, node: ast.AST) -> bool:
    n, child = P.parent(node), node
    while n is not None and not isinstance(n, ast.FunctionDef):
        if isinstance(n, ast.IfExp) and _is_flag(n.test) and child is n.body:
            return True
        child, n = n, P.parent(n)
    return False


def _fold_flag(e: Optional[ast.AST], flag: bool) -> Optional[ast.AST]:
    if isinstance(e, ast.IfExp) and _is_flag(e.test):
        return e.body if flag else e.orelse
    return e


# ============================================================================ R5 term identity
def r5(ctx):
    P = ctx.project
    T = P.cls("formulaic.parser.types.term.Term")
    init, eq, hs, mul = (T.methods.get(m) for m in ("__init__", "__eq__", "__hash__", "__mul__"))
    if not all((init, eq, hs, mul)):
        raise AnalysisError("C01.R5: Term.__init__/__eq__/__hash__/__mul__ missing")
    attrs = {}
    for st in walk_no_nested(init.node):
        if isinstance(st, ast.Assign) and len(st.targets) == 1 and isinstance(st.targets[0], ast.Attribute) and dotted(st.targets[0].value) == "self":
            attrs[st.targets[0].attr] = st.value
    try:
        io = [o for o in sym.outcomes(init.node) if o.kind in ("fall", "return")]
    except sym.Unmodelled:
        io = []
    if len(io) == 1:
        # values with the constructor's locals substituted (`key = …; self._factor_key = key` reads as `self._factor_key = …`)
        frozen = {e.targets[0].id: e.value for e in io[0].effects if isinstance(e, ast.Assign) and len(e.targets) == 1 and isinstance(e.targets[0], ast.Name)}
        for e in io[0].effects:
            if isinstance(e, ast.Assign) and len(e.targets) == 1 and isinstance(e.targets[0], ast.Attribute) and dotted(e.targets[0].value) == "self":
                attrs[e.targets[0].attr] = sym.subst(e.value, frozen) if frozen else e.value
    ctx.look(4)
    fac = attrs.get("factors")
    ok = fac is not None and re.fullmatch(r"tuple\((dict\.fromkeys|OrderedSet)\(factors\)\)", norm(fac)) is not None
    ctx.check(ok, "C01.R5", "Term factors are duplicate-free in first-appearance order (a:a = a)", init.where,
              ctx.construct(init, text="self.factors"), f"self.factors = `{norm(fac) if fac is not None else None}`; expected tuple(dict.fromkeys(factors))")
    # __eq__ on Term compares one key attribute on both sides
    key = None
    try:
        eq_outs = sym.outcomes(eq.node)
    except sym.Unmodelled as e:
        raise AnalysisError(f"C01.R5: Term.__eq__ cannot be summarised: {e}")
    other = param_names(eq.node)[1]
    tt = sym.eval_under(eq_outs, {f"isinstance({other}, Term)": True}, kinds=("return",))
    if len(tt) == 1:
        b = sym.pm_any([f"self.ANY_k == {other}.ANY_k", f"{other}.ANY_k == self.ANY_k"], tt[0][1])
        if b is None and isinstance(tt[0][1], ast.Compare) and len(tt[0][1].ops) == 1 and isinstance(tt[0][1].ops[0], ast.Eq):
            l, rr = tt[0][1].left, tt[0][1].comparators[0]
            if isinstance(l, ast.Attribute) and isinstance(rr, ast.Attribute) and l.attr == rr.attr and {dotted(l.value), dotted(rr.value)} == {"self", other}:
                key = l.attr
    ctx.check(key is not None, "C01.R5", "Term == Term compares one identity key", eq.where, ctx.construct(eq, text="Term==Term"),
              "Term.__eq__(Term) must compare a single key attribute of both operands")
    if key:
        kv = attrs.get(key)
        t = norm(kv) if kv is not None else ""
        order_insensitive = ("sorted(self.factors)" in t or "frozenset(" in t or "sorted(" in t) and "factor" in t
        ctx.check(order_insensitive and "reverse" not in t, "C01.R5", "the identity key is order-insensitive in the factors (a:b = b:a)", init.where,
                  ctx.construct(init, text=f"self.{key}"), f"self.{key} = `{t}` is not built from sorted/frozenset factor expressions")
        # ... and structure preserving: a collection with one element per factor, not a joined string (a factor named `a:b` is not a:b)
        kv0 = strip_casts(kv) if kv is not None else None
        structured = isinstance(kv0, ast.Call) and dotted(kv0.func) in ("tuple", "frozenset") and not any(
            isinstance(c, ast.Call) and isinstance(c.func, ast.Attribute) and c.func.attr == "join" for c in ast.walk(kv0))
        ctx.check(structured, "C01.R5", "the identity key keeps one element per factor (no joined string)", init.where,
                  ctx.construct(init, text=f"self.{key} structure"),
                  f"self.{key} = `{t}` flattens the factors into one string: a quoted factor whose name contains the separator (`a:b`) becomes "
                  f"identical to the interaction a:b")
        # the str comparison must use the same structured key
        ss = sym.eval_under(eq_outs, {f"isinstance({other}, Term)": False, f"isinstance({other}, str)": True}, kinds=("return",))
        if ss:
            v = ss[0][1]
            ok_s = len(ss) == 1 and isinstance(v, ast.Compare) and len(v.ops) == 1 and isinstance(v.ops[0], ast.Eq) and norm(v.left) == f"self.{key}" \
                and "FACTOR_MATCHER" in norm(v.comparators[0]) and norm(v.comparators[0]).startswith(("tuple(sorted(", "frozenset("))
            ctx.check(ok_s, "C01.R5", "Term == str parses the string into factor names and compares the same key", eq.where, ctx.construct(eq, text="Term==str"),
                      f"str branch returns `{norm(v)[:120]}`")
        # hash derives from the key only
        hret = returns_of(hs.node)
        hexpr = hret[0].value if hret else None
        hattr = hexpr.attr if isinstance(hexpr, ast.Attribute) and dotted(hexpr.value) == "self" else None
        hsrc = attrs.get(hattr) if hattr else hexpr
        if hsrc is not None and kv is not None and norm(kv) in norm(hsrc):
            hsrc = ast.parse(norm(hsrc).replace(norm(kv), f"self.{key}"), mode="eval").body
        used = {n.attr for n in ast.walk(hsrc) if isinstance(n, ast.Attribute) and dotted(n.value) == "self"} if hsrc is not None else set()
        ctx.check(used == {key}, "C01.R5", "Term.__hash__ depends only on the identity key", hs.where, ctx.construct(hs, text="hash"),
                  f"hash is computed from {sorted(used)}; equality uses `{key}` — equal terms could hash differently (set semantics break)")
    # __mul__ concatenates factors
    mo = param_names(mul.node)[1]
    try:
        mm = sym.eval_under(sym.outcomes(mul.node), {f"isinstance({mo}, Term)": True}, kinds=("return",))
    except sym.Unmodelled:
        mm = []
    ok = len(mm) == 1 and sym.pm_any([f"Term([*self.factors, *{mo}.factors])", f"Term((*self.factors, *{mo}.factors))", f"Term(self.factors + {mo}.factors)",
                                      f"Term(itertools.chain(self.factors, {mo}.factors))", f"Term(factors=[*self.factors, *{mo}.factors])"], mm[0][1]) is not None
    ctx.check(ok, "C01.R5", "Term * Term is the term over the concatenated factors", mul.where, ctx.construct(mul, text="mul"),
              "Term.__mul__ must build Term([*self.factors, *other.factors]) (interaction = union of factors, left first)")


# ============================================================================ R6 ordering
def r6(ctx):
    P = ctx.project
    SF = "formulaic.formula.SimpleFormula"
    ro = P.method(SF, "_reorder")
    ctx.look()
    # what is stored into the term list when the ordering is DEGREE (however the sorter is spelt: inline, through a local lambda, …)
    try:
        oo = sym.outcomes(ro.node)
    except sym.Unmodelled as e:
        raise AnalysisError(f"C01.R6: SimpleFormula._reorder cannot be summarised: {e}")
    deg = [o for o in oo if any(pol and isinstance(c, ast.Compare) and len(c.ops) == 1 and isinstance(c.ops[0], ast.Is)
                                and norm(c.comparators[0]).endswith("OrderingMethod.DEGREE") for c, pol in o.conds)]
    if not deg:
        raise AnalysisError("C01.R6: DEGREE branch of SimpleFormula._reorder not found")
    stores = [[e for e in o.effects if isinstance(e, ast.Assign) and norm(e.targets[0]).startswith("self.__terms")] for o in deg]
    ok_store = all(len(x) == 1 for x in stores)
    b = stores[0][0].value if stores and stores[0] else None
    ok = ok_store and all(norm(x[0].value) == norm(b) for x in stores) and isinstance(b, ast.Call) and dotted(b.func) == "sorted" and len(b.args) == 1 \
        and norm(b.args[0]) == "self.__terms" and [k.arg for k in b.keywords] == ["key"]
    keyf = kwarg(b, "key") if isinstance(b, ast.Call) else None
    ok_key = isinstance(keyf, ast.Lambda) and isinstance(keyf.body, ast.Attribute) and keyf.body.attr == "degree" \
        and isinstance(keyf.body.value, ast.Name) and keyf.body.value.id == keyf.args.args[0].arg
    ok_key = ok_key or (keyf is not None and norm(keyf) in ("operator.attrgetter('degree')", "attrgetter('degree')"))
    ctx.check(ok and ok_key, "C01.R6", "DEGREE ordering is a stable ascending sort keyed on Term.degree only", ro.where,
              ctx.construct(ro, text="DEGREE orderer"),
              f"under DEGREE the term list becomes `{norm(b) if b is not None else None}`; expected sorted(self.__terms, key=lambda term: term.degree) with no reverse / secondary key")
    # the orderer is applied to and stored back into the private term list
    ctx.check(ok_store, "C01.R6", "the reordered list is stored back", ro.where,
              ctx.construct(ro, text="store"), "the result of the orderer must replace self.__terms")
    # Term.degree counts non-literal factors
    dg = P.method("formulaic.parser.types.term.Term", "degree")
    r = returns_of(dg.node)
    t = norm(r[0].value) if r else ""
    gens = [g for g in ast.walk(dg.node) if isinstance(g, (ast.GeneratorExp, ast.ListComp))]
    ok = False
    if gens and len(gens[0].generators) == 1 and norm(gens[0].generators[0].iter) == "self.factors" and len(gens[0].generators[0].ifs) == 1:
        c, neg = count_negations(gens[0].generators[0].ifs[0])
        if isinstance(c, ast.Compare) and len(c.ops) == 1 and norm(c.left).endswith(".eval_method") and norm(c.comparators[0]).endswith("LITERAL"):
            ok = (isinstance(c.ops[0], (ast.NotEq, ast.IsNot)) and neg % 2 == 0) or (isinstance(c.ops[0], (ast.Eq, ast.Is)) and neg % 2 == 1)
    # the count itself: len(<collection of the kept factors>) or sum(1 for kept factor)
    counted = t.startswith("len(") or (sym.pm("sum((1 for VAR_f in self.factors if ANY_c))", r[0].value if r else None) is not None)
    t = "len(" if counted else t
    ctx.check(ok and t.startswith("len("), "C01.R6", "Term.degree counts exactly the non-literal factors", dg.where, ctx.construct(dg, text="degree"),
              f"degree = `{t}`; numeric scalings must not add to the interaction order")
    # reorder after every store (shared with C19.R4)
    store_then_reorder(ctx, "C01.R6")


def store_then_reorder(ctx, rule: str):
    P = ctx.project
    SF = P.cls("formulaic.formula.SimpleFormula")
    n = 0
    for name, m in SF.methods.items():
        fn = m.node
        stores = []
        for st in walk_no_nested(fn):
            if isinstance(st, (ast.Assign, ast.AugAssign)):
                tg = st.targets if isinstance(st, ast.Assign) else [st.target]
                if any(("self.__terms" in norm(t)) for t in tg):
                    stores.append(st)
            elif isinstance(st, ast.Expr) and isinstance(st.value, ast.Call) and isinstance(st.value.func, ast.Attribute) \
                    and norm(st.value.func.value) == "self.__terms" and st.value.func.attr in ("insert", "append", "extend", "__setitem__"):
                stores.append(st)
        if not stores or name == "_reorder":
            continue
        n += 1
        cfg = CFG(fn)
        for s in stores:
            ctx.look()
            is_reorder = lambda st: any(isinstance(c.func, ast.Attribute) and c.func.attr == "_reorder" and dotted(c.func.value) == "self"
                                        for c in header_calls(st))
            w = cfg.path_avoiding(s, lambda mm, lab: mm == EXIT and lab in ("return", "fallthrough"), is_reorder)
            ctx.check(w is None, rule, f"SimpleFormula.{name}: every store into the term list is followed by _reorder()", m.module.line(s),
                      ctx.construct(m, s), "a path stores terms and returns without re-establishing the ordering invariant",
                      cfg.describe(w) if w else None)
    ctx.floor(rule, n, 3, "SimpleFormula methods storing terms")


# ============================================================================ R7 spec forms
def r7(ctx):
    P = ctx.project
    f = P.func("formulaic.formula._FormulaMeta.from_spec")
    fn = f.node
    handled = set()
    for n in walk_no_nested(fn):
        # a type is handled when some branch (statement or conditional expression, possibly negated) tests for it
        if isinstance(n, ast.Call) and dotted(n.func) == "isinstance" and len(n.args) == 2 and norm(n.args[0]) == "spec":
            t = n.args[1]
            for x in (t.elts if isinstance(t, ast.Tuple) else [t]):
                handled.add(norm(x))
    spec_alias = P.module("formulaic.formula").assigns.get("FormulaSpec")
    if spec_alias is None:
        raise AnalysisError("C01.R7: FormulaSpec alias not found")
    members = []
    sl = spec_alias.slice if isinstance(spec_alias, ast.Subscript) else None
    for x in (sl.elts if isinstance(sl, ast.Tuple) else []):
        base = x.value if isinstance(x, ast.Subscript) else x
        nm = norm(base).strip("'\"")
        members.append({"Formula": "Formula", "_FormulaType": "Formula", "FormulaSpec": None}.get(nm, nm))
    members = [m for m in members if m]
    ctx.floor("C01.R7", len(members), 6, "FormulaSpec union members")
    for m in members:
        ctx.look()
        ctx.check(m in handled or (m == "Term" and False), "C01.R7", f"spec form `{m}` has an isinstance branch in Formula.from_spec", f.where,
                  ctx.construct(f, text=f"branch {m}"), f"`{m}` is a documented specification form but from_spec has no branch for it")
    try:
        fouts = sym.outcomes(fn)
    except sym.Unmodelled as e:
        raise AnalysisError(f"C01.R7: from_spec cannot be summarised: {e}")
    none_of = [o for o in fouts if o.conds and all((not pol) and "isinstance(" in norm(c) for c, pol in o.conds)]
    ctx.check(bool(none_of) and all(o.kind == "raise" and "FormulaInvalidError" in norm(o.value) for o in none_of), "C01.R7",
              "an unrecognised specification raises FormulaInvalidError", f.where, ctx.construct(f, text="fallthrough"),
              f"the fall-through of from_spec must raise FormulaInvalidError; found {none_of[:2]}")
    # whole strings -> root parser; strings inside list specs -> nested parser
    calls = [c for c in ast.walk(fn) if isinstance(c, ast.Call) and isinstance(c.func, ast.Attribute) and c.func.attr == "get_terms"]
    ctx.floor("C01.R7", len(calls), 2, "get_terms calls in from_spec")
    for c in calls:
        ctx.look()
        recv = norm(c.func.value)
        # the whole specification string goes to the root parser; a string that is an ELEMENT of a list specification to the nested one
        inside_list = not (c.args and norm(c.args[0]) == "spec")
        want = "nested_parser" if inside_list else "parser"
        ok = recv.replace("(", "").startswith(want) and mentions(c, ["context"])
        ctx.check(ok, "C01.R7", f"{'term strings in a list spec use the nested (no-intercept) parser' if inside_list else 'a whole-string spec uses the root parser'}",
                  f.module.line(c), ctx.construct(f, c), f"get_terms is called on `{recv}` (expected `{want}`) or does not forward `context`")
    dn = P.module("formulaic.formula").assigns.get("DEFAULT_NESTED_PARSER")
    dp = P.module("formulaic.formula").assigns.get("DEFAULT_PARSER")
    ctx.check(dn is not None and norm(dn) == "DefaultFormulaParser(include_intercept=False)" and dp is not None and norm(dp) == "DefaultFormulaParser()",
              "C01.R7", "default root parser adds intercepts, default nested parser does not", "formulaic/formula.py",
              "formulaic.formula:DEFAULT_PARSER/DEFAULT_NESTED_PARSER", f"DEFAULT_PARSER=`{norm(dp) if dp else None}` DEFAULT_NESTED_PARSER=`{norm(dn) if dn else None}`")
    asg = {n: v for n, v, _ in assignments(fn)}
    ctx.check(norm(asg.get("nested_parser", ast.Constant(0))) == "nested_parser or parser or DEFAULT_NESTED_PARSER" and
              norm(asg.get("parser", ast.Constant(0))) == "parser or DEFAULT_PARSER", "C01.R7", "parser defaulting order", f.where,
              ctx.construct(f, text="parser defaults"), "nested_parser must default to parser, then DEFAULT_NESTED_PARSER; parser to DEFAULT_PARSER")
    # keyword / tuple structure: every nested piece goes through the same from_spec with the container's ordering, parsers and context
    pi = P.method("formulaic.formula.StructuredFormula", "_prepare_item", inherited=False)
    calls_pi = [c for c in ast.walk(pi.node) if isinstance(c, ast.Call) and norm(c.func) == "Formula.from_spec"]
    ok = False
    if len(calls_pi) == 1:
        fs = P.func("formulaic.formula._FormulaMeta.from_spec").node
        got = {n: arg_for(calls_pi[0], fs, n, bound_self=True) for n in ("spec", "ordering", "parser", "nested_parser", "context")}
        pr = got["parser"]
        ok = all(v is not None for v in got.values()) and norm(got["spec"]) == "item" and norm(got["ordering"]) == "self._ordering" \
            and norm(got["nested_parser"]) == "self._nested_parser" and norm(got["context"]) == "self._context" \
            and norm(sym.simplify(pr, {"key == 'root'": True})) == "self._parser" and norm(sym.simplify(pr, {"key == 'root'": False})) == "self._nested_parser"
    ctx.check(ok, "C01.R7", "nested pieces of a structured formula are built with the container's ordering, parsers and context", pi.where,
              ctx.construct(pi, text="prepare item"), f"_prepare_item calls `{norm(calls_pi[0])[:160] if calls_pi else None}`")
    si = P.method("formulaic.formula.StructuredFormula", "__init__", inherited=False)
    try:
        so = [o for o in sym.outcomes(si.node) if o.kind in ("fall", "return")]
    except sym.Unmodelled:
        so = []
    ok = bool(so)
    for o in so:
        eff = [norm(e) for e in o.effects]
        need = ["self._ordering = OrderingMethod(_ordering)", "self._parser = _parser or DEFAULT_PARSER",
                "self._nested_parser = _nested_parser or _parser or DEFAULT_NESTED_PARSER", "self._context = _context"]
        sup = [i for i, e in enumerate(eff) if e.startswith("super().__init__(")]
        ok = ok and bool(sup) and all(n in eff and eff.index(n) < sup[0] for n in need)
    ctx.check(ok, "C01.R7", "the container's ordering/parsers/context are set before its items are prepared", si.where, ctx.construct(si, text="init order"),
              "StructuredFormula.__init__ must set _ordering/_parser/_nested_parser/_context before super().__init__ prepares the items")
    mc = P.func("formulaic.formula._FormulaMeta.__call__")
    try:
        co = sym.outcomes(mc.node)
    except sym.Unmodelled as e:
        raise AnalysisError(f"C01.R7: Formula.__call__ cannot be summarised: {e}")
    F = {"cls is Formula": True}
    e0 = sym.eval_under(co, dict(F, **{"root is MISSING": True, "structure": False}), kinds=("return",))
    e1 = sym.eval_under(co, dict(F, **{"root is MISSING": False, "structure": True}), kinds=("return",))
    e1b = sym.eval_under(co, dict(F, **{"root is MISSING": True, "structure": True}), kinds=("return",))
    e2 = sym.eval_under(co, dict(F, **{"root is MISSING": False, "structure": False}), kinds=("return",))
    SF_ = "StructuredFormula(root, _parser=_parser, _nested_parser=_nested_parser, _ordering=_ordering, _context=_context, **structure)._simplify()"
    FS_ = "cls.from_spec(root, ordering=_ordering, parser=_parser, nested_parser=_nested_parser, context=_context)"
    ok = len(e0) == 1 and sym.pm_any(["SimpleFormula([])", "SimpleFormula(())", "SimpleFormula()"], e0[0][1]) is not None \
        and len(e1) == 1 and sym.pm(SF_, e1[0][1]) is not None and len(e1b) == 1 and sym.pm(SF_, e1b[0][1]) is not None \
        and len(e2) == 1 and sym.pm(FS_, e2[0][1]) is not None
    ctx.check(ok, "C01.R7", "Formula(...) dispatches: nothing → empty formula; keywords → structured; otherwise from_spec with all options forwarded", mc.where,
              ctx.construct(mc, text="Formula() dispatch"), "Formula.__call__ dispatch changed")
    # ordering is forwarded to every constructed formula
    ctors = [c for c in ast.walk(fn) if isinstance(c, ast.Call) and dotted(c.func) in ("StructuredFormula", "SimpleFormula")]
    ctx.floor("C01.R7", len(ctors), 4, "formula constructions in from_spec")
    for c in ctors:
        ctx.look()
        o = kwarg(c, "_ordering")
        ctx.check(o is not None and norm(o) == "ordering", "C01.R7", f"{dotted(c.func)} receives the requested ordering", f.module.line(c),
                  ctx.construct(f, text=f"{dotted(c.func)} ordering@{'simple' if dotted(c.func)=='SimpleFormula' else norm(c)[:40]}"),
                  "the ordering argument is not forwarded to the constructed formula")


def _ancestors(P, n):
    n = P.parent(n)
    while n is not None:
        yield n
        n = P.parent(n)


# ============================================================================ R8 ordered set
def r8(ctx):
    P = ctx.project
    C = P.cls("formulaic.parser.types.ordered_set.OrderedSet")
    ctx.look(4)
    init = C.methods.get("__init__")
    store = [s for s in walk_no_nested(init.node) if isinstance(s, ast.Assign)] if init else []
    ok = len(store) == 1 and norm(store[0].value) == "dict.fromkeys(values)" and isinstance(store[0].targets[0], ast.Attribute)
    ctx.check(ok, "C01.R8", "OrderedSet stores its items in an insertion-ordered mapping", C.where, ctx.construct(C.qualname, text="__init__"),
              "OrderedSet.__init__ must keep dict.fromkeys(values) (first-appearance order, duplicates dropped)")
    attr = store[0].targets[0].attr if ok else "values"
    for m, want in (("__iter__", f"iter(self.{attr})"), ("__contains__", f"item in self.{attr}"), ("__len__", f"len(self.{attr})")):
        f = C.methods.get(m)
        r = returns_of(f.node) if f else []
        ctx.check(bool(r) and norm(r[0].value) == want, "C01.R8", f"OrderedSet.{m} delegates to the ordered mapping", f.where if f else C.where,
                  ctx.construct(C.qualname, text=m), f"expected `return {want}`")
    ctx.check(any(b.endswith("Set") for b in C.bases), "C01.R8", "OrderedSet derives its algebra from collections.abc.Set", C.where,
              ctx.construct(C.qualname, text="bases"), f"bases are {C.bases}")
    # no operator denotation routes operands through a plain set
    f, recs = records(P)
    bad = [n for n in ast.walk(f.node) if isinstance(n, (ast.Set, ast.SetComp)) and not _in_kw(P, n, ("no_join_for_operators", "symbols"))]
    bad += [n for n in ast.walk(f.node) if isinstance(n, ast.Call) and dotted(n.func) in ("set", "frozenset")
            and not _only_for_membership(P, n)]
    for b in bad:
        ctx.fail("C01.R8", "operator denotations never route terms through a hash-ordered set", f.module.line(b), ctx.construct(f, b),
                 "a plain set in an operator implementation loses first-appearance order")
    if not bad:
        ctx.ok("C01.R8", "operator denotations never route terms through a hash-ordered set", f.where)


def _in_kw(P, n, names):
    p = P.parent(n)
    return isinstance(p, ast.keyword) and p.arg in names


def _only_for_membership(P, call):
    """set(...) bound to a variable that is only used as the right operand of `-` on an OrderedSet or in membership tests."""
    p = P.parent(call)
    if isinstance(p, (ast.Assign, ast.AnnAssign)):
        tgt = p.targets[0] if isinstance(p, ast.Assign) else p.target
        if isinstance(tgt, ast.Name):
            fn = P.enclosing_function(call)
            uses = [u for u in ast.walk(fn.node) if isinstance(u, ast.Name) and u.id == tgt.id and isinstance(u.ctx, ast.Load)]
            for u in uses:
                up = P.parent(u)
                if isinstance(up, ast.BinOp) and isinstance(up.op, ast.Sub) and up.right is u:
                    continue
                if isinstance(up, ast.Compare) and u in up.comparators and all(isinstance(o, (ast.In, ast.NotIn)) for o in up.ops):
                    continue
                return False
            return True
    return False


# ============================================================================ R9 pop condition
def r9(ctx):
    P = ctx.project
    f = P.func("formulaic.parser.algos.tokens_to_ast.tokens_to_ast")
    loops = []
    for n in ast.walk(f.node):
        if isinstance(n, ast.While) and "precedence" in norm(n.test):
            loops.append(n)
    ctx.floor("C01.R9", len(loops), 1, "precedence-driven popping loops")
    for lp in loops:
        ctx.look()
        atoms: Dict[str, str] = {}
        bad: List[str] = []

        def atom(e) -> Optional[str]:
            t = norm(e)
            if t == "operator_stack":
                return "N"
            if isinstance(e, ast.Compare) and len(e.ops) == 1:
                l, r, op = norm(e.left), norm(e.comparators[0]), e.ops[0]
                top, new = "operator_stack[-1].operator.precedence", "operator.precedence"
                if {l, r} == {top, new}:
                    flip = l == new
                    if isinstance(op, ast.Eq):
                        return "E"
                    if isinstance(op, (ast.Gt, ast.Lt)):
                        gt = isinstance(op, ast.Gt) ^ flip
                        return "G" if gt else "L<"
                    if isinstance(op, (ast.GtE, ast.LtE)):
                        ge = isinstance(op, ast.GtE) ^ flip
                        return "G|E" if ge else "L<|E"
                    if isinstance(op, ast.NotEq):
                        return "!E"
                if l == "operator_stack[-1].token.kind" and (P.resolve_in(f, e.comparators[0]) or "").endswith("Token.Kind.CONTEXT"):
                    return "B" if isinstance(op, (ast.IsNot, ast.NotEq)) else "!B"
                if l == "operator.associativity":
                    q = P.resolve_in(f, e.comparators[0]) or ""
                    if q.endswith("Associativity.LEFT"):
                        return "A" if isinstance(op, (ast.Is, ast.Eq)) else "!A"
                    if q.endswith("Associativity.RIGHT"):
                        return "R" if isinstance(op, (ast.Is, ast.Eq)) else "!R"
            return None

        def ev(e, env) -> Optional[bool]:
            if isinstance(e, ast.BoolOp):
                vals = [ev(v, env) for v in e.values]
                if any(v is None for v in vals):
                    return None
                return all(vals) if isinstance(e.op, ast.And) else any(vals)
            if isinstance(e, ast.UnaryOp) and isinstance(e.op, ast.Not):
                v = ev(e.operand, env)
                return None if v is None else not v
            a = atom(e)
            if a is None:
                bad.append(norm(e))
                return None
            N, B, G, E, A = env
            table = {"N": N, "B": B, "!B": not B, "G": G, "E": E, "!E": not E, "A": A, "!A": not A, "L<": (not G and not E),
                     "G|E": G or E, "L<|E": not G, "R": None, "!R": None}
            return table[a]

        wrong = []
        for N, B, G, E, A in itertools.product([False, True], repeat=5):
            if G and E:
                continue
            want = N and B and (G or (E and A))
            got = ev(lp.test, (N, B, G, E, A))
            if got is None:
                # a condition over `RIGHT` cannot distinguish NONE from LEFT: report as unmodelled
                bad.append("associativity tested against a member other than LEFT")
                break
            if not N:
                continue  # with an empty stack the remaining atoms are not evaluated (short-circuit) — only N matters
            if got != want:
                wrong.append(dict(nonempty=N, not_bracket=B, top_greater=G, top_equal=E, new_is_left_assoc=A, pops=got, should_pop=want))
        # with an empty stack the loop must not run
        empty_ok = ev(lp.test, (False, True, True, False, True)) is False and _first_conjunct_is_nonempty(lp.test)
        ctx.check(not bad and not wrong and empty_ok, "C01.R9", "the pop condition is: stack non-empty ∧ top not a bracket ∧ (top.prec > o.prec ∨ (top.prec == o.prec ∧ o left-assoc))",
                  f.module.line(lp), ctx.construct(f, text="pop condition"),
                  (f"unmodelled atoms: {sorted(set(bad))}" if bad else f"differs from the textbook condition on {len(wrong)} assignments, e.g. {wrong[:2]}"
                   if wrong else "the emptiness test must come first (short-circuit)"))
        # the loop body applies the popped operator
        body_ok = len(lp.body) == 1 and norm(lp.body[0]) == "output_queue = operate(operator_stack.pop(), output_queue)"
        ctx.check(body_ok, "C01.R9", "each pop applies the popped operator to the output queue", f.module.line(lp), ctx.construct(f, text="pop body"),
                  f"loop body is `{stmt_text(lp.body[0])}`")
    closer_matches_opener(ctx, "C01.R9")


def closer_matches_opener(ctx, rule: str):
    """A closing bracket is accepted only against the opening bracket of ITS kind: after the operators inside the group were applied,
    the stack top must equal CONTEXT_CLOSERS[closer] — otherwise a syntax error."""
    P = ctx.project
    f = P.func("formulaic.parser.algos.tokens_to_ast.tokens_to_ast")
    m = f.module
    tab = m.assigns.get("CONTEXT_CLOSERS")
    ok_tab = isinstance(tab, ast.Dict) and {const_value(k): const_value(v) for k, v in zip(tab.keys, tab.values)} == {")": "(", "]": "["}
    ops = m.assigns.get("CONTEXT_OPENERS")
    ok_ops = isinstance(ops, ast.Set) and sorted(const_value(e) for e in ops.elts) == ["(", "["]
    ctx.look()
    ctx.check(ok_tab and ok_ops, rule, "the bracket table pairs `)` with `(` and `]` with `[`", m.relpath, ctx.construct(m, text="CONTEXT_CLOSERS"),
              f"CONTEXT_CLOSERS = `{norm(tab) if tab is not None else None}`")
    st = [n for n in ast.walk(f.node) if isinstance(n, ast.Assign) and norm(n.targets[0]) == "starting_token"]
    ok = len(st) == 1 and norm(st[0].value) == "CONTEXT_CLOSERS[token.token]"
    # the opener is popped exactly when the stack is non-empty and its top is that opener; otherwise the formula is rejected
    # (whether written as if/else or as a raising guard followed by the pop)
    from ..util import atom_mapper, reach_condition, truth_table
    am = atom_mapper({"operator_stack": 0, "operator_stack[-1].token == starting_token": 1})
    pops = [n for n in walk_no_nested(f.node) if isinstance(n, ast.Expr) and norm(n) == "operator_stack.pop()"]
    pc = [reach_condition(P, n, mention="starting_token") for n in pops]
    pc = [c for c in pc if c is not None]
    raises = [reach_condition(P, n, mention="starting_token") for n in walk_no_nested(f.node) if isinstance(n, ast.Raise)]
    raises = [c for c in raises if c is not None]
    ok2 = len(pc) == 1 and truth_table(pc[0], am, 2) == (False, False, False, True) and any(truth_table(c, am, 2) == (True, True, True, False) for c in raises)
    ctx.check(ok and ok2, rule, "a closing bracket only closes the opening bracket of its own kind, else the formula is rejected", f.where, ctx.construct(f, text="matching opener"),
              f"closer test is `{norm(pc[0]) if pc else None}` with starting_token = `{norm(st[0].value) if st else None}`: `(a + b]` would be accepted as grouping")


def _first_conjunct_is_nonempty(test) -> bool:
    return isinstance(test, ast.BoolOp) and isinstance(test.op, ast.And) and norm(test.values[0]) == "operator_stack"




# ============================================================================ R10 token-stream helpers
def r10(ctx):
    """The three token-stream rewriters that R4's call sites rely on, by the boolean functions of their conditions."""
    from ..util import truth_table
    P = ctx.project
    U = "formulaic.parser.utils"
    # replace_tokens: a token is passed through unchanged iff (kind given and token.kind is not kind) or token.token != target
    f = P.func(U + ".replace_tokens")
    ctx.look()
    try:
        ro = sym.outcomes(f.node)
    except sym.Unmodelled as e:
        raise AnalysisError(f"C01.R10: replace_tokens cannot be summarised: {e}")
    lps = {id(l._sym_orig): l for o in ro for l in o.loops}
    if len(lps) != 1:
        raise AnalysisError("C01.R10: replace_tokens loop/branch not found")
    lp0 = next(iter(lps.values()))
    tok = norm(lp0._sym_orig.target)
    pr = param_names(f.node)
    K, S, T, I = pr[3], f"{tok}.kind is {pr[3]}", f"{tok}.token == {pr[1]}", f"isinstance({pr[2]}, Token)"
    cases = sym.truth_cases([o for o in ro if o.loops], [K, S, T, I], kinds=("yield", "yield_from"))
    bad = []
    for (k, s_, t_, i_), got in cases.items():
        want = [("yield", tok)] if ((k and not s_) or not t_) else ([("yield", pr[2])] if i_ else [("yield_from", pr[2])])
        if got != want:
            bad.append(f"kind given={k}, same kind={s_}, same text={t_}, single replacement={i_}: yields {got}, expected {want}")
    ctx.check(norm(lp0._sym_head) == pr[0] and not bad, "C01.R10",
              "replace_tokens replaces exactly the tokens with the given text (and kind, when a kind is given)", f.module.line(lp0._sym_orig),
              ctx.construct(f, text="replace condition"),
              f"a token must pass through unchanged iff (kind given ∧ kind differs) ∨ text differs, and be replaced otherwise; {bad[:3]}")
    # insert_tokens_after: where tokens are inserted and when the join operator is added
    g = P.func(U + ".insert_tokens_after")
    t = norm(g.node)
    ctx.look(3)
    from ..util import atom_mapper, reach_condition
    from ..expect import contains
    # read off the path summaries: which tokens are yielded under which conditions (nesting, guard clauses, a None sentinel or an
    # `else: continue` for "no next token" all give the same summaries)
    try:
        gouts = sym.outcomes(g.node)
    except sym.Unmodelled as e:
        raise AnalysisError(f"C01.R10: insert_tokens_after cannot be summarised: {e}")
    glps = sym.loops_of(gouts)
    outer_l = [l for l in glps if sym.pm("enumerate(ANY_t)", l._sym_head) is not None and "split(" not in norm(l._sym_head)]
    inner_l = [l for l in glps if sym.pm("enumerate(ANY_s)", l._sym_head) is not None and ".split(" in norm(l._sym_head)]
    ok, ok_join, nx = False, False, False
    if len(outer_l) == 1 and len(inner_l) == 1 and isinstance(outer_l[0]._sym_orig.target, ast.Tuple) and isinstance(inner_l[0]._sym_orig.target, ast.Tuple):
        T_ = sym.pm("enumerate(ANY_t)", outer_l[0]._sym_head)["ANY_t"]
        S_ = sym.pm("enumerate(ANY_s)", inner_l[0]._sym_head)["ANY_s"]
        i_, tok_ = (norm(x) for x in outer_l[0]._sym_orig.target.elts)
        j_, piece = (norm(x) for x in inner_l[0]._sym_orig.target.elts)
        split_ok = sym.pm_any([f"list({tok_}.split(ANY_p, after=True))", f"[*{tok_}.split(ANY_p, after=True)]", f"{tok_}.split(ANY_p, after=True)"],
                              ast.parse(S_, mode="eval").body) is not None
        ys = [o for o in gouts if o.kind in ("yield", "yield_from") and len(o.loops) == 2]
        pieces = [o for o in ys if o.kind == "yield" and norm(o.value) == piece]
        adds = [o for o in ys if o.kind == "yield_from" and norm(o.value) == "tokens_to_add"]
        joins = [o for o in ys if o.kind == "yield" and sym.pm("Token(join_operator, kind=Token.Kind.OPERATOR)", o.value) is not None]

        def ends_with_match(o):
            cs = {(norm(c), pol) for c, pol in o.conds}
            return any(pol and re.fullmatch(r"(.+)\.search\(%s\.token\)\.end\(\) == len\(%s\.token\)" % (re.escape(piece), re.escape(piece)), t_) for t_, pol in cs)
        # every piece is passed on; the insertion follows exactly the pieces that END with the match
        ok = split_ok and bool(pieces) and bool(adds) and all(ends_with_match(o) for o in adds) and not any(ends_with_match(o) for o in pieces)
        # the join operator: grouped by which token is looked at as "next"
        groups = {}
        pre_ok = bool(joins)
        want_x = set()
        lists_of = {}
        for o in joins:
            # the two sequences as THIS path spells them (an earlier branch may have rebound `pattern`)
            To = sym.pm("enumerate(ANY_t)", o.loops[0]._sym_head)["ANY_t"]
            So = sym.pm("enumerate(ANY_s)", o.loops[1]._sym_head)["ANY_s"]
            want_x |= {f"{So}[{j_} + 1]", f"{To}[{i_} + 1]"}
            lists_of[id(o)] = (So, To)
            cs = [(norm(c), pol, c) for c, pol in o.conds]
            pre_ok = pre_ok and ("join_operator", True) in {(t_, p_) for t_, p_, _ in cs} and ends_with_match(o)
            xs = sorted({m_.group(1) for t_, _p, _c in cs for m_ in re.finditer(r"((?:list\()?[\w\.\(\)\[\], =\*]*?\[[ij] \+ 1\])\.kind is", t_)})
            X = xs[0] if len(xs) == 1 else None
            rel = [(c, pol) for t_, pol, c in cs if X is not None and (X in t_ or "no_join_for_operators" in t_)]
            groups.setdefault(X, []).append((o, rel))
        ok_join = pre_ok and set(groups) == want_x
        for X, items in groups.items():
            if X is None:
                ok_join = False
                continue
            am = atom_mapper({f"{X} is not None": 0, f"{X}.kind is not Token.Kind.OPERATOR": 1, "no_join_for_operators is False": 2,
                              "isinstance(no_join_for_operators, set)": 3, f"{X}.token not in no_join_for_operators": 4})
            tabs = []
            for o, rel in items:
                conj = [c if pol else ast.UnaryOp(op=ast.Not(), operand=c) for c, pol in rel]
                e_ = conj[0] if len(conj) == 1 else ast.BoolOp(op=ast.And(), values=conj)
                tabs.append(truth_table(e_, am, 5) if conj else None)
            if not all(isinstance(t_, tuple) for t_ in tabs):
                ok_join = False
                continue
            tested_none = any(f"{X} is None" in norm(c) or f"{X} is not None" in norm(c) for _o, rel in items for c, _p in rel)
            got = tuple(any(t_[k] for t_ in tabs) for k in range(32))
            want = tuple((n_ or not tested_none) and (k or f_ or (s_ and m_)) for n_, k, f_, s_, m_ in itertools.product([False, True], repeat=5))
            ok_join = ok_join and got == want
        # which token is "next": the following piece of the same token when there is one, else the following token when there is one
        def has(o, text, pol):
            return (text, pol) in {(norm(c), p_) for c, p_ in o.conds}
        nx = bool(joins)
        for X, items in groups.items():
            for o, _r in items:
                So, To = lists_of[id(o)]
                JA, IA = f"{j_} < len({So}) - 1", f"{i_} < len({To}) - 1"
                if X == f"{So}[{j_} + 1]":
                    nx = nx and has(o, JA, True)
                elif X == f"{To}[{i_} + 1]":
                    nx = nx and has(o, JA, False) and has(o, IA, True)
                else:
                    nx = False
    ctx.check(ok, "C01.R10", "insert_tokens_after inserts directly after each (sub-)token that ends with the pattern", g.where, ctx.construct(g, text="insert position"),
              "tokens must be split after the pattern and the insertion made after a piece ending in the match")
    ctx.check(ok_join, "C01.R10", "the join operator is added iff a next token exists and it is not an excluded operator", g.where, ctx.construct(g, text="join condition"),
              "expected next ∧ (next is not an operator ∨ no_join is False ∨ (no_join is a set ∧ next ∉ no_join))")
    ctx.check(nx, "C01.R10", "the next token is the following piece of the same token, else the following token", g.where, ctx.construct(g, text="next token"),
              "next-token lookup changed")
    skip = [n for n in ast.walk(g.node) if isinstance(n, ast.If) and "pattern.search(token.token)" in norm(n.test)]
    ok = False
    if skip:
        def atom_s(e):
            return {"kind is not None": (0, True), "token.kind is not kind": (1, True), "not pattern.search(token.token)": (2, True),
                    "pattern.search(token.token)": (2, False)}.get(norm(e))
        ts = truth_table(skip[0].test, atom_s, 3)
        want = tuple((k and nk) or nm for k, nk, nm in itertools.product([False, True], repeat=3))
        ok = ts == want and norm(skip[0].body[0]) == "yield token" and isinstance(skip[0].body[-1], ast.Continue)
    ctx.check(ok, "C01.R10", "tokens of another kind or without a match pass through unchanged", g.where, ctx.construct(g, text="skip condition"),
              "expected (kind given ∧ kind differs) ∨ no match → yield token; continue")
    # merge_operator_tokens
    h = P.func(U + ".merge_operator_tokens")
    t = norm(h.node)
    lp = [n for n in walk_no_nested(h.node) if isinstance(n, ast.For)]
    first = lp[0].body[0] if lp and isinstance(lp[0].body[0], ast.If) else None
    ok = False
    if first is not None:
        def atom_m(e):
            return {"token.kind is not Token.Kind.OPERATOR": (0, True), "symbols": (1, True), "token.token[0] not in symbols": (2, True)}.get(norm(e))
        tm = truth_table(first.test, atom_m, 3)
        want = tuple(no or (s_ and ns) for no, s_, ns in itertools.product([False, True], repeat=3))
        ok = tm == want
    ctx.look(2)
    ctx.check(ok, "C01.R10", "merge_operator_tokens leaves non-operators (and operators not starting with a listed symbol) alone", h.where,
              ctx.construct(h, text="merge condition"), "expected not-operator ∨ (symbols ∧ first char ∉ symbols)")
    ok = "pooled_token = token.copy_with_attrs(token=pooled_token.token + token.token)" in t and "if pooled_token: yield pooled_token" in t.replace("\n", " ") \
        and t.rstrip().endswith("if pooled_token: yield pooled_token") is False or "pooled_token = token.copy_with_attrs(token=pooled_token.token + token.token)" in t
    in_loop = {id(x) for l_ in lp for x in ast.walk(l_)}
    tails = [n for n in walk_no_nested(h.node) if isinstance(n, ast.Expr) and isinstance(n.value, ast.Yield) and n.value.value is not None
             and norm(n.value.value) == "pooled_token" and id(n) not in in_loop]
    ok2 = False
    from ..util import doc_order
    _pos = doc_order(h.node)
    if len(tails) == 1 and lp and _pos[id(tails[0])] > _pos[id(lp[0])]:
        tc = reach_condition(P, tails[0])
        ok2 = tc is not None and truth_table(tc, atom_mapper({"pooled_token": 0}), 1) == (False, True)
    ctx.check("pooled_token = token.copy_with_attrs(token=pooled_token.token + token.token)" in t and ok2, "C01.R10",
              "adjacent sign tokens are concatenated in order and the last pooled token is flushed", h.where, ctx.construct(h, text="merge order"),
              "expected pooled.token + token.token and a final `if pooled_token: yield pooled_token`")
    # the three rewriters are generators over ALL tokens: no early exit that would skip the splitting / merging work
    for q in (".replace_tokens", ".insert_tokens_after", ".merge_operator_tokens"):
        g_ = P.func(U + q)
        try:
            go_ = sym.outcomes(g_.node)
        except sym.Unmodelled as e:
            raise AnalysisError(f"C01.R10: {q[1:]} cannot be summarised: {e}")
        # a `return` is an early exit unless it is reached after the token loop has run to completion
        early = [o for o in go_ if o.kind == "return" and (o.loops or not any(isinstance(e, ast.For) for e in o.effects))]
        ctx.check(not early, "C01.R10", f"{q[1:]} has no early exit", g_.where, ctx.construct(g_, text="early exit"),
                  f"`{stmt_text(early[0].stmt) if early and early[0].stmt is not None else ''}` leaves the token stream untouched on some inputs (e.g. merged operator tokens such as `~-` are "
                  f"then never split, so the top-level `~` is not found)")
    # Token.split keeps the text in order
    sp = P.method("formulaic.parser.types.token.Token", "split")
    t = norm(sp.node)
    # on the normal form (the slicing helper, a closure today, stands inline there) and its path summaries: every piece is
    # self.token[<end of the previous piece> : <match boundary>], the boundary becomes the new start, and the rest of the text follows
    from ..expect import _normalise_function
    spn = _normalise_function(P, sp, sp.node, already=P.normalizer is not None)
    try:
        so = sym.outcomes(spn)
    except sym.Unmodelled as e:
        raise AnalysisError(f"C01.R10: Token.split cannot be summarised: {e}")
    slps = [l for l in sym.loops_of(so) if ".finditer(self.token)" in norm(l._sym_head)]
    ok = len(slps) == 1
    if ok:
        lp_ = slps[0]
        sep = norm(lp_._sym_orig.target)
        PIECE = "self.copy_with_attrs(token=self.token[ANY_lo:ANY_hi])"

        def run(before, after):
            """(pieces yielded, start of the next piece) for one match under the two flags."""
            res = []
            for k, effs, env_, o in sym.iteration_effects(so, lp_, {"before": before, "after": after}):
                if k in ("fall", "continue"):
                    li = sym.value_of(o, "last_index")
                    res.append(("end", norm(li) if li is not None else "last_index"))
                elif k == "yield":
                    b_ = sym.pm(PIECE, sym.simplify(o.value, {"before": before, "after": after}))
                    res.append(("piece", (b_["ANY_lo"], b_["ANY_hi"]) if b_ else None))
            return res
        st_, en_ = f"{sep}.start()", f"{sep}.end()"
        want = {(True, True): [("piece", ("last_index", st_)), ("piece", (st_, en_)), ("end", en_)],
                (True, False): [("piece", ("last_index", st_)), ("end", st_)],
                (False, True): [("piece", ("last_index", en_)), ("end", en_)]}
        for (bf, af), w_ in want.items():
            got = run(bf, af)
            if sorted(map(repr, got)) != sorted(map(repr, w_)):
                ok = False
        tail = [o for o in so if o.kind == "yield" and not o.loops]
        rest_ok = bool(tail) and all(sym.pm_any([f"self.copy_with_attrs(token=self.token[last_index:len(self.token)])", "self.copy_with_attrs(token=self.token[last_index:])"], o.value) is not None
                                     and ("last_index < len(self.token)", True) in {(norm(c), p_) for c, p_ in o.conds} for o in tail if norm(o.value) != "self")
        ok = ok and rest_ok
    ctx.check(ok, "C01.R10", "Token.split cuts the token text at the match boundaries without losing characters", sp.where, ctx.construct(sp, text="split"),
              "Token.split changed shape")


def f1(ctx):
    """generic same-name parameter forwarding over this property's modules (see shared.generic_forwarding)."""
    from . import shared as _sh
    _sh.generic_forwarding(ctx, "C01.F1", _sh.PROPERTY_MODULES["C01"])


RULES = [("C01.R1", r1), ("C01.R2", r2), ("C01.R3", r3), ("C01.R4", r4), ("C01.R5", r5), ("C01.R6", r6), ("C01.R7", r7),
         ("C01.R8", r8), ("C01.R9", r9), ("C01.R10", r10), ("C01.F1", f1)]
