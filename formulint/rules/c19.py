"""C19 — structured, layered-mapping and formula containers obey their container laws."""
from __future__ import annotations

import ast
import re
from typing import List, Optional

from ..cfg import CFG, EXIT
from ..core import AnalysisError, FunctionInfo, Project, dotted, is_const, kwarg, norm, param_names, walk_no_nested
from .. import sym
from ..util import assignments, header_calls, mentions, returns_of, stmt_text

ST = "formulaic.utils.structured.Structured"
LM = "formulaic.utils.layered_mapping.LayeredMapping"

EXPLANATION = (
    "Static rules: (R1) the five recursive traversals of Structured (__prepare_item, _map.apply_func, _flatten, "
    "_to_dict.do_recursion, _simplify.simplify_obj) all handle the same case split {Structured → recurse, tuple → element-wise "
    "RECURSIVE, leaf}; _map returns a container with the same keys in the same order, tuples to tuples, nested structures "
    "recursed with the same as_type; _update/_merge are dict merges of the structure; (R2) LayeredMapping writes touch only "
    "the private _mutations layer, no method stores into or mutates a supplied layer, with_layers(inplace=True) rebinds the "
    "list and invalidates the named-layer cache; (R3) __getitem__/__iter__/__len__/get_with_layer_name traverse "
    "[_mutations, *_layers] in the same order, first match wins, and the reported layer name comes from the step that "
    "returned the value; (R4) every SimpleFormula method that stores terms validates first and calls _reorder() after the "
    "store on every path, and __delitem__ only removes. The algebraic laws on arbitrary operation sequences are not decided."
)
ASSUMPTIONS = ["dict preserves insertion order; `{**a, **b}` lets b win"]

TRAVERSALS = [
    (ST + ".__prepare_item", None),
    (ST + "._map", "apply_func"),
    (ST + "._flatten", "flatten_obj"),
    (ST + "._to_dict", "do_recursion"),
    (ST + "._simplify", "simplify_obj"),
]


def _traversal_fn(P: Project, outer: str, inner: Optional[str]) -> FunctionInfo:
    f = P.func(outer)
    if inner is None:
        return f
    q = f"{outer}.<locals>.{inner}"
    g = P.functions.get(q)
    if g is None:
        # the helper may have been moved out of the method (module-level function or sibling method), or written inline
        mod, cls = f.module.name, outer.rsplit(".", 1)[0]
        cands = []
        for c in ast.walk(f.node):
            if isinstance(c, ast.Call):
                d = dotted(c.func) or ""
                for q2 in (f"{mod}.{d}", f"{cls}.{d.split('.')[-1]}" if d.startswith(("self.", "cls.")) else None):
                    h = P.functions.get(q2) if q2 else None
                    if h is not None and h is not f and h not in cands and any(
                            isinstance(x, ast.Call) and dotted(x.func) == "isinstance" and len(x.args) == 2 and norm(x.args[1]) == "tuple" for x in ast.walk(h.node)):
                        cands.append(h)
        return cands[0] if len(cands) == 1 else f
    return g


def r1(ctx):
    P = ctx.project
    n = 0
    for outer, inner in TRAVERSALS:
        f = _traversal_fn(P, outer, inner)
        n += 1
        ctx.look()
        fn = f.node
        self_name = fn.name
        params = [p for p in param_names(fn) if p not in ("self", "cls", "key")]
        obj = "item" if "item" in params else params[0] if params else "obj"
        inst = f"{outer.split('.')[-1]}{'.' + inner if inner and f.name == inner else ''}: Structured → recurse, tuple → element-wise recursive, leaf"

        def is_inst(c, typ):
            return isinstance(c, ast.Call) and dotted(c.func) == "isinstance" and len(c.args) == 2 and norm(c.args[1]) == typ

        def recursive(node):
            for c in ast.walk(node):
                if isinstance(c, ast.Call):
                    callee = dotted(c.func) or ""
                    if callee.split(".")[-1] == self_name or callee.endswith("." + self_name.lstrip("_")) or callee == f"self.{self_name}":
                        return True
            return False

        try:
            outs = sym.outcomes(fn)
        except sym.Unmodelled as e:
            raise AnalysisError(f"C19.R1: traversal {f.qualname} cannot be summarised: {e}")
        s_outs = [o for o in outs if any(pol and is_inst(c, "Structured") for c, pol in o.conds)]
        t_outs = [o for o in outs if any(pol and is_inst(c, "tuple") for c, pol in o.conds)]
        if not s_outs or not t_outs:
            ctx.fail("C19.R1", inst, f.where, ctx.construct(f, text="case split"),
                     f"traversal lacks the {'Structured' if not s_outs else 'tuple'} case")
            continue
        rec_ok = any(recursive(x) for o in t_outs for x in ([o.value] if o.value is not None else []) + list(o.effects))
        ctx.check(rec_ok, "C19.R1", inst, f.where, ctx.construct(f, text="tuple case"),
                  "the tuple case handles only one level (elements that are themselves tuples are treated as leaves): "
                  "_map/_flatten/_to_dict/_simplify would disagree on what the leaves of a nested tuple are")
    ctx.floor("C19.R1", n, 5, "recursive traversals of Structured")
    # every traversal walks the private structure mapping itself (not the public iterator, which unpacks a lone root)
    for meth, want in (("_flatten", "self._structure.values()"), ("_map", "self._structure.items()"), ("_to_dict", "self._structure.items()")):
        m = P.func(ST + "." + meth)
        its = [norm(x.iter) for x in walk_no_nested(m.node) if isinstance(x, ast.For)] + \
              [norm(g.iter) for x in walk_no_nested(m.node) if isinstance(x, (ast.DictComp, ast.ListComp, ast.GeneratorExp)) for g in x.generators]
        top = [i for i in its if "self" in i]
        ctx.look()
        ctx.check(top == [want], "C19.R1", f"{meth} walks the structure mapping itself, in its key order", m.where, ctx.construct(m, text="iterates structure"),
                  f"{meth} iterates {top}; expected [{want}] — `for value in self` unpacks a lone iterable root and yields the root first, so leaves and order "
                  f"no longer match the other traversals")
    map_shape_preserving(ctx, "C19.R1")
    sentinel_discipline(ctx, "C19.R1")
    # _update: later wins, everything prepared
    u = P.func(ST + "._update")
    r = returns_of(u.node)
    t = norm(r[0].value) if r else ""
    i_old = t.find("**self._structure")
    i_new = t.find("structure.items()}")
    while 0 <= i_new < len(t) and t[max(0, i_new - 6):i_new] == "self._":
        i_new = t.find("structure.items()}", i_new + 1)
    ok = t.startswith("self.__class__(**{") and 0 <= i_old < i_new
    ctx.check(ok and "'_metadata': self._metadata" in t, "C19.R1", "_update is a dict merge in which the new keys win and metadata is kept", u.where,
              ctx.construct(u, text="update merge"), f"_update returns `{t[:140]}`")
    # _merge: per-key merge over all objects
    m = P.func(ST + "._merge")
    t = norm(m.node)
    ok = "values_to_merge[key].append(value)" in t and "values_to_merge['root'].append(obj)" in t and \
        "cls._merge(*values, merger=merger, _context=_context + (key,)) if len(values) > 1 else values[0]" in t
    ctx.check(ok, "C19.R1", "_merge merges per key over all objects (single values pass through)", m.where, ctx.construct(m, text="per-key merge"),
              "the per-key accumulation / recursive merge shape was not found")
    ok = "merged = tuple(itertools.chain(*objects))" in t
    ctx.check(ok, "C19.R1", "_merge concatenates tuples in argument order", m.where, ctx.construct(m, text="tuple concat"),
              "tuple parts must be concatenated in order")


def sentinel_discipline(ctx, rule: str):
    """A parameter whose default is the MISSING sentinel may only be tested by identity with MISSING — never by truthiness
    (0, None, (), '' and empty formulas are legitimate values)."""
    P = ctx.project
    n = 0
    for f in sorted(P.functions.values(), key=lambda x: x.qualname):
        if isinstance(f.node, ast.Lambda) or f.module.name not in ("formulaic.utils.structured", "formulaic.formula"):
            continue  # the containers of this property (elsewhere MISSING-defaulted parameters also accept None as "absent")
        a = f.node.args
        pos = list(a.posonlyargs) + list(a.args)
        defaults = dict(zip([p.arg for p in pos][len(pos) - len(a.defaults):], a.defaults))
        defaults.update({k.arg: d for k, d in zip(a.kwonlyargs, a.kw_defaults) if d is not None})
        sent = [p for p, d in defaults.items() if norm(d) == "MISSING"]
        for p in sent:
            for t in walk_no_nested(f.node):
                tests = []
                if isinstance(t, (ast.If, ast.While, ast.IfExp)):
                    tests.append(t.test)
                for test in tests:
                    for sub in ([test] + (list(test.values) if isinstance(test, ast.BoolOp) else [])):
                        core = sub.operand if isinstance(sub, ast.UnaryOp) and isinstance(sub.op, ast.Not) else sub
                        if isinstance(core, ast.Name) and core.id == p:
                            n += 1
                            ctx.fail(rule, f"{f.qualname.replace('formulaic.', '')}: `{p}` (default MISSING) is tested by identity", f.module.line(t),
                                     ctx.construct(f, text=f"truthiness test of {p}"),
                                     f"`{norm(test)[:60]}` tests the sentinel-defaulted parameter by truthiness: a falsy but legitimate value (0, None, (), '', an empty formula) "
                                     f"is treated as 'not given'")
                        elif isinstance(core, ast.Compare) and isinstance(core.left, ast.Name) and core.left.id == p and norm(core.comparators[0]) == "MISSING":
                            n += 1
                            ctx.look()
                            ctx.check(isinstance(core.ops[0], (ast.Is, ast.IsNot)), rule, f"{f.qualname.replace('formulaic.', '')}: `{p}` (default MISSING) is tested by identity",
                                      f.module.line(t), ctx.construct(f, text=f"sentinel test of {p}"), f"`{norm(core)}` must use `is` / `is not`")
    ctx.floor(rule, n, 5, "tests of MISSING-defaulted parameters")


def map_shape_preserving(ctx, rule: str):
    P = ctx.project
    f = P.func(ST + "._map")
    ctx.look(3)
    c = _single_return(f)
    ok = sym.pm("(as_type or Structured)(**{VAR_k: apply_func(VAR_o, _context + (VAR_k,)) for VAR_k, VAR_o in self._structure.items()})", c) is not None
    ctx.check(ok, rule, "_map returns a container with exactly the input's keys, in order", f.where, ctx.construct(f, text="_map result"),
              f"_map returns `{norm(c)[:150] if c is not None else None}`")
    af = P.functions.get(ST + "._map.<locals>.apply_func")
    if af is None:
        raise AnalysisError(f"{rule}: _map.apply_func vanished")
    ps = param_names(af.node)
    o_, c_ = ps[0], ps[1]
    try:
        outs = sym.outcomes(af.node)
    except sym.Unmodelled as e:
        raise AnalysisError(f"{rule}: apply_func cannot be summarised: {e}")
    S, T = f"isinstance({o_}, Structured)", f"isinstance({o_}, tuple)"
    tup = sym.eval_under(outs, {S: False, T: True, "except_TypeError": False}, kinds=("return",))
    ok_t = len(tup) == 1 and sym.pm(f"tuple((apply_func(VAR_e, {c_} + (VAR_i,)) for VAR_i, VAR_e in enumerate({o_})))", tup[0][1]) is not None
    ctx.check(ok_t, rule, "_map maps tuples to tuples of the same length, element-wise and recursively", af.where, ctx.construct(af, text="tuple → tuple"),
              f"the tuple case of apply_func must be tuple(apply_func(o, {c_} + (i,)) for i, o in enumerate({o_})); found {[norm(v)[:120] for _, v, _e in tup]}")
    st = sym.eval_under(outs, {S: True, T: False, "recurse": True, "except_TypeError": False}, kinds=("return",))   # a value is a Structured or a tuple, never both
    ok_s = len(st) == 1 and sym.pm(f"{o_}._map(func, recurse=True, as_type=as_type, _context={c_})", st[0][1]) is not None
    ctx.check(ok_s, rule, "_map recurses into nested structures with the same as_type", af.where, ctx.construct(af, text="nested → same as_type"),
              f"nested Structured values must be mapped with the same function and as_type; found {[norm(v)[:120] for _, v, _e in st]}")
    leaf = sym.eval_under(outs, {S: False, T: False, "except_TypeError": False}, kinds=("return",))
    handler = [o for o in outs if any(pol and norm(c) == "except_TypeError" for c, pol in o.conds)]
    fb = sym.eval_under(handler, {S: False, T: False}, kinds=("return",))
    ok_l = len(leaf) == 1 and sym.pm(f"func({o_}, {c_})", leaf[0][1]) is not None and len(fb) == 1 and sym.pm(f"func({o_})", fb[0][1]) is not None
    ctx.check(ok_l, rule, "_map applies the function to each leaf exactly once", af.where, ctx.construct(af, text="leaf"),
              f"func({o_}, {c_}) with a TypeError fallback to func({o_}) expected; found {[norm(v)[:80] for _, v, _e in leaf + fb]}")


def _single_return(f):
    try:
        outs = [o for o in sym.outcomes(f.node) if o.kind == "return"]
    except sym.Unmodelled:
        return None
    return outs[0].value if len(outs) == 1 else None


def r2(ctx):
    P = ctx.project
    C = P.cls(LM)
    si, di = C.methods.get("__setitem__"), C.methods.get("__delitem__")
    ctx.look(2)
    # which supplied layers are kept: every layer that is not None — an EMPTY layer is still a layer (it may be filled later, and a
    # mapping layered over nothing but empty layers is still a new mapping with its own private layer)
    filt = [g for q, g in P.functions.items() if q.startswith(LM + ".") and not isinstance(g.node, ast.Lambda)]
    kept = []
    for g in filt:
        for comp in ast.walk(g.node):
            if isinstance(comp, (ast.ListComp, ast.GeneratorExp)) and len(comp.generators) == 1 and isinstance(comp.generators[0].target, ast.Name) \
                    and norm(comp.elt) == comp.generators[0].target.id and comp.generators[0].ifs and "layers" in norm(comp.generators[0].iter):
                kept.append((g, comp))
    ctx.floor("C19.R2", len(kept), 1, "layer filters of LayeredMapping")
    for g, comp in kept:
        v = comp.generators[0].target.id
        tests = [norm(sym.as_test(t)) for t in comp.generators[0].ifs]
        ctx.check(tests == [f"{v} is not None"], "C19.R2", "every supplied layer that is not None becomes a layer (empty ones included)", g.module.line(comp),
                  ctx.construct(g, text="layer filter"),
                  f"layers are filtered by {tests}: dropping empty layers makes with_layers({{}}) return the receiver itself (writes to the result land in the "
                  f"receiver) and hides a layer that is filled after construction")
    body = [norm(s) for s in si.node.body]
    ctx.check(body == ["self._mutations[key] = value"], "C19.R2", "__setitem__ writes only the private layer", si.where,
              ctx.construct(si, text="setitem"), f"__setitem__ body is {body}")
    dels = [n for n in ast.walk(di.node) if isinstance(n, ast.Delete)]
    ok = len(dels) == 1 and norm(dels[0]) == "del self._mutations[key]"
    ctx.check(ok, "C19.R2", "__delitem__ deletes only from the private layer", di.where, ctx.construct(di, text="delitem"),
              f"deletes: {[norm(d) for d in dels]}")
    n = 0
    MUT = {"update", "pop", "popitem", "clear", "setdefault", "__setitem__", "__delitem__", "append", "extend", "insert", "remove"}
    for name, m in C.methods.items():
        for x in walk_no_nested(m.node):
            tg = []
            if isinstance(x, ast.Assign):
                tg = x.targets
            elif isinstance(x, (ast.AugAssign, ast.AnnAssign)):
                tg = [x.target]
            elif isinstance(x, ast.Delete):
                tg = x.targets
            for t in tg:
                n += 1
                if isinstance(t, ast.Subscript):
                    base = norm(t.value)
                    bad = base.startswith("self._layers") or base in ("layer", "layers") or re.fullmatch(r"layer(\[.*\])?", base) is not None
                    ctx.check(not bad, "C19.R2", f"{name}: no store into a supplied layer", m.module.line(x), ctx.construct(m, x),
                              f"`{stmt_text(x, 80)}` writes into a layer supplied by the caller")
            if isinstance(x, ast.Call) and isinstance(x.func, ast.Attribute) and x.func.attr in MUT:
                base = norm(x.func.value)
                n += 1
                bad = base in ("layer",) or base.startswith("self._layers[")
                ctx.check(not bad, "C19.R2", f"{name}: no mutating call on a supplied layer", m.module.line(x), ctx.construct(m, x),
                          f"`{norm(x)[:80]}` mutates a layer supplied by the caller")
    ctx.floor("C19.R2", n, 6, "stores / mutating calls inspected in LayeredMapping")
    wl = C.methods["with_layers"]
    try:
        wouts = sym.outcomes(wl.node)
    except sym.Unmodelled as e:
        raise AnalysisError(f"C19.R2: with_layers cannot be summarised: {e}")

    def stores(effs, target):
        return [e for e in effs if isinstance(e, ast.Assign) and norm(e.targets[0]) == target]

    for prepend, want, what in ((True, "[*ANY_L, *self._layers]", "prepended layers take priority"), (False, "[*self._layers, *ANY_L]", "appended layers come last")):
        res = [r for r in sym.eval_under(wouts, {"inplace": True, "prepend": prepend}, kinds=("return",)) if stores(r[2], "self._layers")]
        ok = bool(res) and all(norm(r[1]) == "self" and len(stores(r[2], "self._layers")) == 1 and sym.pm(want, stores(r[2], "self._layers")[0].value) is not None
                               for r in res)
        ctx.check(ok, "C19.R2", f"with_layers(inplace=True, prepend={prepend}): {what}; the layer list is rebound to a new list", wl.where,
                  ctx.construct(wl, text=f"inplace prepend={prepend}"),
                  f"expected `self._layers = {want.replace('ANY_L', 'layers')}` and `return self`; found {[norm(x)[:100] for r in res for x in stores(r[2], 'self._layers')]}")
    inpl = [o for o in wouts if o.kind == "return" and stores(o.effects, "self._layers")]
    # on every in-place path the cached value is dropped (`del` under the is-cached test, or an unconditional pop from the
    # instance dict), unless the path has established that nothing is cached
    def drops(e):
        return (isinstance(e, ast.Delete) and any(norm(t) in ("self.named_layers", "self.__dict__['named_layers']") for t in e.targets)) or (
            isinstance(e, ast.Expr) and sym.pm_any(["self.__dict__.pop('named_layers', ANY_d)", "vars(self).pop('named_layers', ANY_d)"], e.value) is not None)
    not_cached = lambda o: any((not pol and norm(c) in ("'named_layers' in self.__dict__", "'named_layers' in vars(self)"))
                               or (pol and norm(c) in ("'named_layers' not in self.__dict__", "'named_layers' not in vars(self)")) for c, pol in o.conds)
    cached = [o for o in inpl if not not_cached(o)]
    ok = bool(cached) and all(any(drops(e) for e in o.effects) for o in cached)
    ctx.check(ok, "C19.R2", "with_layers(inplace=True) rebinds the layer list and invalidates the named-layer cache", wl.where,
              ctx.construct(wl, text="inplace"), "expected `del self.named_layers` when it is cached (\"named_layers\" in self.__dict__)")
    for prepend, want in ((True, "LayeredMapping(*[*ANY_L, self], name=name)"), (False, "LayeredMapping(*[self, *ANY_L], name=name)")):
        res = [r for r in sym.eval_under(wouts, {"inplace": False, "prepend": prepend}, kinds=("return",)) if norm(r[1]) != "self"]
        ok = len(res) == 1 and sym.pm_any([want, want.replace("*[", "").replace("], name", ", name")], res[0][1]) is not None
        ctx.check(ok, "C19.R2", f"with_layers (not in place, prepend={prepend}) stacks the new layers around the mapping ITSELF, so its private writes stay visible", wl.where,
                  ctx.construct(wl, text=f"non-inplace layering prepend={prepend}"),
                  f"returns {[norm(r[1])[:120] for r in res]}; expected {want.replace('ANY_L', 'layers')}: using self._layers drops the receiver's private write layer")
    empty = [o for o in wouts if o.kind == "return" and o.value is not None and norm(o.value) == "self" and not o.effects
             and len(o.conds) == 1 and o.conds[0][1] is False]
    ctx.check(len(empty) == 1, "C19.R2", "with_layers without layers returns the mapping unchanged", wl.where, ctx.construct(wl, text="no layers"),
              "empty layering must return self (before anything is modified)")
    init = C.methods["__init__"]
    ok = any(norm(s) in ("self._mutations: dict = {}", "self._mutations = {}") for s in init.node.body)
    ctx.check(ok, "C19.R2", "every LayeredMapping owns a fresh private layer", init.where, ctx.construct(init, text="_mutations init"),
              "self._mutations must be a new dict per instance")


ORDER = "[self._mutations, *self._layers]"


ORDERS = ["[self._mutations, *self._layers]", "(self._mutations, *self._layers)", "itertools.chain([self._mutations], self._layers)",
          "itertools.chain((self._mutations,), self._layers)"]


# the keys of all layers, top layer first, as one stream
CHAINS = ["itertools.chain(self._mutations, *self._layers)", "itertools.chain.from_iterable([self._mutations, *self._layers])",
          "itertools.chain(*[self._mutations, *self._layers])"]


def r3(ctx, rule="C19.R3"):
    P = ctx.project
    C = P.cls(LM)
    gi, it, ln, gw = (C.methods.get(m) for m in ("__getitem__", "__iter__", "__len__", "get_with_layer_name"))
    ctx.look(4)
    summ = {}
    for name, m in (("__getitem__", gi), ("__iter__", it), ("get_with_layer_name", gw)):
        try:
            summ[name] = sym.outcomes(m.node)
        except sym.Unmodelled as e:
            raise AnalysisError(f"{rule}: {name} cannot be summarised: {e}")
    for name, m in (("__getitem__", gi), ("__iter__", it)):
        heads = [l._sym_head for o in summ[name] for l in o.loops[:1]]
        ok = bool(heads) and all(sym.pm_any(ORDERS + (CHAINS if name == "__iter__" else []), h) is not None for h in heads)
        ctx.check(ok, rule, f"{name} searches the private layer first, then the layers in order", m.where, ctx.construct(m, text="search order"),
                  f"iterates `{norm(heads[0]) if heads else None}`; expected {ORDERS[0]}")
    key = param_names(gi.node)[1]
    hits = [o for o in summ["__getitem__"] if o.loops and o.kind == "return"]
    ok = len(hits) == 1 and len(hits[0].conds) == 1 and hits[0].conds[0][1] is True
    if ok:
        L = norm(hits[0].loops[0]._sym_orig.target)
        ok = norm(hits[0].conds[0][0]) == f"{key} in {L}" and norm(hits[0].value) == f"{L}[{key}]"
    ctx.check(ok, rule, "__getitem__: first match wins", gi.where, ctx.construct(gi, text="first match"), f"expected `if {key} in layer: return layer[{key}]` inside the loop; found {hits}")
    tail = [o for o in summ["__getitem__"] if not o.loops]
    ctx.check(bool(tail) and all(o.kind == "raise" and "KeyError" in norm(o.value) for o in tail), rule, "__getitem__ raises KeyError for a missing key", gi.where,
              ctx.construct(gi, text="KeyError"), f"missing keys must raise KeyError; found {tail}")
    ys = [o for o in summ["__iter__"] if o.kind == "yield"]
    ok = len(ys) == 1 and len(ys[0].loops) in (1, 2) and len(ys[0].conds) == 1 and ys[0].conds[0][1] is False
    if ok:
        o = ys[0]
        inner = o.loops[-1]._sym_orig
        k = norm(inner.target)
        b = sym.pm(f"{k} in VAR_seen", o.conds[0][0])
        if len(o.loops) == 2:   # for layer in <order>: for key in layer
            nest_ok = norm(inner.iter) == norm(o.loops[0]._sym_orig.target)
        else:                   # for key in itertools.chain(<order>)
            nest_ok = sym.pm_any(CHAINS, o.loops[0]._sym_head) is not None
        ok = b is not None and nest_ok and norm(o.value) == k and \
            any(sym.pm(f"{b['VAR_seen']}.add({k})", e) is not None for e in o.effects)
    ctx.check(ok, rule, "__iter__ yields each key once (top layer's occurrence)", it.where, ctx.construct(it, text="dedupe"),
              f"deduplicating iteration expected (yield a key only if unseen, and record it as seen); found {ys}")
    c = _single_return(ln)
    LENS = ["len(set(itertools.chain(self._mutations, *self._layers)))", "len(set().union(self._mutations, *self._layers))",
            "len(set(self._mutations).union(*self._layers))", "len({*self._mutations, *itertools.chain(*self._layers)})", "len(set(self))",
            "len({VAR_k for VAR_k in self})", "sum((1 for VAR_k in self))", "len(set(itertools.chain.from_iterable([self._mutations, *self._layers])))",
            "len(list(self))", "len(tuple(self))"]
    ctx.check(sym.pm_any(LENS, c) is not None, rule, "__len__ counts the distinct keys of the same layers", ln.where, ctx.construct(ln, text="len"),
              f"len = `{norm(c) if c is not None else None}`")
    # get_with_layer_name
    gp = param_names(gw.node)
    k, dflt = gp[1], gp[2]
    go = summ["get_with_layer_name"]
    first = [o for o in go if not o.loops and o.kind == "return" and any(pol and norm(c) == f"{k} in self._mutations" for c, pol in o.conds)]

    def side(o):
        """the branch conditions that do not concern the search itself (e.g. how the layer name is spelt)"""
        return frozenset((norm(c), pol) for c, pol in o.conds if k not in {n.id for n in ast.walk(c) if isinstance(n, ast.Name)})

    names = {}
    ok1 = bool(first)
    for o in first:
        b = sym.pm(f"(self._mutations[{k}], ANY_name)", o.value)
        if b is None:
            ok1 = False
        else:
            names[side(o)] = b["ANY_name"]
    inl = [o for o in go if o.loops]
    heads = {norm(l._sym_head) for o in inl for l in o.loops[:1]}
    only_after = all(any(not pol and norm(c) == f"{k} in self._mutations" for c, pol in o.conds) for o in inl)
    ctx.check(ok1 and heads == {"self._layers"} and only_after, rule, "get_with_layer_name searches in the same order as __getitem__", gw.where,
              ctx.construct(gw, text="search order"), f"expected the private layer first, then `for layer in self._layers`; loop heads {sorted(heads)}")
    rets = [o for o in inl if o.kind == "return"]
    ok = bool(rets) and ok1
    plain = nested = 0
    for o in rets:
        L = norm(o.loops[0]._sym_orig.target)
        has = any(pol and norm(c) == f"{k} in {L}" for c, pol in o.conds)
        isl = [pol for c, pol in o.conds if norm(c) == f"isinstance({L}, LayeredMapping)"]
        if not has:
            ok = False
        elif isl == [True]:
            nested += 1
            ok = ok and norm(o.value).startswith(f"{L}.get_with_layer_name({k}")
        else:
            plain += 1
            nm = [v for sd, v in names.items() if sd <= side(o) or side(o) <= sd]
            ok = ok and bool(nm) and any(sym.pm(f"({L}[{k}], ANY_name)", o.value, {"ANY_name": v}) is not None for v in nm)
    ctx.check(ok and plain >= 1 and nested >= 1, rule, "the value and the reported layer name come from the same search step (first match wins)", gw.where,
              ctx.construct(gw, text="value+name same step"), f"value and layer name must be returned together from the first layer containing the key; found {rets}")
    last = [o for o in go if not o.loops and o not in first]
    ctx.check(bool(last) and all(o.kind == "return" and norm(o.value) == f"({dflt}, None)" for o in last), rule, "a missing key yields (default, None)", gw.where,
              ctx.construct(gw, text="default"), f"found {last}")


def r4(ctx, rule="C19.R4"):
    from .c01 import store_then_reorder
    store_then_reorder(ctx, rule)
    P = ctx.project
    # the SORT ordering stands on Term.__lt__: degree first (literal factors do not count), then the sorted factors
    lt = P.method("formulaic.parser.types.term.Term", "__lt__")
    try:
        lo = sym.outcomes(lt.node)
    except sym.Unmodelled as e:
        raise AnalysisError(f"{rule}: Term.__lt__ cannot be summarised: {e}")
    ot = param_names(lt.node)[1]
    T_ = f"isinstance({ot}, Term)"
    EQ, LT = f"self.degree == {ot}.degree", f"self.degree < {ot}.degree"
    tie = sym.eval_under(lo, {T_: True, EQ: True, LT: False, f"self.degree != {ot}.degree": False}, kinds=("return",))
    less = sym.eval_under(lo, {T_: True, EQ: False, LT: True, f"self.degree != {ot}.degree": True}, kinds=("return",))
    more = sym.eval_under(lo, {T_: True, EQ: False, LT: False, f"self.degree != {ot}.degree": True}, kinds=("return",))
    uses_degree = any("self.degree" in norm(c) for o in lo for c, _ in o.conds) or any(o.value is not None and "self.degree" in norm(o.value) for o in lo)
    okl = uses_degree and len(tie) == 1 and norm(tie[0][1]) == f"sorted(self.factors) < sorted({ot}.factors)" \
        and len(less) == 1 and sym.atom_value(less[0][1], {LT: True, EQ: False}) is True and len(more) == 1 and sym.atom_value(more[0][1], {LT: False, EQ: False}) is False
    ctx.check(okl, rule, "terms compare by degree first, then by their sorted factors", lt.where, ctx.construct(lt, text="Term.__lt__"),
              f"Term.__lt__ must order by Term.degree (which ignores literal factors) before the factor names; equal degree → {[norm(v) for _k, v, _e in tie]}, "
              f"smaller → {[norm(v) for _k, v, _e in less]}, larger → {[norm(v) for _k, v, _e in more]}: ordering by the number of factors puts `2:3:g` after `a:b`")
    # _simplify works on a copy of the structure mapping (the receiver is only rewritten when inplace=True, at the end)
    sm = P.func(ST + "._simplify")
    cps = [st for st in walk_no_nested(sm.node) if isinstance(st, ast.Assign) and isinstance(st.targets[0], ast.Name) and "._structure" in norm(st.value)]
    ctx.floor(rule, len(cps), 1, "working copies of the structure in _simplify")
    for st in cps:
        ctx.check(sym.pm_any(["ANY_s._structure.copy()", "dict(ANY_s._structure)", "{**ANY_s._structure}", "copy.copy(ANY_s._structure)"], st.value) is not None, rule,
                  "_simplify edits a copy of the structure mapping, not the mapping of the container it reads", sm.module.line(st), ctx.construct(sm, text="structure copy"),
                  f"`{norm(st)}` aliases the live mapping: a non-inplace _simplify() rewrites its receiver, and an in-place one adopts (and then shares) the mapping of the "
                  f"container it unwrapped")
    SF = P.cls("formulaic.formula.SimpleFormula")
    for name in ("insert", "__setitem__"):
        m = SF.methods[name]
        ctx.look()
        try:
            mo = sym.outcomes(m.node)
        except sym.Unmodelled:
            mo = []
        ok = bool(mo) and all(o.effects and "__validate_terms" in norm(o.effects[0]) and len(o.effects) >= 2 for o in mo if o.kind in ("fall", "return"))
        ctx.check(ok, rule, f"SimpleFormula.{name} validates the value before storing it", m.where, ctx.construct(m, text="validate first"),
                  f"first effect is `{norm(mo[0].effects[0])[:80] if mo and mo[0].effects else None}`")
    init = SF.methods["__init__"]
    t = [norm(s) for s in init.node.body]
    ok = "self.__validate_terms(self.__terms)" in t and "self._reorder()" in t and t.index("self.__validate_terms(self.__terms)") < t.index("self._reorder()")
    ctx.check(ok, rule, "SimpleFormula.__init__ validates and orders its terms", init.where, ctx.construct(init, text="init"), "validate then reorder expected")
    # sub-formulas built from this one keep its ordering method
    gi = SF.methods["__getitem__"]
    ctors = [c for c in ast.walk(gi.node) if isinstance(c, ast.Call) and norm(c.func) in ("self.__class__", "SimpleFormula", "type(self)")]
    ctx.floor(rule, len(ctors), 1, "sub-formula constructions in __getitem__")
    for c in ctors:
        o = kwarg(c, "_ordering")
        ctx.check(o is not None and norm(o) == "self.ordering", rule, "a slice of a formula keeps the formula's ordering method", gi.module.line(c), ctx.construct(gi, text="slice ordering"),
                  f"slice is built as `{norm(c)[:80]}`: without `_ordering=self.ordering` a slice of an unordered formula is re-sorted by degree and a 'sort' formula stops sorting")
    try:
        gouts = sym.eval_under(sym.outcomes(gi.node), {"isinstance(key, slice)": False}, kinds=("return",))
    except sym.Unmodelled:
        gouts = []
    ok = len(gouts) == 1 and norm(gouts[0][1]) == "self.__terms[key]"
    ctx.check(ok, rule, "integer indexing returns the stored term", gi.where, ctx.construct(gi, text="index"), "__getitem__ changed shape")
    d = SF.methods["__delitem__"]
    body = [norm(s) for s in d.node.body]
    ctx.check(body == ["del self.__terms[key]"], rule, "__delitem__ only removes (order preserving)", d.where, ctx.construct(d, text="delitem"),
              f"__delitem__ body is {body}")



def f1(ctx):
    """generic same-name parameter forwarding over this property's modules (see shared.generic_forwarding)."""
    from . import shared as _sh
    _sh.generic_forwarding(ctx, "C19.F1", _sh.PROPERTY_MODULES["C19"])


RULES = [("C19.R1", r1), ("C19.R2", r2), ("C19.R3", r3), ("C19.R4", r4), ("C19.F1", f1)]
