"""C19 — structured, layered-mapping and formula containers obey their container laws."""
from __future__ import annotations

import ast
import re
from typing import List, Optional

from ..cfg import CFG, EXIT
from ..core import AnalysisError, FunctionInfo, Project, dotted, is_const, kwarg, norm, param_names, walk_no_nested
from ..util import assignments, header_calls, mentions, returns_of, stmt_text

ST = "formulaic.utils.structured.Structured"
LM = "formulaic.utils.layered_mapping.LayeredMapping"

EXPLANATION = (
    "Static rules: (R1) the five recursive traversals of Structured (__prepare_item, _map.apply_func, _flatten, "
    "_to_dict.do_recursion, _simplify.simplify_obj) all handle the same case split {Structured → recurse, tuple → element-wise "
    "RECURSIVE, leaf}; _map returns a container with the same keys in the same order, tuples to tuples, nested structures "
    "recursed with the same as_type; _update/_merge are dict merges of the structure; (R2) LayeredMapping writes touch only "
    "the private _mutations layer, no method stores into or mutates a supplied layer, with_layers(inplace=True) rebinds the "
    "list and invalidates the named-layer cache; (R3) __getitem__/__iter__/__len__/get_with_layer_name traverse "
    "[_mutations, *_layers] in the same order, first match wins, and the reported layer name comes from the step that "
    "returned the value; (R4) every SimpleFormula method that stores terms validates first and calls _reorder() after the "
    "store on every path, and __delitem__ only removes. The algebraic laws on arbitrary operation sequences are not decided."
)
ASSUMPTIONS = ["dict preserves insertion order; `{**a, **b}` lets b win"]

TRAVERSALS = [
    (ST + ".__prepare_item", None),
    (ST + "._map", "apply_func"),
    (ST + "._flatten", "flatten_obj"),
    (ST + "._to_dict", "do_recursion"),
    (ST + "._simplify", "simplify_obj"),
]


def _traversal_fn(P: Project, outer: str, inner: Optional[str]) -> FunctionInfo:
    f = P.func(outer)
    if inner is None:
        return f
    q = f"{outer}.<locals>.{inner}"
    g = P.functions.get(q)
    if g is None:
        # the traversal may have been written inline (no nested helper)
        return f
    return g


def r1(ctx):
    P = ctx.project
    n = 0
    for outer, inner in TRAVERSALS:
        f = _traversal_fn(P, outer, inner)
        n += 1
        ctx.look()
        fn = f.node
        self_name = fn.name
        params = [p for p in param_names(fn) if p not in ("self", "cls", "key")]
        obj = "item" if "item" in params else params[0] if params else "obj"
        tests = [x for x in ast.walk(fn) if isinstance(x, ast.Call) and dotted(x.func) == "isinstance" and len(x.args) == 2]
        has_struct = any(norm(t.args[1]) == "Structured" for t in tests)
        tup_ifs = [x for x in ast.walk(fn) if isinstance(x, ast.If) and any(
            isinstance(t, ast.Call) and dotted(t.func) == "isinstance" and norm(t.args[1]) == "tuple" for t in ast.walk(x.test))]
        inst = f"{outer.split('.')[-1]}{'.' + inner if inner and f.name == inner else ''}: Structured → recurse, tuple → element-wise recursive, leaf"
        if not has_struct or not tup_ifs:
            ctx.fail("C19.R1", inst, f.where, ctx.construct(f, text="case split"),
                     f"traversal lacks the {'Structured' if not has_struct else 'tuple'} case")
            continue
        # the tuple branch must call the traversal itself on each element
        rec_ok = False
        for ti in tup_ifs:
            body_nodes = [x for s in ti.body for x in ast.walk(s)]
            for c in body_nodes:
                if isinstance(c, ast.Call):
                    callee = dotted(c.func) or ""
                    if callee.split(".")[-1] == self_name or callee.endswith("." + self_name.lstrip("_")) or callee == f"self.{self_name}":
                        rec_ok = True
        ctx.check(rec_ok, "C19.R1", inst, f.where, ctx.construct(f, text="tuple case"),
                  "the tuple case handles only one level (elements that are themselves tuples are treated as leaves): "
                  "_map/_flatten/_to_dict/_simplify would disagree on what the leaves of a nested tuple are")
    ctx.floor("C19.R1", n, 5, "recursive traversals of Structured")
    # every traversal walks the private structure mapping itself (not the public iterator, which unpacks a lone root)
    for meth, want in (("_flatten", "self._structure.values()"), ("_map", "self._structure.items()"), ("_to_dict", "self._structure.items()")):
        m = P.func(ST + "." + meth)
        its = [norm(x.iter) for x in walk_no_nested(m.node) if isinstance(x, ast.For)] + \
              [norm(g.iter) for x in walk_no_nested(m.node) if isinstance(x, (ast.DictComp, ast.ListComp, ast.GeneratorExp)) for g in x.generators]
        top = [i for i in its if "self" in i]
        ctx.look()
        ctx.check(top == [want], "C19.R1", f"{meth} walks the structure mapping itself, in its key order", m.where, ctx.construct(m, text="iterates structure"),
                  f"{meth} iterates {top}; expected [{want}] — `for value in self` unpacks a lone iterable root and yields the root first, so leaves and order "
                  f"no longer match the other traversals")
    map_shape_preserving(ctx, "C19.R1")
    sentinel_discipline(ctx, "C19.R1")
    # _update: later wins, everything prepared
    u = P.func(ST + "._update")
    r = returns_of(u.node)
    t = norm(r[0].value) if r else ""
    i_old = t.find("**self._structure")
    i_new = t.find("structure.items()}")
    while 0 <= i_new < len(t) and t[max(0, i_new - 6):i_new] == "self._":
        i_new = t.find("structure.items()}", i_new + 1)
    ok = t.startswith("self.__class__(**{") and 0 <= i_old < i_new
    ctx.check(ok and "'_metadata': self._metadata" in t, "C19.R1", "_update is a dict merge in which the new keys win and metadata is kept", u.where,
              ctx.construct(u, text="update merge"), f"_update returns `{t[:140]}`")
    # _merge: per-key merge over all objects
    m = P.func(ST + "._merge")
    t = norm(m.node)
    ok = "values_to_merge[key].append(value)" in t and "values_to_merge['root'].append(obj)" in t and \
        "cls._merge(*values, merger=merger, _context=_context + (key,)) if len(values) > 1 else values[0]" in t
    ctx.check(ok, "C19.R1", "_merge merges per key over all objects (single values pass through)", m.where, ctx.construct(m, text="per-key merge"),
              "the per-key accumulation / recursive merge shape was not found")
    ok = "merged = tuple(itertools.chain(*objects))" in t
    ctx.check(ok, "C19.R1", "_merge concatenates tuples in argument order", m.where, ctx.construct(m, text="tuple concat"),
              "tuple parts must be concatenated in order")


def sentinel_discipline(ctx, rule: str):
    """A parameter whose default is the MISSING sentinel may only be tested by identity with MISSING — never by truthiness
    (0, None, (), '' and empty formulas are legitimate values)."""
    P = ctx.project
    n = 0
    for f in sorted(P.functions.values(), key=lambda x: x.qualname):
        if isinstance(f.node, ast.Lambda) or f.module.name not in ("formulaic.utils.structured", "formulaic.formula"):
            continue  # the containers of this property (elsewhere MISSING-defaulted parameters also accept None as "absent")
        a = f.node.args
        pos = list(a.posonlyargs) + list(a.args)
        defaults = dict(zip([p.arg for p in pos][len(pos) - len(a.defaults):], a.defaults))
        defaults.update({k.arg: d for k, d in zip(a.kwonlyargs, a.kw_defaults) if d is not None})
        sent = [p for p, d in defaults.items() if norm(d) == "MISSING"]
        for p in sent:
            for t in walk_no_nested(f.node):
                tests = []
                if isinstance(t, (ast.If, ast.While, ast.IfExp)):
                    tests.append(t.test)
                for test in tests:
                    for sub in ([test] + (list(test.values) if isinstance(test, ast.BoolOp) else [])):
                        core = sub.operand if isinstance(sub, ast.UnaryOp) and isinstance(sub.op, ast.Not) else sub
                        if isinstance(core, ast.Name) and core.id == p:
                            n += 1
                            ctx.fail(rule, f"{f.qualname.replace('formulaic.', '')}: `{p}` (default MISSING) is tested by identity", f.module.line(t),
                                     ctx.construct(f, text=f"truthiness test of {p}"),
                                     f"`{norm(test)[:60]}` tests the sentinel-defaulted parameter by truthiness: a falsy but legitimate value (0, None, (), '', an empty formula) "
                                     f"is treated as 'not given'")
                        elif isinstance(core, ast.Compare) and isinstance(core.left, ast.Name) and core.left.id == p and norm(core.comparators[0]) == "MISSING":
                            n += 1
                            ctx.look()
                            ctx.check(isinstance(core.ops[0], (ast.Is, ast.IsNot)), rule, f"{f.qualname.replace('formulaic.', '')}: `{p}` (default MISSING) is tested by identity",
                                      f.module.line(t), ctx.construct(f, text=f"sentinel test of {p}"), f"`{norm(core)}` must use `is` / `is not`")
    ctx.floor(rule, n, 5, "tests of MISSING-defaulted parameters")


def map_shape_preserving(ctx, rule: str):
    P = ctx.project
    f = P.func(ST + "._map")
    ctx.look(3)
    r = returns_of(f.node)
    t = norm(r[0].value) if r else ""
    ok = re.fullmatch(r"\(as_type or Structured\)\(\*\*\{key: apply_func\(obj, _context \+ \(key,\)\) for \(?key, obj\)? in self\._structure\.items\(\)\}\)", t) is not None
    ctx.check(ok, rule, "_map returns a container with exactly the input's keys, in order", f.where, ctx.construct(f, text="_map result"),
              f"_map returns `{t[:150]}`")
    af = P.functions.get(ST + "._map.<locals>.apply_func")
    if af is None:
        raise AnalysisError(f"{rule}: _map.apply_func vanished")
    ta = norm(af.node)
    ok_t = "return tuple((apply_func(o, context + (i,)) for (i, o) in enumerate(obj)))" in ta or "return tuple((apply_func(o, context + (i,)) for i, o in enumerate(obj)))" in ta
    ctx.check(ok_t, rule, "_map maps tuples to tuples of the same length, element-wise and recursively", af.where, ctx.construct(af, text="tuple → tuple"),
              "the tuple case of apply_func must be tuple(apply_func(o, …) for i, o in enumerate(obj))")
    ok_s = "return obj._map(func, recurse=True, as_type=as_type, _context=context)" in ta and "if recurse and isinstance(obj, Structured):" in ta
    ctx.check(ok_s, rule, "_map recurses into nested structures with the same as_type", af.where, ctx.construct(af, text="nested → same as_type"),
              "nested Structured values must be mapped with the same function and as_type")
    calls = [c for c in ast.walk(af.node) if isinstance(c, ast.Call) and isinstance(c.func, ast.Name) and c.func.id == "func"]
    ok_l = len(calls) == 2 and all(c.args and norm(c.args[0]) == "obj" for c in calls)
    ctx.check(ok_l, rule, "_map applies the function to each leaf exactly once", af.where, ctx.construct(af, text="leaf"),
              "func(obj, context) with a TypeError fallback to func(obj) expected")


def r2(ctx):
    P = ctx.project
    C = P.cls(LM)
    si, di = C.methods.get("__setitem__"), C.methods.get("__delitem__")
    ctx.look(2)
    body = [norm(s) for s in si.node.body]
    ctx.check(body == ["self._mutations[key] = value"], "C19.R2", "__setitem__ writes only the private layer", si.where,
              ctx.construct(si, text="setitem"), f"__setitem__ body is {body}")
    dels = [n for n in ast.walk(di.node) if isinstance(n, ast.Delete)]
    ok = len(dels) == 1 and norm(dels[0]) == "del self._mutations[key]"
    ctx.check(ok, "C19.R2", "__delitem__ deletes only from the private layer", di.where, ctx.construct(di, text="delitem"),
              f"deletes: {[norm(d) for d in dels]}")
    n = 0
    MUT = {"update", "pop", "popitem", "clear", "setdefault", "__setitem__", "__delitem__", "append", "extend", "insert", "remove"}
    for name, m in C.methods.items():
        for x in walk_no_nested(m.node):
            tg = []
            if isinstance(x, ast.Assign):
                tg = x.targets
            elif isinstance(x, (ast.AugAssign, ast.AnnAssign)):
                tg = [x.target]
            elif isinstance(x, ast.Delete):
                tg = x.targets
            for t in tg:
                n += 1
                if isinstance(t, ast.Subscript):
                    base = norm(t.value)
                    bad = base.startswith("self._layers") or base in ("layer", "layers") or re.fullmatch(r"layer(\[.*\])?", base) is not None
                    ctx.check(not bad, "C19.R2", f"{name}: no store into a supplied layer", m.module.line(x), ctx.construct(m, x),
                              f"`{stmt_text(x, 80)}` writes into a layer supplied by the caller")
            if isinstance(x, ast.Call) and isinstance(x.func, ast.Attribute) and x.func.attr in MUT:
                base = norm(x.func.value)
                n += 1
                bad = base in ("layer",) or base.startswith("self._layers[")
                ctx.check(not bad, "C19.R2", f"{name}: no mutating call on a supplied layer", m.module.line(x), ctx.construct(m, x),
                          f"`{norm(x)[:80]}` mutates a layer supplied by the caller")
    ctx.floor("C19.R2", n, 6, "stores / mutating calls inspected in LayeredMapping")
    wl = C.methods["with_layers"]
    inpl = [s for s in walk_no_nested(wl.node) if isinstance(s, ast.If) and norm(s.test) == "inplace"]
    ok = len(inpl) == 1 and any(isinstance(s, ast.Assign) and norm(s.targets[0]) == "self._layers" and isinstance(s.value, ast.IfExp) for s in inpl[0].body) \
        and any("named_layers" in norm(s) and isinstance(s, ast.If) for s in inpl[0].body)
    ctx.check(ok, "C19.R2", "with_layers(inplace=True) rebinds the layer list and invalidates the named-layer cache", wl.where,
              ctx.construct(wl, text="inplace"), "expected `self._layers = [...]` (a new list) and `del self.named_layers` when cached")
    if inpl:
        v = [s.value for s in inpl[0].body if isinstance(s, ast.Assign) and norm(s.targets[0]) == "self._layers"]
        ok = bool(v) and isinstance(v[0], ast.IfExp) and norm(v[0].test) == "prepend" and norm(v[0].body) == "[*layers, *self._layers]" and norm(v[0].orelse) == "[*self._layers, *layers]"
        ctx.check(ok, "C19.R2", "prepended layers take priority, appended ones do not", wl.where, ctx.construct(wl, text="prepend order"),
                  f"layer list is `{norm(v[0]) if v else None}`")
    rets = [r for r in returns_of(wl.node)]
    nl = [v for n_, v, _ in assignments(wl.node) if n_ == "new_layers"]
    ok = bool(nl) and isinstance(nl[0], ast.IfExp) and norm(nl[0].test) == "prepend" and norm(nl[0].body) == "[*layers, self]" and norm(nl[0].orelse) == "[self, *layers]" \
        and any(norm(r.value) == "LayeredMapping(*new_layers, name=name)" for r in rets)
    ctx.check(ok, "C19.R2", "with_layers (not in place) stacks the new layers around the mapping ITSELF, so its private writes stay visible", wl.where,
              ctx.construct(wl, text="non-inplace layering"),
              f"new_layers = `{norm(nl[0]) if nl else None}`; expected [*layers, self] / [self, *layers]: using self._layers drops the receiver's private write layer")
    ok = any(isinstance(x, ast.If) and norm(x.test) == "not layers" and isinstance(x.body[0], ast.Return) and norm(x.body[0].value) == "self" for x in wl.node.body)
    ctx.check(ok, "C19.R2", "with_layers without layers returns the mapping unchanged", wl.where, ctx.construct(wl, text="no layers"), "empty layering must return self")
    init = C.methods["__init__"]
    ok = any(norm(s) in ("self._mutations: dict = {}", "self._mutations = {}") for s in init.node.body)
    ctx.check(ok, "C19.R2", "every LayeredMapping owns a fresh private layer", init.where, ctx.construct(init, text="_mutations init"),
              "self._mutations must be a new dict per instance")


ORDER = "[self._mutations, *self._layers]"


def r3(ctx, rule="C19.R3"):
    P = ctx.project
    C = P.cls(LM)
    gi, it, ln, gw = (C.methods.get(m) for m in ("__getitem__", "__iter__", "__len__", "get_with_layer_name"))
    ctx.look(4)
    for name, m in (("__getitem__", gi), ("__iter__", it)):
        loops = [n for n in walk_no_nested(m.node) if isinstance(n, ast.For) and "self._" in norm(n.iter)]
        ok = bool(loops) and norm(loops[0].iter) == ORDER
        ctx.check(ok, rule, f"{name} searches the private layer first, then the layers in order", m.where, ctx.construct(m, text="search order"),
                  f"iterates `{norm(loops[0].iter) if loops else None}`; expected {ORDER}")
    lp = [n for n in walk_no_nested(gi.node) if isinstance(n, ast.For)][0]
    ok = len(lp.body) == 1 and isinstance(lp.body[0], ast.If) and norm(lp.body[0].test) == "key in layer" and norm(lp.body[0].body[0]) == "return layer[key]"
    ctx.check(ok, rule, "__getitem__: first match wins", gi.where, ctx.construct(gi, text="first match"), "expected `if key in layer: return layer[key]` inside the loop")
    last = gi.node.body[-1]
    ctx.check(isinstance(last, ast.Raise) and "KeyError" in norm(last), rule, "__getitem__ raises KeyError for a missing key", gi.where,
              ctx.construct(gi, text="KeyError"), "missing keys must raise KeyError")
    t = norm(it.node)
    ok = "if key not in keys:" in t and "keys.add(key)" in t and "yield key" in t
    ctx.check(ok, rule, "__iter__ yields each key once (top layer's occurrence)", it.where, ctx.construct(it, text="dedupe"), "deduplicating iteration expected")
    r = returns_of(ln.node)
    ok = bool(r) and norm(r[0].value) == "len(set(itertools.chain(self._mutations, *self._layers)))"
    ctx.check(ok, rule, "__len__ counts the distinct keys of the same layers", ln.where, ctx.construct(ln, text="len"), f"len = `{norm(r[0].value) if r else None}`")
    # get_with_layer_name
    body = [s for s in gw.node.body if not (isinstance(s, ast.Expr) and isinstance(s.value, ast.Constant))]
    first_if = [s for s in body if isinstance(s, ast.If)]
    loops = [s for s in body if isinstance(s, ast.For)]
    ok = bool(first_if) and norm(first_if[0].test) == "key in self._mutations" and norm(first_if[0].body[0]) == "return (self._mutations[key], name)" \
        and bool(loops) and first_if[0].lineno < loops[0].lineno and norm(loops[0].iter) == "self._layers"
    ctx.check(ok, rule, "get_with_layer_name searches in the same order as __getitem__", gw.where, ctx.construct(gw, text="search order"),
              "expected the private layer first, then `for layer in self._layers`")
    if loops:
        lp = loops[0]
        inner = lp.body[0] if lp.body and isinstance(lp.body[0], ast.If) else None
        ok = inner is not None and norm(inner.test) == "key in layer" and all(isinstance(s, (ast.If, ast.Return)) for s in inner.body) \
            and isinstance(inner.body[-1], ast.Return) and norm(inner.body[-1].value) == "(layer[key], name)"
        nested = [s for s in (inner.body if inner is not None else []) if isinstance(s, ast.If)]
        ok_n = len(nested) == 1 and norm(nested[0].test) == "isinstance(layer, LayeredMapping)" and "return layer.get_with_layer_name(key" in norm(nested[0].body[0])
        ctx.check(ok and ok_n, rule, "the value and the reported layer name come from the same search step (first match wins)", gw.module.line(lp),
                  ctx.construct(gw, text="value+name same step"), "value and layer name must be returned together from the first layer containing the key")
    last = body[-1]
    ctx.check(isinstance(last, ast.Return) and norm(last.value) == "(default, None)", rule, "a missing key yields (default, None)", gw.where,
              ctx.construct(gw, text="default"), f"last statement `{stmt_text(last)}`")


def r4(ctx, rule="C19.R4"):
    from .c01 import store_then_reorder
    store_then_reorder(ctx, rule)
    P = ctx.project
    SF = P.cls("formulaic.formula.SimpleFormula")
    for name in ("insert", "__setitem__"):
        m = SF.methods[name]
        body = [s for s in m.node.body if not (isinstance(s, ast.Expr) and isinstance(s.value, ast.Constant))]
        ctx.look()
        ok = len(body) >= 2 and "self.__validate_terms" in norm(body[0])
        ctx.check(ok, rule, f"SimpleFormula.{name} validates the value before storing it", m.where, ctx.construct(m, text="validate first"),
                  f"first statement is `{stmt_text(body[0]) if body else None}`")
    init = SF.methods["__init__"]
    t = [norm(s) for s in init.node.body]
    ok = "self.__validate_terms(self.__terms)" in t and "self._reorder()" in t and t.index("self.__validate_terms(self.__terms)") < t.index("self._reorder()")
    ctx.check(ok, rule, "SimpleFormula.__init__ validates and orders its terms", init.where, ctx.construct(init, text="init"), "validate then reorder expected")
    # sub-formulas built from this one keep its ordering method
    gi = SF.methods["__getitem__"]
    ctors = [c for c in ast.walk(gi.node) if isinstance(c, ast.Call) and norm(c.func) in ("self.__class__", "SimpleFormula", "type(self)")]
    ctx.floor(rule, len(ctors), 1, "sub-formula constructions in __getitem__")
    for c in ctors:
        o = kwarg(c, "_ordering")
        ctx.check(o is not None and norm(o) == "self.ordering", rule, "a slice of a formula keeps the formula's ordering method", gi.module.line(c), ctx.construct(gi, text="slice ordering"),
                  f"slice is built as `{norm(c)[:80]}`: without `_ordering=self.ordering` a slice of an unordered formula is re-sorted by degree and a 'sort' formula stops sorting")
    ok = "return self.__terms[key]" in norm(gi.node)
    ctx.check(ok, rule, "integer indexing returns the stored term", gi.where, ctx.construct(gi, text="index"), "__getitem__ changed shape")
    d = SF.methods["__delitem__"]
    body = [norm(s) for s in d.node.body]
    ctx.check(body == ["del self.__terms[key]"], rule, "__delitem__ only removes (order preserving)", d.where, ctx.construct(d, text="delitem"),
              f"__delitem__ body is {body}")



def f1(ctx):
    """generic same-name parameter forwarding over this property's modules (see shared.generic_forwarding)."""
    from . import shared as _sh
    _sh.generic_forwarding(ctx, "C19.F1", _sh.PROPERTY_MODULES["C19"])


RULES = [("C19.R1", r1), ("C19.R2", r2), ("C19.R3", r3), ("C19.R4", r4), ("C19.F1", f1)]
