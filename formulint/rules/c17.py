"""C17 — required variables, name resolution order and '.' expansion."""
from __future__ import annotations

import ast
from typing import List

from ..cfg import CFG
from ..core import AnalysisError, FunctionInfo, Project, dotted, is_const, kwarg, norm, param_names, walk_no_nested
from .. import sym
from ..util import assignments, count_negations, header_calls, returns_of, stmt_text
from . import c14, c19
from .shared import MAT

EXPLANATION = (
    "Static rules: (R1) the materializer's layered context is built from exactly three named layers in the order data, "
    "context, transforms; (R2) one search order for lookup, iteration, length and get_with_layer_name (= C19.R3); (R3) the "
    "context keys the '.' operator reads are written on every path for every parser configuration (= C14.R4); (R4) both "
    "variable extractors (Token.required_variables on Token.Kind, SimpleFormula.required_variables on Factor.EvalMethod) "
    "dispatch on the evaluation method: a lookup factor is the name itself, a python factor goes through the (back-tick "
    "sanitised) Python AST, a literal contributes nothing — an extractor that sends every factor through the Python parser is "
    "reported; (R5) in the '.' expansion the available variables stay in an ordered container from the context to the "
    "produced terms and the left-hand-side variables are only subtracted; (R6) _lookup reports the layer returned by the same "
    "get_with_layer_name call that produced the value. Sufficiency / necessity against actual materialisation is not decided."
)
ASSUMPTIONS = ["LayeredMapping semantics as decided by C19.R2/R3"]


def r1(ctx):
    P = ctx.project
    f = P.func(MAT + ".__init__")
    st = [s for s in walk_no_nested(f.node) if isinstance(s, ast.Assign) and norm(s.targets[0]) == "self.layered_context"]
    ctx.look()
    if len(st) != 1 or not isinstance(st[0].value, ast.Call):
        raise AnalysisError("C17.R1: layered_context construction not found")
    c = st[0].value
    layers = []
    for a in c.args:
        if isinstance(a, ast.Call) and dotted(a.func) == "LayeredMapping" and a.args:
            nm = kwarg(a, "name")
            layers.append((norm(a.args[0]), nm.value if isinstance(nm, ast.Constant) else None))
        else:
            layers.append((norm(a), None))
    want = [("self.data_context", "data"), ("self.context", "context"), ("TRANSFORMS", "transforms")]
    ctx.check(dotted(c.func) == "LayeredMapping" and layers == want, "C17.R1", "names resolve to the data first, then the caller's context, then the built-in transforms",
              f.module.line(st[0]), ctx.construct(f, text="layer order"), f"layers are {layers}; expected {want}")
    dc = P.method(MAT, "data_context")
    r = returns_of(dc.node)
    ctx.check(bool(r) and norm(r[0].value) == "self.data", "C17.R1", "the data layer is the data itself", dc.where, ctx.construct(dc, text="data_context"),
              f"data_context returns `{norm(r[0].value) if r else None}`")


def r2(ctx):
    c19.r3(ctx, rule="C17.R2")
    named_layers_rule(ctx, "C17.R2")


def r3(ctx):
    c14.r4(ctx, rule="C17.R3")


def r4(ctx):
    P = ctx.project
    # Token.required_variables
    tk = P.method("formulaic.parser.types.token.Token", "required_variables")
    ctx.look(2)
    try:
        touts = [o for o in sym.outcomes(tk.node) if o.kind in ("return", "fall")]
    except sym.Unmodelled as e:
        raise AnalysisError(f"C17.R4: Token.required_variables cannot be summarised: {e}")
    NM, PY = "self.kind is Token.Kind.NAME", "self.kind is Token.Kind.PYTHON"
    nm_ = sym.select(touts, {NM: True})
    py_ = sym.select(touts, {NM: False, PY: True})
    ot_ = sym.select(touts, {NM: False, PY: False})
    ok_name = bool(nm_) and all(o.value is not None and norm(o.value) == "{Variable(self.token)}" for o in nm_)
    uses_py = lambda o: (o.value is not None and "get_expression_variables(" in norm(o.value)) or any("get_expression_variables(" in norm(v) for v in o.env.values())
    ok_py = any(uses_py(o) for o in py_) and not any(uses_py(o) for o in nm_ + ot_)
    ok_lit = bool(ot_) and all(o.value is not None and norm(o.value) == "set()" for o in ot_)
    ctx.check(ok_name and ok_py and ok_lit, "C17.R4", "Token.required_variables: NAME → the name; PYTHON → parsed as Python; anything else → nothing", tk.where,
              ctx.construct(tk, text="dispatch"), f"name branch={ok_name}, python-only parsing={ok_py}, literal → empty={ok_lit}")
    # SimpleFormula.required_variables
    sf = P.method("formulaic.formula.SimpleFormula", "required_variables", inherited=False)
    fns = [sf] + [g for g in P.functions.values() if g.parent is sf and isinstance(g.node, ast.FunctionDef)]
    # … and private helpers of the same module / class it calls (a nested helper moved out is still the same code)
    for c_ in ast.walk(sf.node):
        if isinstance(c_, ast.Call):
            nm_ = c_.func.id if isinstance(c_.func, ast.Name) else (c_.func.attr if isinstance(c_.func, ast.Attribute) and dotted(c_.func.value) in ("self", "cls") else None)
            for q_ in ((f"{sf.module.name}.{nm_}", f"formulaic.formula.SimpleFormula.{nm_}") if nm_ and nm_.startswith("_") else ()):
                g_ = P.functions.get(q_)
                if g_ is not None and g_ not in fns and isinstance(g_.node, ast.FunctionDef):
                    fns.append(g_)
    calls = [(g, c) for g in fns for c in walk_no_nested(g.node) if isinstance(c, ast.Call) and dotted(c.func) == "get_expression_variables"]
    ctx.floor("C17.R4", len(calls), 1, "Python-AST extraction sites in SimpleFormula.required_variables")
    for g, c in calls:
        ctx.look()
        st = P.enclosing_stmt(c)
        cfg = CFG(g.node)
        excl = {"LOOKUP": False, "LITERAL": False}
        for s in cfg.stmts():
            if isinstance(s, ast.If) and cfg.dominates(s, st) and s is not st:
                tt, neg = count_negations(s.test)
                if isinstance(tt, ast.Compare) and len(tt.ops) == 1 and norm(tt.left).endswith(".eval_method"):
                    member = norm(tt.comparators[0]).split(".")[-1]
                    positive = isinstance(tt.ops[0], (ast.Is, ast.Eq)) ^ (neg % 2 == 1)
                    in_body = any(st is x or id(st) in {id(y) for y in ast.walk(x)} for x in s.body)
                    leaves = isinstance(s.body[-1], (ast.Return, ast.Raise, ast.Continue))
                    if positive and member in excl and leaves and not in_body:
                        excl[member] = True
                    if positive and member == "PYTHON" and in_body:
                        excl = {k: True for k in excl}
        # … or the extraction sits in the arm of a conditional (statement or expression) taken only for python factors
        from ..util import guards_of
        for gt_, pol in guards_of(P, c):
            if ".eval_method is " in gt_:
                member = gt_.split(".")[-1]
                if not pol and member in excl:
                    excl[member] = True
                if pol and member == "PYTHON":
                    excl = {k: True for k in excl}
        ok = all(excl.values())
        ctx.check(ok, "C17.R4", "SimpleFormula.required_variables parses only python factors as Python", g.module.line(c), ctx.construct(sf, text="python-only parsing"),
                  f"the Python-AST extractor is applied without first excluding {[k for k, v in excl.items() if not v]} factors: a back-quoted name such as "
                  f"`a|b` is split into a and b, and `c d` raises SyntaxError")
        gev = P.func("formulaic.utils.variables.get_expression_variables").node
        from ..core import arg_for
        a_al = arg_for(c, gev, "aliases")
        san = [x for x in ast.walk(c) if isinstance(x, ast.Call) and dotted(x.func) == "sanitize_variable_names"]
        if san:
            sfn = P.func("formulaic.utils.code.sanitize_variable_names").node
            s_al = arg_for(san[0], sfn, "aliases")
            ok_al = a_al is not None and s_al is not None and norm(a_al) == norm(s_al)
            ctx.check(ok_al, "C17.R4", "sanitised names are mapped back through the same alias table", g.module.line(c), ctx.construct(sf, text="aliases round trip"),
                      f"sanitize_variable_names fills `{norm(s_al) if s_al is not None else None}` but get_expression_variables is given aliases=`{norm(a_al) if a_al is not None else None}`: "
                      f"quoted names inside Python factors are reported under their sanitised spelling")
        arg = c.args[0] if c.args else None
        ok = arg is not None and "sanitize_variable_names(" in norm(arg)
        ctx.check(ok, "C17.R4", "python factors are back-tick sanitised before their variables are extracted", g.module.line(c),
                  ctx.construct(sf, text="sanitise before parsing"), f"get_expression_variables is fed `{norm(arg)[:80] if arg is not None else None}`")
    lk = [r for g in fns for r in ast.walk(g.node) if isinstance(r, ast.Return) and r.value is not None and "Variable(factor.expr" in norm(r.value)]
    ctx.check(bool(lk), "C17.R4", "a lookup factor's variable is its own expression", sf.where, ctx.construct(sf, text="lookup → name"),
              "expected the lookup branch to return Variable(factor.expr, roles=('value',))")
    alias_round_trip(ctx, "C17.R4")
    variable_traversal(ctx, "C17.R4")
    ok = "if 'value' in variable.roles" in norm(sf.node)
    ctx.check(ok, "C17.R4", "only value-role variables are required (callables are not data)", sf.where, ctx.construct(sf, text="roles"), "role filter missing")


def named_layers_rule(ctx, rule: str):
    """named_layers: nearer layers win — nested layers are merged farthest-first, direct children override what
    their siblings' nested layers contributed, and the mapping's own name wins overall."""
    P = ctx.project
    m = P.method("formulaic.utils.layered_mapping.LayeredMapping", "named_layers")
    fn = m.node
    ctx.look()
    loops = [n for n in walk_no_nested(fn) if isinstance(n, ast.For)]
    ok_iter = len(loops) == 1 and norm(loops[0].iter) == "reversed(self._layers)"
    body = norm(loops[0]) if loops else ""
    m_local = None
    import re as _re
    mm = _re.search(r"(\w+)\[layer\.name\] = layer", body)
    acc = _re.search(r"(\w+)\.update\(layer\.named_layers\)", body)
    ok_body = mm is not None and acc is not None and mm.group(1) != acc.group(1) and "isinstance(layer, LayeredMapping)" in body and "if layer.name:" in body
    after = [norm(s_) for s_ in fn.body if loops and getattr(s_, "lineno", 0) > loops[0].lineno]
    ok_after = bool(mm and acc) and after[:1] == [f"{acc.group(1)}.update({mm.group(1)})"] and f"{acc.group(1)}[self.name] = self" in " ".join(after) \
        and after[-1] == f"return {acc.group(1)}"
    ctx.check(ok_iter and ok_body and ok_after, rule, "named_layers: the nearest layer carrying a name wins (first layer first, direct children over nested ones)", m.where,
              ctx.construct(m, text="named layer priority"),
              f"iteration=`{norm(loops[0].iter) if loops else None}` (expected reversed(self._layers)), direct children collected separately={ok_body}, "
              f"applied after the nested ones={ok_after}: a caller context with its own nested `data` layer would shadow the real data layer for `.`")


def _guarded_by(P: Project, node: ast.AST, test_text: str) -> bool:
    n, child = P.parent(node), node
    while n is not None and not isinstance(n, (ast.FunctionDef, ast.Lambda)):
        if isinstance(n, ast.If) and norm(n.test) == test_text and any(child is s for s in n.body):
            return True
        child, n = n, P.parent(n)
    return False


def alias_round_trip(ctx, rule: str):
    """Wherever an expression is back-tick sanitised and its variables are then extracted, the extractor receives the very alias
    table the sanitiser filled (so variables are reported under the column's real name)."""
    P = ctx.project
    from ..core import arg_for
    sfn = P.func("formulaic.utils.code.sanitize_variable_names").node
    gev = P.func("formulaic.utils.variables.get_expression_variables").node
    n = 0
    for f in P.functions.values():
        if isinstance(f.node, ast.Lambda):
            continue
        san = [c for c in walk_no_nested(f.node) if isinstance(c, ast.Call) and dotted(c.func) == "sanitize_variable_names"]
        ext = [c for c in walk_no_nested(f.node) if isinstance(c, ast.Call) and dotted(c.func) == "get_expression_variables"]
        if not san or not ext:
            continue
        s_al = arg_for(san[0], sfn, "aliases")
        for c in ext:
            n += 1
            ctx.look()
            a_al = arg_for(c, gev, "aliases")
            ok = a_al is not None and s_al is not None and norm(a_al) == norm(s_al)
            ctx.check(ok, rule, f"{f.qualname.replace('formulaic.', '')}: extracted variables are mapped back through the sanitiser's alias table", f.module.line(c),
                      ctx.construct(f, text="aliases round trip"),
                      f"sanitize_variable_names fills `{norm(s_al) if s_al is not None else None}` but get_expression_variables gets aliases=`{norm(a_al) if a_al is not None else None}`: "
                      f"a back-quoted column used inside a call is recorded under its sanitised spelling (`my_col` instead of `my col`)")
    ctx.floor(rule, n, 2, "sanitise-then-extract sites")


def variable_traversal(ctx, rule: str):
    """The variable extractor visits every sub-expression: positional AND keyword arguments of calls, children of every other node."""
    P = ctx.project
    f = P.func("formulaic.utils.variables._get_ast_node_variables")
    t = norm(f.node)
    ctx.look()
    ok = "todo.extend(ast.iter_child_nodes(node))" in t and "todo.extend(node.args)" in t and "todo.extend(node.keywords)" in t \
        and "if not isinstance(node, (ast.Call, ast.Attribute, ast.Name)):" in t
    ctx.check(ok, rule, "variables are collected from positional and keyword arguments and all nested expressions", f.where, ctx.construct(f, text="traversal"),
              "the traversal must queue node.args, node.keywords and (for other nodes) all child nodes: a column read only through a keyword argument would not be reported")
    ok = "variables.append(Variable(name, roles=['callable']))" in t and "variables.append(Variable(name, roles=['value']))" in t and "name = aliases.get(name, name)" in t
    ctx.check(ok, rule, "callables and values are told apart and aliases are mapped back", f.where, ctx.construct(f, text="roles"), "role / alias handling changed")
    g = P.func("formulaic.utils.variables.get_expression_variables")
    ok = "context.get_layer_name_for_key(variable.split('.', 1)[0])" in norm(g.node)
    ctx.check(ok, rule, "the source of a dotted name is looked up by its base name", g.where, ctx.construct(g, text="base name"),
              "the layer must be looked up with the part before the FIRST dot (`when.dt.year` lives where `when` lives)")


def r5(ctx, _shared=True):
    P = ctx.project
    f = P.func(c14.c01.OPS).locals_named("insert_unused_terms")
    ctx.look(3)
    cp = param_names(f.node)[0]
    try:
        outs = sym.outcomes(f.node)
    except sym.Unmodelled as e:
        raise AnalysisError(f"C17.R5: insert_unused_terms cannot be summarised: {e}")
    EXPL, DATA = f"'__formulaic_variables_available__' in {cp}", f"'data' in {cp}.named_layers"
    USED = f"set({cp}['__formulaic_variables_used_lhs__'])"
    cases = [("explicit list", {EXPL: True}, f"OrderedSet({cp}['__formulaic_variables_available__'])"),
             ("data layer", {EXPL: False, f"isinstance({cp}, LayeredMapping)": True, DATA: True}, f"OrderedSet({cp}.named_layers['data'])")]
    ok_av = ok_sub = ok_terms = True
    seen = []
    for what, facts, avail in cases:
        res = sym.eval_under(outs, facts, kinds=("return",))
        if len(res) != 1:
            ok_av = False
            continue
        b_ = sym.pm("OrderedSet((Term([Factor(VAR_v, eval_method='lookup')]) for VAR_v in ANY_src))", res[0][1])
        if b_ is None:
            ok_terms = False
            continue
        seen.append(b_["ANY_src"])
        if b_["ANY_src"] != f"{avail} - {USED}":
            if not b_["ANY_src"].startswith(avail):
                ok_av = False
            else:
                ok_sub = False
    ctx.check(ok_av, "C17.R5",
              "the available variables stay in an ordered container (explicit list, else the data layer's keys in data order)", f.where,
              ctx.construct(f, text="available ordered"), f"the terms are generated from {seen}")
    ctx.check(ok_sub and ok_av, "C17.R5", "the left-hand-side variables are only subtracted from the ordered available variables", f.where, ctx.construct(f, text="subtract used"),
              f"expected <ordered available variables> - {USED}; found {seen}")
    ctx.check(ok_terms, "C17.R5", "each unused variable becomes one lookup term, in order", f.where, ctx.construct(f, text="terms"), f"returns {[repr(o)[:120] for o in outs if o.kind == 'return'][:2]}")
    ctx.check(ok_sub and ok_av, "C17.R5", "used variables are exactly those recorded for the left-hand side", f.where, ctx.construct(f, text="used"), f"found {seen}")
    gt = P.func(c14.c01.DFP + ".get_tokens_from_formula")
    w = [s for s in walk_no_nested(gt.node) if isinstance(s, ast.Assign) and norm(s.targets[0]) == "context['__formulaic_variables_used_lhs__']"]
    ok = len(w) == 1 and norm(w[0].value) == "[variable for token in tokens[:rhs_index] for variable in token.required_variables]"
    ctx.check(ok, "C17.R5", "the recorded left-hand-side variables are those of the tokens left of the top-level `~`", gt.where, ctx.construct(gt, text="lhs variables"),
              f"context key is written as `{norm(w[0].value)[:100] if w else None}`")
    sg = P.func("formulaic.sugar.model_matrix")
    try:
        so = [o for o in sym.outcomes(sg.node) if o.kind == "return" and o.value is not None]
    except sym.Unmodelled:
        so = []
    ok = bool(so)
    for o in so:
        b_ = sym.pm("ModelSpec.from_spec(spec, context=ANY_pc, **spec_overrides).get_model_matrix(data, context=ANY_ec, drop_rows=drop_rows)", o.value)
        ok = ok and b_ is not None and sym.pm(f"ModelSpec.from_spec([], **spec_overrides).get_materializer(data, context={b_['ANY_ec']}).layered_context",
                                                ast.parse(b_["ANY_pc"], mode="eval").body) is not None
    ctx.check(ok, "C17.R5", "model_matrix() parses the formula against the materializer's layered context (so `.` sees the data columns)", sg.where,
              ctx.construct(sg, text="spec context"), "the parser context must be the materializer's layered_context")
    # the left-hand-side scan relies on the `~` split performed by the token rewriters for every parser configuration (= C01.R4 / C01.R10)
    from .shared import relabel
    if _shared:
        relabel(ctx, "C17.R5", c14.c01.r4, c14.c01.r10)


def _r5_parts():
    from .shared import relabel
    from .shared import relabel_parts
    return [lambda c: r5(c, _shared=False)] + relabel_parts("C17.R5", c14.c01.r4, c14.c01.r10)


r5.parts = _r5_parts


def r6(ctx):
    P = ctx.project
    f = P.func(MAT + "._lookup")
    ctx.look(2)
    t = norm(f.node)
    ok = "(values, layer) = self.layered_context.get_with_layer_name(name, default=sentinel)" in t.replace("values, layer =", "(values, layer) =") \
        and "return (values, {Variable(name, roles=('value',), source=layer)})" in t.replace("return values, {", "return (values, {").replace("source=layer)}", "source=layer)})").replace("}))", "})")
    calls = [c for c in ast.walk(f.node) if isinstance(c, ast.Call) and isinstance(c.func, ast.Attribute) and c.func.attr == "get_with_layer_name"]
    var = [c for c in ast.walk(f.node) if isinstance(c, ast.Call) and dotted(c.func) == "Variable"]
    ok2 = len(calls) == 1 and len(var) == 1 and kwarg(var[0], "source") is not None and norm(kwarg(var[0], "source")) == "layer" and norm(var[0].args[0]) == "name"
    ctx.check(ok2, "C17.R6", "the reported source is the layer returned by the same lookup that produced the value", f.where, ctx.construct(f, text="lookup source"),
              "expected one get_with_layer_name call whose layer is attached to the Variable")
    ok = "if values is sentinel:" in t and "raise NameError" in t
    ctx.check(ok, "C17.R6", "a name found in no layer raises (and becomes a factor-evaluation error)", f.where, ctx.construct(f, text="missing name"), "missing names must raise NameError")
    g = P.func("formulaic.utils.variables.get_expression_variables")
    ok = "variable.source = context.get_layer_name_for_key(variable.split('.', 1)[0])" in norm(g.node)
    ctx.check(ok, "C17.R6", "variables of python factors are sourced by asking the same layered mapping", g.where, ctx.construct(g, text="python source"),
              "expected variable.source = context.get_layer_name_for_key(<head of dotted name>)")
    ef = P.func(MAT + "._evaluate_factor")
    t = norm(ef.node)
    ok = "(value, variables) = self._lookup(factor.expr)" in t.replace("value, variables =", "(value, variables) =") and "EvaluatedFactor(factor=factor, values=value, variables=variables)" in t
    ctx.check(ok, "C17.R6", "the variables found while evaluating a factor are recorded with it", ef.where, ctx.construct(ef, text="record variables"),
              "EvaluatedFactor must carry the variables returned by the lookup / evaluation")
    ok = "except Exception as e:" in t and "raise FactorEvaluationError" in t
    ctx.check(ok, "C17.R6", "any failure to resolve or evaluate a factor surfaces as FactorEvaluationError", ef.where, ctx.construct(ef, text="error type"),
              "evaluation failures must be wrapped in FactorEvaluationError")


def r7(ctx):
    """the caller's context reaches the materializer on every entry-point path (FORWARD, as C05.R3)."""
    from .c05 import forward_data_context
    forward_data_context(ctx, "C17.R7", "context")
    forward_data_context(ctx, "C17.R7", "data")



def f1(ctx):
    """generic same-name parameter forwarding over this property's modules (see shared.generic_forwarding)."""
    from . import shared as _sh
    _sh.generic_forwarding(ctx, "C17.F1", _sh.PROPERTY_MODULES["C17"])


RULES = [("C17.R1", r1), ("C17.R2", r2), ("C17.R3", r3), ("C17.R4", r4), ("C17.R5", r5), ("C17.R6", r6), ("C17.R7", r7), ("C17.F1", f1)]
