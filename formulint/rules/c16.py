"""C16 — linear-constraint specifications compile to the affine map they express."""
from __future__ import annotations

import ast
import re
from typing import Dict, List, Optional, Tuple

from ..core import AnalysisError, FunctionInfo, Project, const_value, dotted, is_const, kwarg, norm, param_names, walk_no_nested
from ..util import assignments, canon, count_negations, returns_of, stmt_text
from . import c01

MOD = "formulaic.utils.constraints"
OPS = MOD + ".ConstraintOperatorResolver.operators"

EXPLANATION = (
    "Static rules over the constraint grammar: (R1) the operator records have the conventional order classes (* / above binary "
    "and unary + - above = above ,), binary arithmetic operators are left-associative, `,` is structural and accepted only "
    "under other commas; (R2) each combinator is summarised, on every branch, by the multiplier it applies to the scale of each "
    "operand's elements — add_terms (+1,+1) for common, left-only and right-only elements; sub_terms (+1,−1) with right-only "
    "elements negated; negate_terms −1; mul_term the product of scales keeping the non-scalar factor and an error when both "
    "are non-scalar; div_term the quotient with a scalar right operand and an error otherwise; `=` is add(lhs, negate(rhs)); "
    "the record lambdas call the right combinator with operands in order; (R3) assembly: each non-constant element adds "
    "+scale·e_var to the row, each constant contributes −scale to b, one row per tuple element in order, list specs are joined "
    "with ',', mapping specs add the mapped value to the parsed b. Agreement at numeric points is not decided."
)
ASSUMPTIONS = ["ScaledFactor identity is its factor (so set membership / dict lookup pair the same variable on both sides)"]


def r1(ctx):
    P = ctx.project
    f, recs = c01.records(P, OPS)
    ctx.floor("C16.R1", len(recs), 8, "constraint operator records")
    cls_of = {",": 0, "=": 1, "+": 2, "-": 2, "*": 3, "/": 3}
    where = lambda r: f"{f.module.relpath}:{r.line}"
    for r in recs:
        ctx.look()
        ctx.check(r.symbol in cls_of, "C16.R1", f"record {r.ident} is part of the constraint grammar", where(r), ctx.construct(f, text=f"record {r.symbol}/{r.arity}"),
                  f"unexpected operator `{r.symbol}`")
    import itertools
    for a, b in itertools.combinations([r for r in recs if r.symbol in cls_of], 2):
        want = (cls_of[a.symbol] > cls_of[b.symbol]) - (cls_of[a.symbol] < cls_of[b.symbol])
        got = (a.precedence > b.precedence) - (a.precedence < b.precedence)
        if want != got:
            ctx.fail("C16.R1", f"precedence order of {a.ident} vs {b.ident}", where(a), ctx.construct(f, text=f"precedence {a.symbol}/{a.arity} vs {b.symbol}/{b.arity}"),
                     f"conventional arithmetic requires `{a.symbol}` {'above' if want > 0 else 'below' if want < 0 else 'level with'} `{b.symbol}`; "
                     f"records have {a.precedence} vs {b.precedence}")
    ctx.ok("C16.R1", "precedence classes */ > +- > = > ,", f.where)
    for r in recs:
        if r.arity == 2 and r.symbol in "+-*/":
            ctx.check(r.assoc == "left" and r.fixity == "infix", "C16.R1", f"binary {r.ident} is left-associative infix", where(r),
                      ctx.construct(f, text=f"associativity {r.symbol}/{r.arity}"), f"declared associativity={r.assoc}, fixity={r.fixity} (a - b - c must be (a-b)-c)")
        if r.arity == 1:
            ctx.check(r.fixity == "prefix" and r.assoc == "right", "C16.R1", f"unary {r.ident} is a right-associative prefix", where(r),
                      ctx.construct(f, text=f"associativity {r.symbol}/{r.arity}"), f"declared associativity={r.assoc}, fixity={r.fixity}")
        if r.symbol == ",":
            ok = r.structural and r.accepts is not None and canon(r.accepts) == "lambda v0: all((v1.symbol == ',' for v1 in v0 if isinstance(v1, Operator)))"
            ctx.check(ok, "C16.R1", "`,` is structural and only accepted at top level", where(r), ctx.construct(f, text="comma"),
                      f"structural={r.structural}, accepts_context=`{norm(r.accepts) if r.accepts is not None else None}`")
        else:
            ctx.check(not r.structural, "C16.R1", f"{r.ident} is not structural", where(r), ctx.construct(f, text=f"structural {r.symbol}/{r.arity}"), "only `,` builds structure")
    have = {(r.symbol, r.arity) for r in recs}
    need = {(",", 2), ("=", 2), ("+", 2), ("-", 2), ("+", 1), ("-", 1), ("*", 2), ("/", 2)}
    ctx.check(need <= have, "C16.R1", "all arithmetic operators of the constraint grammar exist", f.where, ctx.construct(f, text="records"), f"missing {sorted(need - have)}")


def _accumulate_summary(fn: ast.FunctionDef) -> Optional[Dict[str, object]]:
    """Summary of the add/sub combinator idiom (see DESIGN appendix B.2)."""
    params = [p for p in param_names(fn)]
    if len(params) != 2:
        return None
    L, R = params
    body = [s for s in fn.body if not (isinstance(s, ast.Expr) and isinstance(s.value, ast.Constant))]
    rekey = {L: False, R: False}
    acc = None
    loop = None
    upd = None
    ret = None
    for s in body:
        t = norm(s)
        m = re.fullmatch(r"(\w+) = \{(\w+): \2 for \2 in \1\}", t)
        if m and m.group(1) in rekey:
            rekey[m.group(1)] = True
            continue
        m = re.fullmatch(r"(\w+) = set\(\)", t)
        if m:
            acc = m.group(1)
            continue
        if isinstance(s, ast.For):
            loop = s
            continue
        if isinstance(s, ast.Expr) and isinstance(s.value, ast.Call) and isinstance(s.value.func, ast.Attribute) and s.value.func.attr == "update":
            upd = s.value
            continue
        if isinstance(s, ast.Return):
            ret = s
            continue
        return None
    if not (all(rekey.values()) and acc and loop is not None and upd is not None and ret is not None and norm(ret.value) == acc):
        return None
    if norm(loop.iter) != L or not isinstance(loop.target, ast.Name):
        return None
    v = loop.target.id
    lb = loop.body
    if len(lb) != 2 or not isinstance(lb[0], ast.If) or norm(lb[0].test) != f"{v} in {R}" or lb[0].orelse or len(lb[0].body) != 1:
        return None
    m = re.fullmatch(r"%s = %s ([+-]) %s\[%s\]" % (v, v, R, v), norm(lb[0].body[0]))
    if not m or norm(lb[1]) != f"{acc}.add({v})":
        return None
    both = (+1, +1 if m.group(1) == "+" else -1)
    if norm(upd.func.value) != acc or len(upd.args) != 1:
        return None
    a = upd.args[0]
    sign = +1
    if isinstance(a, ast.Call) and dotted(a.func) == "negate_terms" and len(a.args) == 1:
        sign, a = -1, a.args[0]
    if isinstance(a, ast.SetComp):
        g = a.generators[0]
        w = g.target.id if isinstance(g.target, ast.Name) else "?"
        elt = a.elt
        if isinstance(elt, ast.UnaryOp) and isinstance(elt.op, ast.USub):
            sign, elt = -sign, elt.operand
        if norm(elt) == w and norm(g.iter) == R and len(g.ifs) == 1 and norm(g.ifs[0]) == f"{w} not in {acc}":
            return {"both": both, "left_only": +1, "right_only": sign}
    return None


def r2(ctx):
    P = ctx.project
    f = P.func(OPS)
    want = {"add_terms": {"both": (1, 1), "left_only": 1, "right_only": 1}, "sub_terms": {"both": (1, -1), "left_only": 1, "right_only": -1}}
    for name, w in want.items():
        g = f.locals_named(name)
        ctx.look()
        s = _accumulate_summary(g.node)
        ctx.check(s == w, "C16.R2", f"{name}: multipliers per branch class are {w}", g.where, ctx.construct(g, text="sign summary"),
                  f"summary is {s} (None = idiom not recognised); expected {w}: an element present on one side only, or on both, would get the wrong sign")
    CANON = {
        "negate_terms": "def f(v0): return {-v1 for v1 in v0}",
        "mul_term": "def f(v0, v1): if v0.factor == 1: return ScaledFactor(v1.factor, scale=v0.scale * v1.scale) if v1.factor == 1: return ScaledFactor(v0.factor, scale=v0.scale * v1.scale) "
                    "raise RuntimeError('Only one non-scalar factor can be involved in a linear constraint multiplication.')",
        "div_term": "def f(v0, v1): if v1.factor == 1: return ScaledFactor(v0.factor, scale=v0.scale / v1.scale) "
                    "raise RuntimeError('The right-hand operand must be a scalar in linear constraint division operations.')",
        "mul_terms": "def f(v0, v1): v0 = {v2: v2 for v2 in v0} v1 = {v2: v2 for v2 in v1} v3: T = set() for v4, v5 in itertools.product(v0, v1): v3 = add_terms(v3, {mul_term(v4, v5)}) return v3",
        "div_terms": "def f(v0, v1): v0 = {v2: v2 for v2 in v0} v1 = {v2: v2 for v2 in v1} v3: T = set() for v4, v5 in itertools.product(v0, v1): v3 = add_terms(v3, {div_term(v4, v5)}) return v3",
        "join_tuples": "def f(v0, v1): if not isinstance(v0, tuple): v0 = (v0,) if not isinstance(v1, tuple): v1 = (v1,) return v0 + v1",
    }
    for name, w in CANON.items():
        g = f.locals_named(name)
        ctx.look()
        got = _relax_messages(canon(g.node))
        ctx.check(got == _relax_messages(w), "C16.R2", f"{name} has its documented denotation", g.where, ctx.construct(g, text="denotation"),
                  f"normal form is `{got[:200]}`; expected `{_relax_messages(w)[:200]}`")
    _, recs = c01.records(P, OPS)
    LAM = {("=", 2): "lambda v0, v1: add_terms(v0, negate_terms(v1))", ("+", 2): "lambda *v0: functools.reduce(add_terms, v0)",
           ("-", 2): "lambda v0, v1: sub_terms(v0, v1)", ("+", 1): "lambda v0: v0", ("-", 1): "lambda v0: negate_terms(v0)",
           ("*", 2): "lambda v0, v1: mul_terms(v0, v1)", ("/", 2): "lambda v0, v1: div_terms(v0, v1)"}
    ALT = {("+", 2): "lambda v0, v1: add_terms(v0, v1)", ("-", 2): "sub_terms", ("*", 2): "mul_terms", ("/", 2): "div_terms", ("-", 1): "negate_terms", (",", 2): "join_tuples"}
    for r in recs:
        key = (r.symbol, r.arity)
        if key not in LAM and key != (",", 2):
            continue
        ctx.look()
        got = canon(r.to_terms) if isinstance(r.to_terms, ast.Lambda) else norm(r.to_terms)
        ok = got == LAM.get(key) or got == ALT.get(key)
        ctx.check(ok, "C16.R2", f"record {r.ident} applies its combinator to the operands in order", f"{f.module.relpath}:{r.line}",
                  ctx.construct(f, text=f"to_terms {r.symbol}/{r.arity}"), f"to_terms is `{got}`; expected `{LAM.get(key) or ALT.get(key)}`")
    SF = P.cls(MOD + ".ScaledFactor")
    for m, w in (("__add__", "ScaledFactor(self.factor, scale=self.scale + other.scale)"), ("__sub__", "ScaledFactor(self.factor, scale=self.scale - other.scale)"),
                 ("__neg__", "ScaledFactor(self.factor, scale=-self.scale)")):
        g = SF.methods[m]
        rets = [norm(r.value) for r in returns_of(g.node) if norm(r.value) != "NotImplemented"]
        ctx.check(rets == [w], "C16.R2", f"ScaledFactor.{m} combines the scales and keeps the factor", g.where, ctx.construct(g, text="scale arithmetic"),
                  f"returns {rets}; expected `{w}`")
    from .c03 import eqhash
    eqhash(ctx, "C16.R2", MOD + ".ScaledFactor", ["factor"], excluded=["scale"])
    tk = P.method(MOD + ".ConstraintToken", "to_terms")
    t = norm(tk.node)
    ok = "if self.kind is Token.Kind.VALUE:" in t and "factor = ast.literal_eval(self.token)" in t and "return {ScaledFactor(1, scale=factor)}" in t \
        and "return {ScaledFactor(self.to_factor())}" in t and "isinstance(factor, (int, float))" in t
    ctx.check(ok, "C16.R2", "numeric literals become constants (factor 1, scale = value), names become unit-scaled factors", tk.where, ctx.construct(tk, text="leaf terms"),
              "ConstraintToken.to_terms changed shape")


def _relax_messages(s: str) -> str:
    return re.sub(r"RuntimeError\('[^']*'\)", "RuntimeError(<msg>)", s)


def r3(ctx):
    P = ctx.project
    gm = P.method(MOD + ".LinearConstraintParser", "get_matrix")
    fn = gm.node
    outer = [n for n in walk_no_nested(fn) if isinstance(n, ast.For)]
    ctx.look(4)
    if not outer:
        raise AnalysisError("C16.R3: row loop of get_matrix not found")
    lp = outer[0]
    inner = [n for n in lp.body if isinstance(n, ast.For)]
    ok = len(inner) == 1 and norm(inner[0].iter) == norm(lp.target) and norm(lp.iter) == "constraints"
    sf = inner[0].target.id if ok and isinstance(inner[0].target, ast.Name) else "?"
    br = inner[0].body[0] if ok and inner[0].body and isinstance(inner[0].body[0], ast.If) else None
    ok_const = br is not None and norm(br.test) == f"{sf}.factor == 1" and len(br.body) == 1 and norm(br.body[0]) == f"constant += {sf}.scale"
    ok_vec = br is not None and len(br.orelse) == 1 and re.fullmatch(r"vector \+= %s\.scale \* col_vectors\[(cast\(Factor, )?%s\.factor\)?\.expr\]" % (sf, sf), norm(br.orelse[0])) is not None
    ctx.check(ok and ok_const and ok_vec, "C16.R3", "each constant element accumulates +scale into the constant, each variable element +scale·e_var into the row",
              gm.module.line(lp), ctx.construct(gm, text="row accumulation"),
              f"inner branch: `{stmt_text(br, 120) if br is not None else None}`")
    tail = [norm(s) for s in lp.body if not isinstance(s, ast.For)]
    ok = "matrix.append(vector)" in tail and "constants.append(-constant)" in tail and "vector = numpy.zeros(len(self.variable_names))" in tail and \
        any(t in ("constant: float = 0", "constant = 0") for t in tail)
    ctx.check(ok, "C16.R3", "one row per constraint in order; b receives −constant (so that A·x − b = lhs − rhs)", gm.module.line(lp), ctx.construct(gm, text="row emit"),
              f"row loop statements: {tail}")
    t = norm(fn)
    ok = "col_vectors = dict(zip(self.variable_names, numpy.eye(len(self.variable_names))))" in t
    ctx.check(ok, "C16.R3", "column i of A belongs to variable_names[i]", gm.where, ctx.construct(gm, text="col_vectors"), "unit vectors must be zipped with variable_names in order")
    ok = "if not isinstance(constraints, tuple):" in t and "constraints = (constraints,)" in t and "return (numpy.array(matrix), numpy.array(constants))" in t
    ctx.check(ok, "C16.R3", "a single constraint is one row; the result is (A, b)", gm.where, ctx.construct(gm, text="result"), "get_matrix result shape changed")
    fs = P.method(MOD + ".LinearConstraints", "from_spec")
    t = norm(fs.node)
    ok = "spec = ','.join(spec)" in t
    ctx.check(ok, "C16.R3", "a list of constraint strings is joined with ','", fs.where, ctx.construct(fs, text="list join"), "list specs must be joined with ','")
    ok = "constants.append(values + numpy.array(constant))" in t and "matrices.append(matrix)" in t and "for key, constant in spec.items():" in t.replace("(key, constant)", "key, constant") \
        and "return cls(numpy.vstack(matrices), numpy.hstack(constants), variable_names=variable_names)" in t
    ctx.check(ok, "C16.R3", "a mapping spec adds the mapped value to the parsed b, rows stacked in mapping order", fs.where, ctx.construct(fs, text="mapping"),
              "mapping specs: b must be parsed b + mapped value")
    gt = P.method(MOD + ".LinearConstraintParser", "get_tokens")
    ok = "[ConstraintToken.for_token(token) for token in tokenize(formula)]" in norm(gt.node)
    ctx.check(ok, "C16.R3", "constraint strings are lexed with the shared tokenizer", gt.where, ctx.construct(gt, text="tokens"), "get_tokens changed")



def r4(ctx):
    """the constraint grammar is parsed by the shared shunting-yard: its pop condition consumes the table of R1 (= C01.R9)."""
    from .shared import relabel
    relabel(ctx, "C16.R4", c01.r9)


def _r4_parts():
    from .shared import relabel
    from .shared import relabel_parts
    return relabel_parts("C16.R4", c01.r9)


r4.parts = _r4_parts


def f1(ctx):
    """generic same-name parameter forwarding over this property's modules (see shared.generic_forwarding)."""
    from . import shared as _sh
    _sh.generic_forwarding(ctx, "C16.F1", _sh.PROPERTY_MODULES["C16"])


RULES = [("C16.R1", r1), ("C16.R2", r2), ("C16.R3", r3), ("C16.R4", r4), ("C16.F1", f1)]
