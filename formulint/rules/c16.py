"""C16 — linear-constraint specifications compile to the affine map they express."""
from __future__ import annotations

import ast
import re
from typing import Dict, List, Optional, Tuple

from ..core import AnalysisError, FunctionInfo, Project, const_value, dotted, is_const, kwarg, norm, param_names, walk_no_nested
from .. import sym
from ..util import assignments, canon, count_negations, returns_of, stmt_text
from . import c01

MOD = "formulaic.utils.constraints"
OPS = MOD + ".ConstraintOperatorResolver.operators"

EXPLANATION = (
    "Static rules over the constraint grammar: (R1) the operator records have the conventional order classes (* / above binary "
    "and unary + - above = above ,), binary arithmetic operators are left-associative, `,` is structural and accepted only "
    "under other commas; (R2) each combinator is summarised, on every branch, by the multiplier it applies to the scale of each "
    "operand's elements — add_terms (+1,+1) for common, left-only and right-only elements; sub_terms (+1,−1) with right-only "
    "elements negated; negate_terms −1; mul_term the product of scales keeping the non-scalar factor and an error when both "
    "are non-scalar; div_term the quotient with a scalar right operand and an error otherwise; `=` is add(lhs, negate(rhs)); "
    "the record lambdas call the right combinator with operands in order; (R3) assembly: each non-constant element adds "
    "+scale·e_var to the row, each constant contributes −scale to b, one row per tuple element in order, list specs are joined "
    "with ',', mapping specs add the mapped value to the parsed b. Agreement at numeric points is not decided."
)
ASSUMPTIONS = ["ScaledFactor identity is its factor (so set membership / dict lookup pair the same variable on both sides)"]


def r1(ctx):
    P = ctx.project
    f, recs = c01.records(P, OPS)
    ctx.floor("C16.R1", len(recs), 8, "constraint operator records")
    cls_of = {",": 0, "=": 1, "+": 2, "-": 2, "*": 3, "/": 3}
    where = lambda r: f"{f.module.relpath}:{r.line}"
    for r in recs:
        ctx.look()
        ctx.check(r.symbol in cls_of, "C16.R1", f"record {r.ident} is part of the constraint grammar", where(r), ctx.construct(f, text=f"record {r.symbol}/{r.arity}"),
                  f"unexpected operator `{r.symbol}`")
    import itertools
    for a, b in itertools.combinations([r for r in recs if r.symbol in cls_of], 2):
        want = (cls_of[a.symbol] > cls_of[b.symbol]) - (cls_of[a.symbol] < cls_of[b.symbol])
        got = (a.precedence > b.precedence) - (a.precedence < b.precedence)
        if want != got:
            ctx.fail("C16.R1", f"precedence order of {a.ident} vs {b.ident}", where(a), ctx.construct(f, text=f"precedence {a.symbol}/{a.arity} vs {b.symbol}/{b.arity}"),
                     f"conventional arithmetic requires `{a.symbol}` {'above' if want > 0 else 'below' if want < 0 else 'level with'} `{b.symbol}`; "
                     f"records have {a.precedence} vs {b.precedence}")
    ctx.ok("C16.R1", "precedence classes */ > +- > = > ,", f.where)
    for r in recs:
        if r.arity == 2 and r.symbol in "+-*/":
            ctx.check(r.assoc == "left" and r.fixity == "infix", "C16.R1", f"binary {r.ident} is left-associative infix", where(r),
                      ctx.construct(f, text=f"associativity {r.symbol}/{r.arity}"), f"declared associativity={r.assoc}, fixity={r.fixity} (a - b - c must be (a-b)-c)")
        if r.arity == 1:
            ctx.check(r.fixity == "prefix" and r.assoc == "right", "C16.R1", f"unary {r.ident} is a right-associative prefix", where(r),
                      ctx.construct(f, text=f"associativity {r.symbol}/{r.arity}"), f"declared associativity={r.assoc}, fixity={r.fixity}")
        if r.symbol == ",":
            # ∀ c ∈ context: c is not an operator, or it is another `,` — whichever way the quantifier is spelled
            from ..util import atom_mapper, truth_table, universal_form
            ok = False
            if r.structural and isinstance(r.accepts, ast.Lambda) and len(r.accepts.args.args) == 1:
                uf = universal_form(r.accepts.body)
                if uf is not None and uf[1] == r.accepts.args.args[0].arg:
                    v = uf[0]
                    am = atom_mapper({f"isinstance({v}, Operator)": 0, f"{v}.symbol == ','": 1, f"',' == {v}.symbol": 1})
                    ok = truth_table(uf[2], am, 2) == (True, True, False, True)
            ctx.check(ok, "C16.R1", "`,` is structural and only accepted at top level", where(r), ctx.construct(f, text="comma"),
                      f"structural={r.structural}, accepts_context=`{norm(r.accepts) if r.accepts is not None else None}`")
        else:
            ctx.check(not r.structural, "C16.R1", f"{r.ident} is not structural", where(r), ctx.construct(f, text=f"structural {r.symbol}/{r.arity}"), "only `,` builds structure")
    have = {(r.symbol, r.arity) for r in recs}
    need = {(",", 2), ("=", 2), ("+", 2), ("-", 2), ("+", 1), ("-", 1), ("*", 2), ("/", 2)}
    ctx.check(need <= have, "C16.R1", "all arithmetic operators of the constraint grammar exist", f.where, ctx.construct(f, text="records"), f"missing {sorted(need - have)}")


def _accumulate_summary(fn: ast.FunctionDef) -> Optional[Dict[str, object]]:
    """Summary of the add/sub combinator (see DESIGN appendix B.2), read off the symbolic summary of the function:
    for every element v of the left operand the result receives v (+|-) right[v] when v is also on the right and v
    otherwise; afterwards the right-only elements are added, negated or not."""
    params = [p for p in param_names(fn)]
    if len(params) != 2:
        return None
    L, R = params
    try:
        outs = sym.outcomes(fn)
    except sym.Unmodelled:
        return None
    lps = sym.loops_of(outs)
    if not lps:
        return _accumulate_summary_comprehension(fn, L, R, outs)
    if len(lps) != 1 or not isinstance(lps[0]._sym_orig, ast.For) or not isinstance(lps[0]._sym_orig.target, ast.Name):
        return None
    lp = lps[0]
    v = lp._sym_orig.target.id
    if sym.pm_any(["{VAR_a: VAR_a for VAR_a in %s}" % L, L, "set(%s)" % L, "list(%s)" % L], lp._sym_head) is None:
        return None
    # the membership test against the right operand
    RM = None
    for o in outs:
        for c, _pol in o.conds:
            b = sym.pm(f"{v} in ANY_r", c)
            if b is not None and sym.pm_any(["{VAR_b: VAR_b for VAR_b in %s}" % R, R], ast.parse(b["ANY_r"], mode="eval").body) is not None:
                RM = b["ANY_r"]
    if RM is None:
        # the test may live inside a conditional expression of the added value
        for _k, effs, _env, _o in sym.iteration_effects(outs, lp, {}):
            for e in effs:
                for n in ast.walk(e):
                    if isinstance(n, ast.IfExp):
                        for cand in (n.test, sym.as_test(sym.negate(n.test))):
                            b = sym.pm(f"{v} in ANY_r", cand)
                            if b is not None:
                                RM = b["ANY_r"]
    if RM is None:
        return None
    atom = f"{v} in {RM}"
    both_it = sym.iteration_effects(outs, lp, {atom: True})
    left_it = sym.iteration_effects(outs, lp, {atom: False})
    if len(both_it) != 1 or len(left_it) != 1 or len(both_it[0][1]) != 1 or len(left_it[0][1]) != 1:
        return None
    bb = sym.pm_any([f"VAR_acc.add({v} + ANY_rm[{v}])"], both_it[0][1][0])
    sign_both = +1
    if bb is None:
        bb = sym.pm_any([f"VAR_acc.add({v} - ANY_rm[{v}])"], both_it[0][1][0])
        sign_both = -1
    if bb is None:
        return None
    acc = bb["VAR_acc"]
    if sym.pm(f"{acc}.add({v})", left_it[0][1][0]) is None:
        return None
    fin = [o for o in outs if not o.loops and o.kind == "return"]
    if len(fin) != 1 or norm(fin[0].value) != acc:
        return None
    after = []
    seen_loop = False
    for e in fin[0].effects:
        if isinstance(e, (ast.For, ast.While)):
            seen_loop = True
        elif seen_loop:
            after.append(e)
    if len(after) != 1:
        return None
    RIGHT = "{VAR_w for VAR_w in ANY_r if VAR_w not in %s}" % acc
    sign = None
    if sym.pm(f"{acc}.update({RIGHT})", after[0]) is not None:
        sign = +1
    elif sym.pm(f"{acc}.update(negate_terms({RIGHT}))", after[0]) is not None or \
            sym.pm("%s.update({-VAR_w for VAR_w in ANY_r if VAR_w not in %s})" % (acc, acc), after[0]) is not None:
        sign = -1
    if sign is None:
        return None
    return {"both": (1, sign_both), "left_only": +1, "right_only": sign}


def _accumulate_summary_comprehension(fn, L, R, outs):
    """The same combinator written as  acc = {<v (+|-) right[v] if v in right else v> for v in left}; acc.update(<right-only>)."""
    env = {}
    acc = comp = None
    for st in fn.body:
        if isinstance(st, ast.Assign) and len(st.targets) == 1 and isinstance(st.targets[0], ast.Name):
            v_ = sym.subst(st.value, env)
            if isinstance(v_, ast.SetComp) and len(v_.generators) == 1 and isinstance(v_.generators[0].target, ast.Name) and not v_.generators[0].ifs:
                acc, comp = st.targets[0].id, v_
            env[st.targets[0].id] = v_
    if comp is None or sym.pm_any(["{VAR_a: VAR_a for VAR_a in %s}" % L, L], comp.generators[0].iter) is None:
        return None
    v = comp.generators[0].target.id
    tests = [n.test for n in ast.walk(comp.elt) if isinstance(n, ast.IfExp)]
    RM = None
    for t in tests:
        for cand in (t, sym.as_test(sym.negate(t))):
            b = sym.pm(f"{v} in ANY_r", cand)
            if b is not None and sym.pm_any(["{VAR_b: VAR_b for VAR_b in %s}" % R, R], ast.parse(b["ANY_r"], mode="eval").body) is not None:
                RM = b["ANY_r"]
    if RM is None:
        return None
    atom = f"{v} in {RM}"
    both = sym.simplify(comp.elt, {atom: True})
    left = sym.simplify(comp.elt, {atom: False})
    if norm(left) != v:
        return None
    if sym.pm(f"{v} + ANY_rm[{v}]", both) is not None:
        sb = +1
    elif sym.pm(f"{v} - ANY_rm[{v}]", both) is not None:
        sb = -1
    else:
        return None
    fin = [o for o in outs if o.kind == "return"]
    if len(fin) != 1 or norm(fin[0].value) != acc or len(fin[0].effects) != 1:
        return None
    RIGHT = "{VAR_w for VAR_w in ANY_r if VAR_w not in %s}" % acc
    e = fin[0].effects[0]
    if sym.pm(f"{acc}.update({RIGHT})", e) is not None:
        sign = +1
    elif sym.pm(f"{acc}.update(negate_terms({RIGHT}))", e) is not None or sym.pm("%s.update({-VAR_w for VAR_w in ANY_r if VAR_w not in %s})" % (acc, acc), e) is not None:
        sign = -1
    else:
        return None
    return {"both": (1, sb), "left_only": +1, "right_only": sign}


def _pairwise_inline(g, cases) -> Optional[str]:
    """mul_terms / div_terms with the per-pair computation written in the loop: None if, for every pair of the product of the two
    operands, the accumulated set receives exactly the documented ScaledFactor (through add_terms) or the documented error is raised."""
    pg = param_names(g.node)
    if len(pg) != 2:
        return "expected two operands"
    try:
        outs = sym.outcomes(g.node)
    except sym.Unmodelled as e:
        return f"cannot be summarised: {e}"
    loops = [l._sym_orig for l in sym.loops_of(outs)]
    if len(loops) == 1 and isinstance(loops[0], ast.For) and sym.pm(f"itertools.product({pg[0]}, {pg[1]})", loops[0].iter) is not None \
            and isinstance(loops[0].target, ast.Tuple) and len(loops[0].target.elts) == 2 and all(isinstance(e, ast.Name) for e in loops[0].target.elts):
        tl, tr = (e.id for e in loops[0].target.elts)
    elif len(loops) == 2 and all(isinstance(l, ast.For) and isinstance(l.target, ast.Name) for l in loops) and [norm(l.iter) for l in loops] == list(pg):
        tl, tr = loops[0].target.id, loops[1].target.id
    else:
        return f"the pairs must come from itertools.product({pg[0]}, {pg[1]}) (or two nested loops in that order)"
    inner = sym.loops_of(outs)[-1]
    fin = [o for o in outs if o.kind == "return" and not o.loops]
    if len(fin) != 1:
        return "expected one final return of the accumulated set"
    acc = norm(fin[0].value)
    first = [st for st in g.node.body if isinstance(st, (ast.Assign, ast.AnnAssign)) and norm(st.targets[0] if isinstance(st, ast.Assign) else st.target) == acc]
    if not first or norm(first[0].value) != "set()":
        return f"the accumulated set `{acc}` must start empty"
    for facts, want in cases:
        fx = {k.replace("TL", tl).replace("TR", tr): v for k, v in facts.items()}
        its = sym.iteration_effects(outs, inner, fx)
        if want is None:
            if not its or any(k != "raise" or "RuntimeError" not in norm(o.value or ast.Constant(value=None)) for k, _e, _env, o in its):
                return f"under {fx} the pair must be rejected with a RuntimeError; found {[k for k, *_ in its]}"
            continue
        w = want.replace("TL", tl).replace("TR", tr)
        if len(its) != 1 or its[0][0] not in ("fall", "continue") or its[0][1]:
            return f"under {fx}: expected one silent way through the iteration, found {[(k, [norm(e) for e in ef]) for k, ef, *_ in its]}"
        got = its[0][2].get(acc)
        if got is None or sym.pm_any(["add_terms(%s, {%s})" % (acc, w)], got) is None:
            return f"under {fx} the set must become add_terms({acc}, {{{w}}}); it becomes `{norm(got) if got is not None else None}`"
    return None


def r2(ctx):
    P = ctx.project
    f = P.func(OPS)
    want = {"add_terms": {"both": (1, 1), "left_only": 1, "right_only": 1}, "sub_terms": {"both": (1, -1), "left_only": 1, "right_only": -1}}
    for name, w in want.items():
        g = f.locals_named(name)
        ctx.look()
        s = _accumulate_summary(g.node)
        ctx.check(s == w, "C16.R2", f"{name}: multipliers per branch class are {w}", g.where, ctx.construct(g, text="sign summary"),
                  f"summary is {s} (None = idiom not recognised); expected {w}: an element present on one side only, or on both, would get the wrong sign")
    from ..expect import contains
    SKEL = {
        "negate_terms": """
            def negate_terms(terms):
                return {-term for term in terms}
        """,
        "mul_term": """
            def mul_term(term_left, term_right):
                if term_left.factor == 1:
                    return ScaledFactor(term_right.factor, scale=term_left.scale * term_right.scale)
                if term_right.factor == 1:
                    return ScaledFactor(term_left.factor, scale=term_left.scale * term_right.scale)
                raise RuntimeError("")
        """,
        "div_term": """
            def div_term(term_left, term_right):
                if term_right.factor == 1:
                    return ScaledFactor(term_left.factor, scale=term_left.scale / term_right.scale)
                raise RuntimeError("")
        """,
        "mul_terms": """
            def mul_terms(terms_left, terms_right):
                terms_left = {term: term for term in terms_left}
                terms_right = {term: term for term in terms_right}
                terms = set()
                for term_left, term_right in itertools.product(terms_left, terms_right):
                    terms = add_terms(terms, {mul_term(term_left, term_right)})
                return terms
        """,
        "div_terms": """
            def div_terms(terms_left, terms_right):
                terms_left = {term: term for term in terms_left}
                terms_right = {term: term for term in terms_right}
                terms = set()
                for term_left, term_right in itertools.product(terms_left, terms_right):
                    terms = add_terms(terms, {div_term(term_left, term_right)})
                return terms
        """,
        "join_tuples": """
            def join_tuples(lhs, rhs):
                if not isinstance(lhs, tuple):
                    lhs = (lhs,)
                if not isinstance(rhs, tuple):
                    rhs = (rhs,)
                return lhs + rhs
        """,
    }
    PAIR = {"mul_term": ("mul_terms", [({"TL.factor == 1": True}, "ScaledFactor(TR.factor, scale=TL.scale * TR.scale)"),
                                       ({"TL.factor == 1": False, "TR.factor == 1": True}, "ScaledFactor(TL.factor, scale=TL.scale * TR.scale)"),
                                       ({"TL.factor == 1": False, "TR.factor == 1": False}, None)]),
            "div_term": ("div_terms", [({"TR.factor == 1": True}, "ScaledFactor(TL.factor, scale=TL.scale / TR.scale)"), ({"TR.factor == 1": False}, None)])}
    inlined = set()
    for helper, (outer, cases) in PAIR.items():
        try:
            f.locals_named(helper)
            continue
        except AnalysisError:
            pass
        # the per-pair helper has been written into the loop of its only caller: decide the same denotation on the loop's iteration summaries
        g = f.locals_named(outer)
        ctx.look()
        inlined |= {helper, outer}
        why = _pairwise_inline(g, cases)
        ctx.check(why is None, "C16.R2", f"{helper} has its documented denotation", g.where, ctx.construct(g, text=f"denotation of {helper} (inlined)"), f"{why}")
        ctx.check(why is None, "C16.R2", f"{outer} has its documented denotation", g.where, ctx.construct(g, text="denotation"), f"{why}")
    for name, w in SKEL.items():
        if name in inlined:
            continue
        g = f.locals_named(name)
        ctx.look()
        # the skeleton's parameter names are those of the function as written today; renaming a parameter is harmless
        pw = param_names(ast.parse(__import__("textwrap").dedent(w)).body[0])
        pg = param_names(g.node)
        for a_, b2 in zip(pw, pg):
            w = re.sub(r"\b%s\b" % re.escape(a_), b2, w) if a_ != b2 else w
        alts = [w]
        if "itertools.product(terms_left, terms_right)" in w.replace(pg[0], "terms_left").replace(pg[1] if len(pg) > 1 else "", "terms_right") and len(pg) == 2:
            a1, a2 = pg
            alts.append(w.replace(f"for term_left, term_right in itertools.product({a1}, {a2}):\n", f"for term_left in {a1}:\n                    for term_right in {a2}:\n    "))
        from ..expect import contains_any
        ok, why = contains_any(P, g, alts)
        extra = sum(1 for n in ast.walk(g.node) if isinstance(n, (ast.Return, ast.Raise))) - sum(1 for n in ast.walk(ast.parse(__import__("textwrap").dedent(w))) if isinstance(n, (ast.Return, ast.Raise)))
        ctx.check(ok and extra <= 0, "C16.R2", f"{name} has its documented denotation", g.where, ctx.construct(g, text="denotation"),
                  f"{why or 'additional ways of returning were added'}")
    _, recs = c01.records(P, OPS)
    LAM = {("=", 2): "lambda v0, v1: add_terms(v0, negate_terms(v1))", ("+", 2): "lambda *v0: functools.reduce(add_terms, v0)",
           ("-", 2): "lambda v0, v1: sub_terms(v0, v1)", ("+", 1): "lambda v0: v0", ("-", 1): "lambda v0: negate_terms(v0)",
           ("*", 2): "lambda v0, v1: mul_terms(v0, v1)", ("/", 2): "lambda v0, v1: div_terms(v0, v1)"}
    ALT = {("+", 2): "lambda v0, v1: add_terms(v0, v1)", ("-", 2): "sub_terms", ("*", 2): "mul_terms", ("/", 2): "div_terms", ("-", 1): "negate_terms", (",", 2): "join_tuples"}
    for r in recs:
        key = (r.symbol, r.arity)
        if key not in LAM and key != (",", 2):
            continue
        ctx.look()
        got = canon(r.to_terms) if isinstance(r.to_terms, ast.Lambda) else norm(r.to_terms)
        ok = got == LAM.get(key) or got.lstrip("_") == ALT.get(key)
        ctx.check(ok, "C16.R2", f"record {r.ident} applies its combinator to the operands in order", f"{f.module.relpath}:{r.line}",
                  ctx.construct(f, text=f"to_terms {r.symbol}/{r.arity}"), f"to_terms is `{got}`; expected `{LAM.get(key) or ALT.get(key)}`")
    SF = P.cls(MOD + ".ScaledFactor")
    for m, w in (("__add__", "ScaledFactor(self.factor, scale=self.scale + other.scale)"), ("__sub__", "ScaledFactor(self.factor, scale=self.scale - other.scale)"),
                 ("__neg__", "ScaledFactor(self.factor, scale=-self.scale)")):
        g = SF.methods[m]
        try:
            go = sym.outcomes(g.node)
        except sym.Unmodelled:
            go = []
        gp = param_names(g.node)
        facts = {f"isinstance({gp[1]}, ScaledFactor)": True} if len(gp) > 1 else {}
        rets = [norm(v) for _k, v, _e in sym.eval_under(go, facts, kinds=("return",)) if v is not None and norm(v) != "NotImplemented"]
        w = w.replace("other", gp[1]) if len(gp) > 1 else w
        ctx.check(rets == [w], "C16.R2", f"ScaledFactor.{m} combines the scales and keeps the factor", g.where, ctx.construct(g, text="scale arithmetic"),
                  f"returns {rets}; expected `{w}`")
    from .c03 import eqhash
    eqhash(ctx, "C16.R2", MOD + ".ScaledFactor", ["factor"], excluded=["scale"])
    tk = P.method(MOD + ".ConstraintToken", "to_terms")
    ok, why = contains(P, tk, """
        def to_terms(self, *, context=None):
            if self.kind is Token.Kind.VALUE:
                factor = ast.literal_eval(self.token)
                if isinstance(factor, (int, float)):
                    return {ScaledFactor(1, scale=factor)}
                raise exc_for_token(self, message="")
            return {ScaledFactor(self.to_factor())}
    """)
    ctx.check(ok, "C16.R2", "numeric literals become constants (factor 1, scale = value), names become unit-scaled factors", tk.where, ctx.construct(tk, text="leaf terms"),
              f"ConstraintToken.to_terms: {why}")


def _relax_messages(s: str) -> str:
    return re.sub(r"RuntimeError\('[^']*'\)", "RuntimeError(<msg>)", s)


def r3(ctx):
    P = ctx.project
    from ..expect import contains, contains_any
    gm = P.method(MOD + ".LinearConstraintParser", "get_matrix")
    ctx.look(4)
    ROW = """
        def get_matrix(self, formula):
            for constraint in constraints:
                vector = numpy.zeros(len(self.variable_names))
                constant = 0
                for scaled_factor in constraint:
                    if scaled_factor.factor == 1:
                        constant += scaled_factor.scale
                    else:
                        vector += scaled_factor.scale * col_vectors[%s]
                matrix.append(vector)
                constants.append(-constant)
            ...
    """
    ok, why = contains_any(P, gm, [ROW % "scaled_factor.factor.expr", ROW % "cast(Factor, scaled_factor.factor).expr"])
    ctx.check(ok, "C16.R3", "each constant element accumulates +scale into the constant, each variable element +scale·e_var into the row",
              gm.where, ctx.construct(gm, text="row accumulation"), f"row accumulation: {why}")
    ok, why = contains(P, gm, """
        def get_matrix(self, formula):
            matrix = []
            constants = []
            for constraint in constraints:
                vector = numpy.zeros(len(self.variable_names))
                constant = 0
                ...
                matrix.append(vector)
                constants.append(-constant)
            return numpy.array(matrix), numpy.array(constants)
    """)
    ctx.check(ok, "C16.R3", "one row per constraint in order; b receives −constant (so that A·x − b = lhs − rhs)", gm.where, ctx.construct(gm, text="row emit"),
              f"row emission: {why}")
    from ..expect import contains_any
    ok, why = contains_any(P, gm, ["""
        def get_matrix(self, formula):
            col_vectors = dict(zip(self.variable_names, numpy.eye(len(self.variable_names))))
            for constraint in constraints:
                vector = numpy.zeros(len(self.variable_names))
    """, """
        def get_matrix(self, formula):
            identity = numpy.eye(len(self.variable_names))
            col_vectors = {}
            for index, variable_name in enumerate(self.variable_names):
                col_vectors[variable_name] = identity[index]
            for constraint in constraints:
                vector = numpy.zeros(len(self.variable_names))
    """, """
        def get_matrix(self, formula):
            identity = numpy.eye(len(self.variable_names))
            col_vectors = {variable_name: identity[index] for index, variable_name in enumerate(self.variable_names)}
            for constraint in constraints:
                vector = numpy.zeros(len(self.variable_names))
    """])
    ctx.check(ok, "C16.R3", "column i of A belongs to variable_names[i]", gm.where, ctx.construct(gm, text="col_vectors"), f"unit vectors must be zipped with variable_names in order: {why}")
    ok, why = contains(P, gm, """
        def get_matrix(self, formula):
            if not isinstance(constraints, tuple):
                constraints = (constraints,)
            ...
            for constraint in constraints:
                ...
            return numpy.array(matrix), numpy.array(constants)
    """)
    ctx.check(ok, "C16.R3", "a single constraint is one row; the result is (A, b)", gm.where, ctx.construct(gm, text="result"), f"get_matrix result shape: {why}")
    fs = P.method(MOD + ".LinearConstraints", "from_spec")
    t = norm(fs.node)
    ok = any(sym.pm_any(["spec = ','.join(spec)", "spec = ','.join(spec) if isinstance(spec, list) else spec"], n) is not None for n in ast.walk(fs.node))
    ctx.check(ok, "C16.R3", "a list of constraint strings is joined with ','", fs.where, ctx.construct(fs, text="list join"), "list specs must be joined with ','")
    ok, why = contains(P, fs, """
        def from_spec(cls, spec, variable_names=None):
            matrices, constants = [], []
            for key, constant in spec.items():
                matrix, values = LinearConstraintParser(variable_names=variable_names).get_matrix(key)
                matrices.append(matrix)
                constants.append(values + numpy.array(constant))
            return cls(numpy.vstack(matrices), numpy.hstack(constants), variable_names=variable_names)
    """)
    ctx.check(ok, "C16.R3", "a mapping spec adds the mapped value to the parsed b, rows stacked in mapping order", fs.where, ctx.construct(fs, text="mapping"),
              f"mapping specs: b must be parsed b + mapped value: {why}")
    gt = P.method(MOD + ".LinearConstraintParser", "get_tokens")
    c = None
    try:
        rr = [o for o in sym.outcomes(gt.node) if o.kind == "return"]
        c = rr[0].value if len(rr) == 1 else None
    except sym.Unmodelled:
        pass
    ok = sym.pm_any(["[ConstraintToken.for_token(VAR_t) for VAR_t in tokenize(formula)]", "list(map(ConstraintToken.for_token, tokenize(formula)))"], c) is not None
    ctx.check(ok, "C16.R3", "constraint strings are lexed with the shared tokenizer", gt.where, ctx.construct(gt, text="tokens"), "get_tokens changed")



def r4(ctx):
    """the constraint grammar is parsed by the shared shunting-yard: its pop condition consumes the table of R1 (= C01.R9)."""
    from .shared import relabel
    relabel(ctx, "C16.R4", c01.r9)


def _r4_parts():
    from .shared import relabel
    from .shared import relabel_parts
    return relabel_parts("C16.R4", c01.r9)


r4.parts = _r4_parts


def f1(ctx):
    """generic same-name parameter forwarding over this property's modules (see shared.generic_forwarding)."""
    from . import shared as _sh
    _sh.generic_forwarding(ctx, "C16.F1", _sh.PROPERTY_MODULES["C16"])


RULES = [("C16.R1", r1), ("C16.R2", r2), ("C16.R3", r3), ("C16.R4", r4), ("C16.F1", f1)]
