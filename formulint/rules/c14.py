"""C14 — any input string is parsed or rejected with the library's parsing error."""
from __future__ import annotations

import ast
from typing import Dict, List, Optional, Set, Tuple

from ..callgraph import CallGraph
from ..cfg import CFG, ENTRY, EXIT
from .. import sym
from ..core import AnalysisError, FunctionInfo, Project, arg_for, dotted, is_const, kwarg, norm, param_names, walk_no_nested
from ..util import assignments, count_negations, header_calls, header_walk, mentions, returns_of, stmt_text
from . import c01

ERR = "formulaic.errors"
PARSE_ERR = ERR + ".FormulaParsingError"
T2A = "formulaic.parser.algos.tokens_to_ast.tokens_to_ast"
ROOTS = [
    "formulaic.parser.types.formula_parser.FormulaParser.parse",
    "formulaic.parser.types.formula_parser.FormulaParser.get_tokens",
    "formulaic.parser.types.formula_parser.FormulaParser.get_ast",
    "formulaic.parser.types.formula_parser.FormulaParser.get_terms",
]

EXPLANATION = (
    "Static rules over the parse path (call-graph closure from FormulaParser.parse with dynamic dispatch): (R1) every "
    "`raise` reachable from parsing constructs a FormulaParsingError subclass (directly or through exc_for_token / "
    "exc_for_missing_operator with their resolved errcls), honouring try/except, with a frozen table of exempt sites whose "
    "structural reasons are re-verified on every run; (R2) every operator application popped from the shunting-yard stack "
    "is dominated by a test that the top of the stack is not a bracket; (R3) partial operations on operator operands "
    "(next(iter(x)), reduce without initialiser, x[0]) are dominated by emptiness guards that raise a parse error; (R4) every "
    "context key read with context[...] by an operator is written on every path of get_tokens_from_formula, for every "
    "parser configuration; (R5) disabled operators are never stacked and each feature flag gates exactly its records with "
    "the right polarity; (R6) ast.parse/literal_eval is only fed PYTHON-token text unless enclosed by a converting handler; "
    "(R7) s[0] on a possibly empty sanitised name is guarded. Termination and implicit exceptions outside the modelled "
    "partial operations are not decided."
)
ASSUMPTIONS = [
    "implicit exceptions are modelled only for the listed partial operations (next/reduce/subscript-0/literal_eval/ast.parse)",
    "the exempt-site table of C14.R1 (each line carries its reason; structural reasons are re-verified)",
]

PARSE_MODULES = ("formulaic.parser", "formulaic.utils.code", "formulaic.utils.iterators", "formulaic.utils.structured",
                 "formulaic.utils.layered_mapping", "formulaic.utils.variables", "formulaic.utils.sentinels", "formulaic.errors")
PROPS = ("operators", "operator_table", "required_variables", "degree")


def parse_closure(P: Project):
    cg = CallGraph(P, property_names=PROPS)
    # drop edges whose every call site is swallowed by a catch-all handler that does not re-raise
    def swallowed(site: ast.AST) -> bool:
        n, child = P.parent(site), site
        while n is not None and not isinstance(n, (ast.FunctionDef, ast.AsyncFunctionDef, ast.Lambda)):
            if isinstance(n, ast.Try) and any(child is s for s in n.body):
                for h in n.handlers:
                    names = _handler_names(h)
                    if (not names or names & {"Exception", "BaseException"}) and not any(isinstance(x, ast.Raise) for s in h.body for x in ast.walk(s)):
                        return True
            child, n = n, P.parent(n)
        return False

    for (src, dst), sites in list(cg.sites.items()):
        if all(swallowed(s) for s in sites):
            cg.edges[src].discard(dst)
    # The string-parsing path lives in these modules; dynamic dispatch by method name also reaches same-named
    # methods of unrelated classes (the linear-constraint grammar of utils.constraints — property C16 —, Formula /
    # ModelSpec.required_variables), which no formula *string* can reach: they are cut from the closure.
    for src in list(cg.edges):
        cg.edges[src] = {d for d in cg.edges[src] if P.functions[d].module.name.startswith(PARSE_MODULES)}
    prev = cg.reachable(ROOTS)
    return cg, prev


def _handler_names(h: ast.ExceptHandler) -> Set[str]:
    if h.type is None:
        return set()
    ts = h.type.elts if isinstance(h.type, ast.Tuple) else [h.type]
    return {(dotted(t) or "").split(".")[-1] for t in ts}


def _is_parse_error(P: Project, q: Optional[str]) -> bool:
    return bool(q) and q in P.classes and P.is_subclass(q, PARSE_ERR)


def classify_raise(P: Project, f: FunctionInfo, r: ast.Raise) -> Tuple[str, str]:
    """('ok'|'bad'|'reraise'|'unknown', description)."""
    if r.exc is None:
        # bare re-raise: which handler?
        n = P.parent(r)
        while n is not None and not isinstance(n, ast.ExceptHandler):
            n = P.parent(n)
        names = _handler_names(n) if n is not None else set()
        return "reraise", ",".join(sorted(names)) or "<anything>"
    e = r.exc
    call = e if isinstance(e, ast.Call) else None
    target = call.func if call else e
    q = P.resolve_in(f, target)
    if q in P.classes:
        return ("ok" if _is_parse_error(P, q) else "bad"), q.split(".")[-1]
    if q in P.functions and q.split(".")[-1] in ("exc_for_token", "exc_for_missing_operator") and call is not None:
        fn = P.functions[q].node
        a = arg_for(call, fn, "errcls")
        if a is None:
            # default of the formal
            formals = [x.arg for x in fn.args.args]
            i = formals.index("errcls") - (len(formals) - len(fn.args.defaults))
            a = fn.args.defaults[i]
            cq = P.resolve_expr(P.functions[q].module, a)
        else:
            cq = P.resolve_in(f, a)
        return ("ok" if _is_parse_error(P, cq) else "bad"), f"{q.split('.')[-1]}→{(cq or norm(a)).split('.')[-1]}"
    d = dotted(target) or norm(target)
    if d in ("ValueError", "TypeError", "RuntimeError", "KeyError", "IndexError", "AttributeError", "NotImplementedError",
             "StopIteration", "Exception", "NameError", "SyntaxError", "AssertionError"):
        return "bad", d
    return "unknown", d


def caught_locally(P: Project, r: ast.Raise, cls_name: str) -> bool:
    """Is the raise inside a try body whose handler catches it and does not re-raise?"""
    n, child = P.parent(r), r
    while n is not None and not isinstance(n, (ast.FunctionDef, ast.AsyncFunctionDef, ast.Lambda)):
        if isinstance(n, ast.Try) and any(child is s for s in n.body):
            for h in n.handlers:
                names = _handler_names(h)
                if (not names or names & {"Exception", "BaseException", cls_name}) and not any(
                        isinstance(x, ast.Raise) for s in h.body for x in ast.walk(s)):
                    return True
        child, n = n, P.parent(n)
    return False


# exempt sites: (function qualname suffix, exception) -> (reason, verifier name or None)
EXEMPT = {
    ("parser.types.operator.Operator.to_terms", "RuntimeError"): ("dead: every record of the resolver passes to_terms=", "v_all_records_have_to_terms"),
    ("utils.structured.Structured.__merger_default", "NotImplementedError"): ("dead: every _merge call on the parse path supplies merger=", "v_merge_calls_pass_merger"),
    ("utils.iterators.peekable_iter.peek", "reraise:StopIteration"): ("dead: every peek() call passes a default", "v_peek_calls_pass_default"),
    ("parser.types.token.Token.to_factor", "RuntimeError"): ("dead: the tokenizer only yields tokens whose kind was set at creation or first update (argued)", None),
    ("utils.structured.Structured.__init__", "ValueError"): ("dead: structural operators only create the literal keys lhs/rhs/deps/root", "v_structured_literal_keys"),
    ("utils.structured.Structured._merge", "ValueError"): ("unreachable for the default grammar: tuple-producing `|` is only accepted at top level, so a tuple never meets a non-tuple under one key (argued, not verified)", None),
    ("parser.types.formula_parser.FormulaParser.parse", "KeyError"): ("n/a", None),
    ("utils.variables._get_ast_node_name", "ValueError"): ("caught: only reached through Token.required_variables, whose handler swallows extractor errors by design", "v_extractor_swallowed"),
    ("utils.layered_mapping.LayeredMapping.__getitem__", "KeyError"): ("mapping protocol: KeyError from a context lookup is C14.R4's subject (hard reads of context keys)", None),
    ("utils.layered_mapping.LayeredMapping.__delitem__", "KeyError"): ("mapping protocol; no parse-path code deletes context keys", "v_no_context_delete"),
    ("utils.layered_mapping.LayeredMapping.named_layers", "ValueError"): ("n/a", None),
}


def r1(ctx):
    P = ctx.project
    cg, prev = parse_closure(P)
    ctx.notes.append(f"call graph: {cg.resolved} calls resolved, {cg.unresolved} unresolved (builtins/third party); "
                     f"{len(prev)} functions reachable from FormulaParser.parse")
    ctx.floor("C14.R1", len(prev), 40, "functions on the parse path")
    must = ["formulaic.parser.algos.tokenize.tokenize", T2A, "formulaic.parser.parser.DefaultOperatorResolver.resolve",
            "formulaic.parser.parser.DefaultOperatorResolver.operators", "formulaic.parser.types.ast_node.ASTNode.to_terms",
            "formulaic.utils.code.sanitize_variable_names", "formulaic.parser.parser.DefaultFormulaParser.get_terms_from_ast"]
    for m in must:
        if m not in prev:
            raise AnalysisError(f"C14.R1: {m} is not reachable in the resolved call graph — resolver regression")
    n_raises = 0
    verifiers = Verifiers(P, cg, prev)
    used_exempt = set()
    for q in sorted(prev):
        f = P.functions[q]
        for r in walk_no_nested(f.node):
            if not isinstance(r, ast.Raise):
                continue
            n_raises += 1
            ctx.look()
            kind, what = classify_raise(P, f, r)
            inst = f"raise in {q.replace('formulaic.', '')} constructs a FormulaParsingError"
            where = f.module.line(r)
            cons = ctx.construct(f, text=f"raise {what}")
            if kind == "ok":
                ctx.ok("C14.R1", inst, where, what)
                continue
            tag = what if kind != "reraise" else f"reraise:{what}"
            if kind == "reraise" and what and all(_is_parse_error(P, P.canonical(f"{ERR}.{w}")) for w in what.split(",")):
                ctx.ok("C14.R1", inst, where, "re-raises a parse error")
                continue
            if kind == "reraise" and not what.replace("<anything>", ""):
                # bare re-raise in a catch-all handler re-raises whatever was raised below; those raises are judged themselves
                ctx.ok("C14.R1", inst, where, "re-raise of a judged exception", trivial=True)
                continue
            if kind in ("bad",) and caught_locally(P, r, what):
                ctx.ok("C14.R1", inst, where, "caught by an enclosing handler")
                continue
            ex = None
            for (suffix, exc), (reason, ver) in EXEMPT.items():
                if q.endswith(suffix) and exc == tag:
                    ex = (suffix, exc, reason, ver)
            if ex is not None:
                suffix, exc, reason, ver = ex
                used_exempt.add((suffix, exc))
                if ver is not None:
                    ok, why = getattr(verifiers, ver)()
                    ctx.check(ok, "C14.R1", f"exempt raise {exc} in {suffix}: {reason}", where, cons,
                              f"the structural reason for exempting this raise no longer holds: {why}")
                else:
                    ctx.ok("C14.R1", f"exempt raise {exc} in {suffix}: {reason}", where, "argued exemption", trivial=True)
                continue
            path = " -> ".join(x.replace("formulaic.", "") for x in cg.path(prev, q))
            ctx.fail("C14.R1", inst, where, cons,
                     f"`{stmt_text(r, 100)}` raises {what} ({'not a FormulaParsingError' if kind == 'bad' else 'class not resolvable'}) and is reachable from parsing",
                     [f"call path: {path}"])
    ctx.floor("C14.R1", n_raises, 20, "raise statements on the parse path")


class Verifiers:
    def __init__(self, P: Project, cg: CallGraph, prev):
        self.P, self.cg, self.prev = P, cg, prev

    def v_all_records_have_to_terms(self):
        _, recs = c01.records(self.P)
        bad = [r.ident for r in recs if r.to_terms is None or is_const(r.to_terms, None)]
        return (not bad), f"records without to_terms: {bad}"

    def v_merge_calls_pass_merger(self):
        bad = []
        for q in self.prev:
            f = self.P.functions[q]
            for c in walk_no_nested(f.node):
                if isinstance(c, ast.Call) and isinstance(c.func, ast.Attribute) and c.func.attr == "_merge":
                    if kwarg(c, "merger") is None:
                        bad.append(f"{q}:{c.lineno}")
        return (not bad), f"_merge called without merger= at {bad}"

    def v_peek_calls_pass_default(self):
        bad = []
        for f in self.P.functions.values():
            for c in walk_no_nested(f.node):
                if isinstance(c, ast.Call) and isinstance(c.func, ast.Attribute) and c.func.attr == "peek":
                    if not c.args and kwarg(c, "default") is None:
                        bad.append(f"{f.qualname}:{c.lineno}")
        return (not bad), f"peek() without default at {bad}"

    def v_structured_literal_keys(self):
        bad = []
        for q in self.prev:
            f = self.P.functions[q]
            if not f.module.name.startswith("formulaic.parser"):
                continue
            for c in walk_no_nested(f.node):
                if isinstance(c, ast.Call) and (dotted(c.func) or "").split("[")[0] == "Structured":
                    for k in c.keywords:
                        if k.arg is None or k.arg.startswith("_"):
                            bad.append(f"{q}:{c.lineno}")
        return (not bad), f"Structured(...) with computed or underscore keys at {bad}"

    def v_extractor_swallowed(self):
        # every call-graph predecessor chain into get_expression_variables from the parse path passes Token.required_variables
        P = self.P
        callers = [src for (src, dst) in self.cg.sites if dst.endswith("utils.variables.get_expression_variables") and src in self.prev
                   and dst in self.cg.edges.get(src, ())]
        return (not callers), f"get_expression_variables is called unguarded from {callers}"

    def v_no_context_delete(self):
        bad = []
        for q in self.prev:
            f = self.P.functions[q]
            if f.module.name.startswith("formulaic.parser"):
                for n in walk_no_nested(f.node):
                    if isinstance(n, ast.Delete) and "context" in norm(n):
                        bad.append(q)
        return (not bad), f"context keys deleted in {bad}"


# ----------------------------------------------------------------------------- R2
def r2(ctx):
    P = ctx.project
    f = P.func(T2A)
    fn = f.node
    pops = []
    for n in ast.walk(fn):
        if isinstance(n, ast.Call) and dotted(n.func) == "operate" and n.args and norm(n.args[0]) == "operator_stack.pop()":
            pops.append(n)
    ctx.floor("C14.R2", len(pops), 3, "operator applications popped from the stack")
    for c in pops:
        ctx.look()
        st = P.enclosing_stmt(c)
        guard_ok, why = _bracket_guarded(P, st)
        ctx.check(guard_ok, "C14.R2", "an operator is applied only after the top of the stack was tested not to be a bracket",
                  f.module.line(c), ctx.construct(f, text=f"operate(pop) in {_loop_desc(P, st)}"), why)


def _loop_desc(P, st):
    n = P.parent(st)
    while n is not None and not isinstance(n, ast.While):
        n = P.parent(n)
    return f"while {norm(n.test)[:70]}" if n is not None else "?"


def _bracket_guarded(P: Project, st: ast.stmt) -> Tuple[bool, str]:
    """The enclosing while-test (as a conjunct) or a preceding `if top is bracket: raise/break` in the same
    iteration establishes `operator_stack[-1].token.kind is not Token.Kind.CONTEXT`."""
    lp = P.parent(st)
    while lp is not None and not isinstance(lp, ast.While):
        lp = P.parent(lp)
    if lp is None:
        return False, "pop is not inside a loop"
    def is_not_ctx(e) -> bool:
        return (isinstance(e, ast.Compare) and len(e.ops) == 1 and isinstance(e.ops[0], (ast.IsNot, ast.NotEq))
                and norm(e.left) == "operator_stack[-1].token.kind" and norm(e.comparators[0]).endswith("Kind.CONTEXT"))
    def is_ctx(e) -> bool:
        return (isinstance(e, ast.Compare) and len(e.ops) == 1 and isinstance(e.ops[0], (ast.Is, ast.Eq))
                and norm(e.left) == "operator_stack[-1].token.kind" and norm(e.comparators[0]).endswith("Kind.CONTEXT"))
    conj = lp.test.values if isinstance(lp.test, ast.BoolOp) and isinstance(lp.test.op, ast.And) else [lp.test]
    if any(is_not_ctx(c) for c in conj):
        return True, ""
    # preceding guard in the loop body
    for s in lp.body:
        if s is st:
            break
        if isinstance(s, ast.If) and is_ctx(s.test) and any(isinstance(x, (ast.Raise, ast.Break)) for x in s.body):
            return True, ""
    return False, (f"loop `while {norm(lp.test)[:90]}` pops and applies stack entries without testing that the entry is not an "
                   f"opening bracket; a bracket token has no fixity/arity (AttributeError), e.g. a mismatched closer `(a]`")


# ----------------------------------------------------------------------------- R3
def r3(ctx):
    P = ctx.project
    opsf, recs = c01.records(P)
    impls: List[FunctionInfo] = []
    for r in recs:
        t = r.to_terms
        if isinstance(t, ast.Name):
            g = P.functions.get(f"{opsf.qualname}.<locals>.{t.id}")
            if g is not None and g not in impls:
                impls.append(g)
        elif isinstance(t, ast.Lambda):
            impls.append(P.owner[id(t)])
    # plus local helpers they call
    for g in list(impls):
        for c in ast.walk(g.node):
            if isinstance(c, ast.Call) and isinstance(c.func, ast.Name):
                h = P.functions.get(f"{opsf.qualname}.<locals>.{c.func.id}")
                if h is not None and h not in impls:
                    impls.append(h)
    ctx.floor("C14.R3", len(impls), 12, "operator implementations")
    n_partial = 0
    for g in impls:
        fn = g.node
        params = {p.lstrip("*") for p in param_names(fn)}
        for n in ast.walk(fn):
            part = None
            if isinstance(n, ast.Call) and dotted(n.func) == "next" and len(n.args) == 1 and isinstance(n.args[0], ast.Call) \
                    and dotted(n.args[0].func) == "iter" and n.args[0].args:
                part = ("next(iter(x))", n.args[0].args[0])
            elif isinstance(n, ast.Call) and (dotted(n.func) or "").endswith("reduce") and len(n.args) == 2:
                part = ("reduce(f, x) without initialiser", n.args[1])
            elif isinstance(n, ast.Subscript) and is_const(n.slice, 0) and isinstance(n.value, ast.Name) and n.value.id in params:
                part = ("x[0]", n.value)
            if part is None:
                continue
            what, operand = part
            if not isinstance(operand, ast.Name):
                continue
            n_partial += 1
            ctx.look()
            inst = f"{g.qualname.split('.<locals>.')[-1]}: `{what}` on `{operand.id}` is guarded against an empty operand"
            ok, why = _nonempty_guarded(P, g, n, operand.id)
            ctx.check(ok, "C14.R3", inst, g.module.line(n), ctx.construct(g, n), why)
    ctx.floor("C14.R3", n_partial, 4, "partial operations on operands")
    _filtered_next(ctx)
    # `power`: the number of operands of the product must be proven >= 1
    pw = [r for r in recs if r.symbol == "**"]
    if pw and isinstance(pw[0].to_terms, ast.Name):
        pf = opsf.locals_named(pw[0].to_terms.id)
        facts = c01.power_guard_facts(P, pf)
        ok, msg = facts["positive"]
        ctx.look()
        ctx.check(ok, "C14.R3", "`**`: the exponent is proven strictly positive before the product is reduced", pf.where,
                  ctx.construct(pf, text="guard positive"), msg)


def _filtered_next(ctx):
    """Anywhere in the parsing path: `next(<generator expression>)` without a default is a partial operation — when nothing matches the
    generator's filter it raises StopIteration, which is not a formula parsing error.  (None on today's tree; the rule is kept armed by a
    self-validation variant.)"""
    P = ctx.project
    n_next = 0
    for q, g in sorted(P.functions.items()):
        if isinstance(g.node, ast.Lambda) or not g.module.name.startswith(("formulaic.parser", "formulaic.formula", "formulaic.utils.code", "formulaic.utils.iterators")):
            continue
        for c in walk_no_nested(g.node):
            if isinstance(c, ast.Call) and dotted(c.func) == "next":
                n_next += 1
                ctx.look()
                if len(c.args) != 1 or c.keywords:
                    continue
                a = c.args[0]
                if isinstance(a, ast.Call) and dotted(a.func) == "iter" and len(a.args) == 1:
                    a = a.args[0]
                if not isinstance(a, (ast.GeneratorExp, ast.ListComp, ast.SetComp)):
                    continue
                handled, cur = False, P.parent(c)
                while cur is not None and cur is not g.node:
                    if isinstance(cur, ast.Try) and any(h.type is None or any(isinstance(x, ast.Name) and x.id in ("StopIteration", "Exception", "BaseException")
                                                                              for x in ast.walk(h.type)) for h in cur.handlers):
                        handled = True
                    cur = P.parent(cur)
                unfiltered = not any(gen.ifs for gen in a.generators)
                why_ok = ""
                if unfiltered and len(a.generators) == 1 and isinstance(a.generators[0].iter, ast.Name):
                    ok_, why_ok = _nonempty_guarded(P, g, c, a.generators[0].iter.id)
                    handled = handled or ok_
                ctx.check(handled, "C14.R3", f"{g.qualname.replace('formulaic.', '')}: `next(…)` over a comprehension has a default or a StopIteration handler",
                          g.module.line(c), ctx.construct(g, c),
                          f"`{norm(c)[:90]}` raises StopIteration when no element passes the filter (e.g. a term made only of literals): an internal exception "
                          f"escapes instead of the library's parsing error")
    ctx.ok("C14.R3", f"no unguarded `next(<comprehension>)` among {n_next} next() calls of the parsing path", "formulaic/parser")


def _nonempty_guarded(P: Project, g: FunctionInfo, node: ast.AST, name: str) -> Tuple[bool, str]:
    fn = g.node
    # (a) x is the loop variable of a comprehension over itertools.product(...) → tuple of >= 1 operands when the
    #     product has >= 1 argument lists (operator arity >= 1) or a validated positive repeat count
    for comp in ast.walk(fn):
        if isinstance(comp, (ast.GeneratorExp, ast.ListComp)):
            for gen in comp.generators:
                if isinstance(gen.target, ast.Name) and gen.target.id == name and isinstance(gen.iter, ast.Call) \
                        and (dotted(gen.iter.func) or "").endswith("product") and id(node) in {id(x) for x in ast.walk(comp)}:
                    return True, ""
    # (b) dominated by a guard that rejects the empty operand:  if not x: raise ...   /   len(x) == 1 required
    cfg_owner = g
    st = P.enclosing_stmt(node)
    # climb to the function owning the statement
    owner = P.enclosing_function(node)
    if owner is None:
        return False, "no owner"
    if isinstance(owner.node, ast.Lambda):
        return False, f"`{name}` may be an empty term set (e.g. `a - a`) and nothing rejects it before the partial operation"
    cfg = CFG(owner.node)
    guards = []
    for s in cfg.stmts():
        if isinstance(s, ast.If):
            t, neg = count_negations(s.test)
            rejects_empty = False
            if isinstance(t, ast.Name) and t.id == name and neg % 2 == 1:
                rejects_empty = True
            if isinstance(t, ast.Compare) and len(t.ops) == 1 and isinstance(t.left, ast.Call) and dotted(t.left.func) == "len" \
                    and t.left.args and isinstance(t.left.args[0], ast.Name) and t.left.args[0].id == name:
                c0 = t.comparators[0]
                if neg % 2 == 0 and ((isinstance(t.ops[0], ast.Eq) and is_const(c0, 0)) or (isinstance(t.ops[0], ast.NotEq) and is_const(c0, 1))
                                     or (isinstance(t.ops[0], ast.Lt) and is_const(c0, 1))):
                    rejects_empty = True
            if rejects_empty and any(isinstance(x, ast.Raise) for x in s.body) and cfg.dominates(s, st):
                guards.append(s)
    if guards:
        return True, ""
    # (c) the partial operation itself sits in the true branch of a conditional on `len(x) == 1` / `x`
    n, child = P.parent(node), node
    while n is not None and n is not owner.node:
        if isinstance(n, ast.IfExp):
            t, neg = count_negations(n.test)
            pos = None
            if isinstance(t, ast.Name) and t.id == name:
                pos = neg % 2 == 0
            if isinstance(t, ast.Compare) and len(t.ops) == 1 and isinstance(t.left, ast.Call) and dotted(t.left.func) == "len" \
                    and t.left.args and norm(t.left.args[0]) == name and isinstance(t.ops[0], (ast.Eq, ast.GtE, ast.Gt)) \
                    and isinstance(t.comparators[0], ast.Constant) and t.comparators[0].value >= (0 if isinstance(t.ops[0], ast.Gt) else 1):
                pos = neg % 2 == 0
            if pos is True and child is n.body:
                return True, ""
            if pos is False and child is n.orelse:
                return True, ""
        child, n = n, P.parent(n)
    # (c') … or of an `if` statement on the same tests (the statement spelling of the conditional expression)
    from ..util import guards_of
    gs = set(guards_of(P, node))
    if gs & {(name, True), (f"len({name}) == 1", True), (f"len({name}) > 0", True), (f"len({name}) >= 1", True), (f"len({name}) == 0", False),
             (f"len({name}) < 1", False)}:
        return True, ""
    return False, (f"`{name}` may be an empty term set (the algebra has Empty/Diff producing operators, e.g. `(a-a)`), and no dominating "
                   f"guard raises a parse error before the partial operation (it would escape as StopIteration/TypeError)")


# ----------------------------------------------------------------------------- R4
def r4(ctx, rule="C14.R4"):
    P = ctx.project
    opsf, recs = c01.records(P)
    # hard reads: context["..."] in operator implementations taking `context`
    reads = []
    for g in P.functions.values():
        if g.parent is not None and g.qualname.startswith(opsf.qualname + ".<locals>") and "context" in param_names(g.node):
            for n in ast.walk(g.node):
                if isinstance(n, ast.Subscript) and isinstance(n.value, ast.Name) and n.value.id == "context" \
                        and isinstance(n.slice, ast.Constant) and isinstance(n.ctx, ast.Load):
                    # soft if dominated by `"key" in context`
                    reads.append((g, n, n.slice.value))
    ctx.floor(rule, len(reads), 1, "hard reads of parser context keys")
    gt = P.func(c01.DFP + ".get_tokens_from_formula")
    for g, n, key in reads:
        st = P.enclosing_stmt(n)
        # a read guarded by a membership test on the same key is soft
        guarded = False
        p = P.parent(st)
        while p is not None and p is not g.node:
            if isinstance(p, ast.If) and norm(p.test) == f"'{key}' in context":
                guarded = True
            p = P.parent(p)
        if guarded:
            continue
        for flag in (True, False):
            ctx.look()
            def prune(test, _flag=flag):
                t, neg = count_negations(test)
                if norm(t) == "self.include_intercept":
                    return _flag ^ (neg % 2 == 1)
                return None
            cfg = CFG(gt.node, prune=prune)
            def writes(st_):
                return any(isinstance(t, ast.Subscript) and isinstance(t.value, ast.Name) and t.value.id == "context"
                           and isinstance(t.slice, ast.Constant) and t.slice.value == key
                           for t in (st_.targets if isinstance(st_, ast.Assign) else []))
            w = cfg.must_pass(writes)
            ctx.check(w is None, rule, f"context key {key!r} (read by `{g.name}`) is written on every path with include_intercept={flag}",
                      gt.where, ctx.construct(gt, text=f"context[{key!r}] include_intercept={flag}"),
                      f"`{g.name}` reads context[{key!r}] unconditionally but get_tokens_from_formula has a path that never writes it "
                      f"when include_intercept={flag} (KeyError escapes from `.`)", w)
    # and the base parser (which never writes context keys) is not combined with the `.` operator by default:
    # DefaultFormulaParser overrides get_tokens_from_formula (checked by anchor resolution above)


# ----------------------------------------------------------------------------- R5
def r5(ctx):
    P = ctx.project
    f = P.func(T2A)
    # sites where a candidate operator is pushed: through the helper, or written out
    stack_calls = [c for c in walk_no_nested(f.node) if isinstance(c, ast.Call) and (
        (dotted(c.func) == "stack_operator" and c.args and norm(c.args[0]) == "operator")
        or (norm(c.func) == "operator_stack.append" and c.args and isinstance(c.args[0], ast.Call) and dotted(c.args[0].func) == "OrderedOperator"
            and c.args[0].args and norm(c.args[0].args[0]) == "operator"))]
    ctx.floor("C14.R5", len(stack_calls), 1, "stack_operator(operator, …) calls")
    for c in stack_calls:
        ctx.look()
        st = P.enclosing_stmt(c)
        # the innermost loop body containing the call: an earlier `if operator.disabled: ...; continue` must precede it
        lp = P.parent(st)
        while lp is not None and not isinstance(lp, ast.For):
            lp = P.parent(lp)
        ok = False
        if lp is not None:
            for s in lp.body:
                if id(c) in {id(x) for x in ast.walk(s)}:
                    break
                if isinstance(s, ast.If) and norm(s.test) == "operator.disabled" and isinstance(s.body[-1], ast.Continue):
                    ok = True
        ctx.check(ok, "C14.R5", "a disabled operator is skipped before it can be stacked", f.module.line(c), ctx.construct(f, c),
                  "`stack_operator(operator, …)` is not preceded, in the candidate loop, by `if operator.disabled: …; continue`")
    # when no candidate was stacked the for-else must raise
    fors = [n for n in ast.walk(f.node) if isinstance(n, ast.For) and norm(n.iter) == "operators"]
    for lp in fors:
        ctx.look()
        ok = bool(lp.orelse) and isinstance(lp.orelse[-1], ast.Raise)
        if not ok and not lp.orelse:
            # the flag spelling: a local set only on the way to `break`, tested right after the loop — `if not <flag>: raise`
            from ..sym import _break_flags
            flags = _break_flags(lp)
            blk = None
            par = P.parent(lp)
            for fld in ("body", "orelse", "finalbody"):
                b_ = getattr(par, fld, None)
                if isinstance(b_, list) and any(x is lp for x in b_):
                    blk = b_
            nxt = blk[blk.index(lp) + 1] if blk is not None and blk.index(lp) + 1 < len(blk) else None
            for fl, vals in flags.items():
                if all(is_const(v, True) for v in vals) and isinstance(nxt, ast.If) and norm(nxt.test) == f"not {fl}" and nxt.body and isinstance(nxt.body[-1], ast.Raise):
                    pre = [x for x in blk[:blk.index(lp)] if isinstance(x, ast.Assign) and norm(x) == f"{fl} = False"]
                    ok = bool(pre)
        ctx.check(ok, "C14.R5", "when every candidate operator is rejected or disabled the token is rejected", f.module.line(lp),
                  ctx.construct(f, text="for operator in operators: … else"), "the candidate loop must end in `else: raise`")
    # flags gate exactly their records, with the right polarity
    opsf, recs = c01.records(P)
    FLAGS = c01.DFP + ".FeatureFlags"
    fl = P.cls(FLAGS)
    base_flags = [k for k, v in fl.assigns.items() if isinstance(v, ast.Call) and dotted(v.func) == "auto"]
    ctx.floor("C14.R5", len(base_flags), 3, "base feature flags")
    want = {"TWOSIDED": lambda r: r.symbol == "~" and r.arity == 2 and not r.is_multistage,
            "MULTISTAGE": lambda r: r.is_multistage,
            "MULTIPART": lambda r: r.symbol == "|"}
    for r in recs:
        ctx.look()
        gated_by = None
        if r.disabled is not None:
            t = r.disabled
            if isinstance(t, ast.Compare) and len(t.ops) == 1 and norm(t.comparators[0]) == "self.feature_flags":
                q = P.resolve_expr(opsf.module, t.left, opsf) or ""
                if q.startswith(FLAGS + "."):
                    gated_by = (q.split(".")[-1], isinstance(t.ops[0], ast.NotIn))
            if gated_by is None:
                ctx.fail("C14.R5", f"`disabled` of record {r.ident} is a feature-flag test", f"{opsf.module.relpath}:{r.line}",
                         ctx.construct(opsf, text=f"disabled {r.symbol}/{r.arity}"), f"unrecognised `disabled` expression `{norm(t)}`")
                continue
        expected = [k for k, pred in want.items() if pred(r)]
        if expected:
            ok = gated_by is not None and gated_by[0] == expected[0] and gated_by[1] is True
            ctx.check(ok, "C14.R5", f"record {r.ident} is disabled exactly when {expected[0]} is not enabled", f"{opsf.module.relpath}:{r.line}",
                      ctx.construct(opsf, text=f"disabled {r.symbol}/{r.arity}"),
                      f"expected `disabled={expected[0]} not in self.feature_flags`; found `{norm(r.disabled) if r.disabled is not None else None}`")
        else:
            ctx.check(gated_by is None, "C14.R5", f"record {r.ident} is not gated by a feature flag", f"{opsf.module.relpath}:{r.line}",
                      ctx.construct(opsf, text=f"disabled {r.symbol}/{r.arity}"), f"unexpectedly gated by {gated_by}")
    for k in base_flags:
        if k not in want:
            ctx.fail("C14.R5", f"feature flag {k} gates some operator record", fl.where, ctx.construct(FLAGS, text=k),
                     "a feature flag that gates nothing (or an unknown flag) was added")
    # the resolver's flags are the parser's flags
    post = P.method(c01.DFP, "__post_init__")
    ok = any(norm(c) == "self.operator_resolver.set_feature_flags(self.feature_flags)" for c in ast.walk(post.node) if isinstance(c, ast.Call))
    ctx.check(ok, "C14.R5", "the parser pushes its feature flags into the operator resolver", post.where, ctx.construct(post, text="propagate flags"),
              "DefaultFormulaParser.__post_init__ must call operator_resolver.set_feature_flags(self.feature_flags)")
    # the configuration survives copying / pickling: __getstate__ of the resolver drops only its caches
    gs = P.method("formulaic.parser.types.operator_resolver.OperatorResolver", "__getstate__")
    cached = {n for c in [P.cls("formulaic.parser.types.operator_resolver.OperatorResolver")] + P.subclasses("formulaic.parser.types.operator_resolver.OperatorResolver")
              for n, m in c.methods.items() if any("cached_property" in d for d in m.decorators())}
    r_ = returns_of(gs.node)
    v_ = r_[0].value if r_ else None
    ok = isinstance(v_, ast.DictComp) and norm(v_.generators[0].iter) == "self.__dict__.items()" and len(v_.generators[0].ifs) == 1
    dropped = set()
    if ok:
        t_ = v_.generators[0].ifs[0]
        kname = norm(v_.generators[0].target.elts[0]) if isinstance(v_.generators[0].target, ast.Tuple) else "?"
        if isinstance(t_, ast.Compare) and norm(t_.left) == kname and isinstance(t_.ops[0], (ast.NotEq, ast.NotIn)):
            c0 = t_.comparators[0]
            dropped = {c0.value} if isinstance(c0, ast.Constant) else {e.value for e in getattr(c0, "elts", []) if isinstance(e, ast.Constant)}
    ctx.check(ok and dropped == cached, "C14.R5", "copying / pickling an operator resolver keeps its feature flags (only cached tables are dropped)", gs.where,
              ctx.construct(gs, text="getstate"),
              f"__getstate__ returns `{norm(v_) if v_ is not None else None}` (drops {sorted(dropped) if ok else 'everything'}; caches are {sorted(cached)}): a copied or unpickled "
              f"parser falls back to the default flags and accepts operators it was configured to reject")
    sf = P.method(c01.RESOLVER, "set_feature_flags")
    ok = any(isinstance(n, ast.Delete) and "operator_table" in norm(n) for n in ast.walk(sf.node))
    ctx.check(ok, "C14.R5", "changing the flags invalidates the cached operator table", sf.where, ctx.construct(sf, text="invalidate cache"),
              "set_feature_flags must drop the cached operator_table, otherwise previously enabled operators stay enabled")


# ----------------------------------------------------------------------------- R6
def r6(ctx):
    P = ctx.project
    cg, prev = parse_closure(P)
    sites = []
    for q in prev:
        f = P.functions[q]
        for c in walk_no_nested(f.node):
            if isinstance(c, ast.Call) and (P.resolve_in(f, c.func) or "") in ("ast.parse", "ast.literal_eval"):
                sites.append((f, c))
    ctx.floor("C14.R6", len(sites), 2, "ast.parse / ast.literal_eval call sites on the parse path")
    for f, c in sites:
        ctx.look()
        which = (P.resolve_in(f, c.func) or "").split(".")[-1]
        inst = f"{which} in {f.qualname.replace('formulaic.', '')} is fed Python-fragment text or is enclosed by a converting handler"
        # enclosed by a handler catching SyntaxError?
        enclosed = False
        n, child = P.parent(c), c
        while n is not None and not isinstance(n, (ast.FunctionDef, ast.Lambda)):
            if isinstance(n, ast.Try) and any(id(child) == id(s) or id(child) in {id(x) for x in ast.walk(s)} for s in n.body):
                for h in n.handlers:
                    names = _handler_names(h)
                    if not names or names & {"SyntaxError", "Exception", "BaseException"}:
                        enclosed = True
            child, n = n, P.parent(n)
        if enclosed:
            ctx.ok("C14.R6", inst, f.module.line(c), "enclosed by a handler")
            continue
        # provenance: format_expr / get_expression_variables are fed PYTHON-token text
        allowed = f.qualname in ("formulaic.utils.code.format_expr", "formulaic.utils.variables.get_expression_variables")
        ctx.check(allowed, "C14.R6", inst, f.module.line(c), ctx.construct(f, c),
                  f"`{norm(c)[:80]}` can raise a bare SyntaxError/ValueError on text that is not an embedded Python fragment "
                  f"(e.g. VALUE-token text such as `1.5.2` or `01`)")
    # format_expr is only reached from sanitize_python_code (PYTHON tokens)
    callers = sorted(src for (src, dst) in cg.sites if dst == "formulaic.utils.code.format_expr" and src in prev)
    ctx.check(callers == ["formulaic.parser.algos.sanitize_tokens.sanitize_python_code"], "C14.R6",
              "format_expr is only reached through sanitize_python_code on the parse path", "formulaic/utils/code.py",
              "formulaic.utils.code.format_expr:callers", f"callers on the parse path: {callers}")
    st = P.func("formulaic.parser.algos.sanitize_tokens.sanitize_tokens")
    ok = any(isinstance(n, ast.If) and norm(n.test) == "token.kind is Token.Kind.PYTHON" and "sanitize_python_code" in norm(n.body[0])
             for n in ast.walk(st.node))
    ctx.check(ok, "C14.R6", "only PYTHON-kind tokens are handed to the Python normaliser", st.where, ctx.construct(st, text="python only"),
              "sanitize_tokens must call sanitize_python_code only under `token.kind is Token.Kind.PYTHON`")


# ----------------------------------------------------------------------------- R7
def r7(ctx):
    P = ctx.project
    f = P.func("formulaic.utils.code.sanitize_variable_name")
    subs = [n for n in ast.walk(f.node) if isinstance(n, ast.Subscript) and is_const(n.slice, 0) and isinstance(n.value, ast.Name)]
    ctx.floor("C14.R7", len(subs), 1, "first-character subscripts in sanitize_variable_name")
    for s in subs:
        ctx.look()
        name = s.value.id
        ok = False
        par = P.parent(s)
        # guarded in the same boolean expression: `not name or name[0]...` / `name and name[0]...`
        n, child = par, s
        while n is not None and not isinstance(n, ast.stmt):
            if isinstance(n, ast.BoolOp):
                idx = next(i for i, v in enumerate(n.values) if id(child) in {id(x) for x in ast.walk(v)})
                for v in n.values[:idx]:
                    t, neg = count_negations(v)
                    if isinstance(t, ast.Name) and t.id == name:
                        if (isinstance(n.op, ast.Or) and neg % 2 == 1) or (isinstance(n.op, ast.And) and neg % 2 == 0):
                            ok = True
            child, n = n, P.parent(n)
        # or dominated by `if not name: ...return/raise`
        st = P.enclosing_stmt(s)
        cfg = CFG(f.node)
        for g in cfg.stmts():
            if isinstance(g, ast.If):
                t, neg = count_negations(g.test)
                if isinstance(t, ast.Name) and t.id == name and neg % 2 == 1 and isinstance(g.body[-1], (ast.Return, ast.Raise)) and cfg.dominates(g, st):
                    ok = True
        ctx.check(ok, "C14.R7", f"`{name}[0]` is guarded against the empty string", f.module.line(s), ctx.construct(f, text=f"{name}[0]"),
                  f"`{name}` is empty for an empty back-quoted name (``f(``)``); `{name}[0]` raises IndexError")



# ----------------------------------------------------------------------------- R8
R8_EXEMPT = {
    ("utils.structured.Structured._merge", "values[0]"): "values lists are created by appending (defaultdict(list).append): never empty",
}


def _evidence_nonempty(test: ast.AST, name: str, need: int = 1):
    """True if ``test`` being true implies len(name) >= need; False if it implies emptiness; None otherwise."""
    t, neg = count_negations(test)
    val = None
    if isinstance(t, ast.Name) and t.id == name and need <= 1:
        val = True
    elif isinstance(t, ast.Compare) and len(t.ops) == 1 and isinstance(t.left, ast.Call) and dotted(t.left.func) == "len" and t.left.args \
            and isinstance(t.left.args[0], ast.Name) and t.left.args[0].id == name and isinstance(t.comparators[0], ast.Constant) and isinstance(t.comparators[0].value, int):
        k, op = t.comparators[0].value, t.ops[0]
        if isinstance(op, ast.Gt) and k + 1 >= need:
            val = True
        elif isinstance(op, ast.GtE) and k >= need:
            val = True
        elif isinstance(op, ast.Eq) and k >= need:
            val = True
        elif isinstance(op, ast.Eq) and k == 0:
            val = False
        elif isinstance(op, (ast.Lt,)) and k <= need:
            val = False
    if val is None:
        return None
    return val if neg % 2 == 0 else (not val if need <= 1 or val is False else None)


def _conjuncts(test: ast.AST):
    return test.values if isinstance(test, ast.BoolOp) and isinstance(test.op, ast.And) else [test]


def _disjuncts(test: ast.AST):
    return test.values if isinstance(test, ast.BoolOp) and isinstance(test.op, ast.Or) else [test]


def nonempty_established(P: Project, f: FunctionInfo, site: ast.AST, name: str, need: int = 1) -> bool:
    """Is `len(name) >= need` established where ``site`` is evaluated?"""
    # (a) earlier operand of the same boolean expression
    n, child = P.parent(site), site
    while n is not None and not isinstance(n, ast.stmt):
        if isinstance(n, ast.BoolOp):
            idx = next(i for i, v in enumerate(n.values) if v is child or id(child) in {id(x) for x in ast.walk(v)})
            for v in n.values[:idx]:
                e = _evidence_nonempty(v, name, need)
                if isinstance(n.op, ast.And) and e is True:
                    return True
                if isinstance(n.op, ast.Or) and e is False:
                    return True
        if isinstance(n, ast.IfExp) and child is not n.test:
            e = [_evidence_nonempty(c, name, need) for c in _conjuncts(n.test)]
            if child is n.body and True in e:
                return True
            if child is n.orelse and any(_evidence_nonempty(d, name, need) is False for d in _disjuncts(n.test)) and len(_disjuncts(n.test)) == 1:
                return True
        child, n = n, P.parent(n)
    st = n
    # (b) enclosing if / while whose test implies it (no pop of the name in between is assumed within one test-body step)
    m, child = P.parent(st), st
    inner = st
    while m is not None and not isinstance(m, (ast.FunctionDef, ast.AsyncFunctionDef, ast.Lambda)):
        if isinstance(m, (ast.If, ast.While)):
            in_body = any(child is x for x in m.body)
            in_else = any(child is x for x in m.orelse)
            if in_body and any(_evidence_nonempty(c, name, need) is True for c in _conjuncts(m.test)):
                if not _mutated_between(m.body, inner, name):
                    return True
            if in_else and len(_disjuncts(m.test)) >= 1 and any(_evidence_nonempty(d, name, need) is False for d in _disjuncts(m.test)) and len(_conjuncts(m.test)) == 1:
                return True
        child, m = m, P.parent(m)
    # (c) dominated by an exit guard:  if not X [or ...]: return/raise/continue/break
    owner = P.enclosing_function(site)
    if owner is None or isinstance(owner.node, ast.Lambda):
        return False
    cfg = CFG(owner.node)
    for g in cfg.stmts():
        if isinstance(g, ast.If) and g is not st and isinstance(g.body[-1], (ast.Return, ast.Raise, ast.Continue, ast.Break)) and not g.orelse:
            if any(_evidence_nonempty(d, name, need) is False for d in _disjuncts(g.test)) and cfg.dominates(g, st):
                # same block, no mutation in between
                par = P.parent(g)
                blk = getattr(par, "body", [])
                for fld in ("body", "orelse", "finalbody"):
                    if any(x is g for x in getattr(par, fld, []) or []):
                        blk = getattr(par, fld)
                if any(x is st or id(st) in {id(y) for y in ast.walk(x)} for x in blk) and not _mutated_between(blk, st, name, after=g):
                    return True
    return False


def _mutated_between(block, upto: ast.stmt, name: str, after: Optional[ast.stmt] = None) -> bool:
    started = after is None
    for x in block:
        if x is after:
            started = True
            continue
        if x is upto or id(upto) in {id(y) for y in ast.walk(x)}:
            return False
        if started:
            for c in ast.walk(x):
                if isinstance(c, ast.Call) and isinstance(c.func, ast.Attribute) and isinstance(c.func.value, ast.Name) and c.func.value.id == name and c.func.attr in ("pop", "clear", "remove"):
                    return True
    return False


def r8(ctx):
    """Partial operations on local sequences anywhere on the parse path: X.pop(), X[0], X[-1], X[1] need an established length."""
    P = ctx.project
    cg, prev = parse_closure(P)
    n = 0
    for q in sorted(prev):
        f = P.functions[q]
        if isinstance(f.node, ast.Lambda):
            continue
        for x in walk_no_nested(f.node):
            name = need = what = None
            if isinstance(x, ast.Call) and isinstance(x.func, ast.Attribute) and x.func.attr == "pop" and isinstance(x.func.value, ast.Name) \
                    and (not x.args or (len(x.args) == 1 and isinstance(x.args[0], (ast.Constant, ast.UnaryOp)) and norm(x.args[0]) in ("0", "-1"))):
                name, need, what = x.func.value.id, 1, f"{x.func.value.id}.pop()"
            elif isinstance(x, ast.Subscript) and isinstance(x.ctx, ast.Load) and isinstance(x.value, ast.Name) and norm(x.slice) in ("0", "-1", "1"):
                name, need, what = x.value.id, (2 if norm(x.slice) == "1" else 1), norm(x)
            if name is None:
                continue
            # only local sequences (assigned a list display / list() / [] in this function or an enclosing one) — not parameters of unknown type
            if not _is_local_sequence(P, f, name):
                continue
            n += 1
            ctx.look()
            inst = f"{q.replace('formulaic.', '')}: `{what}` is applied to a sequence known to be long enough"
            if any(q.endswith(k[0]) and what == k[1] for k in R8_EXEMPT):
                ctx.ok("C14.R8", inst + " [argued]", f.module.line(x), trivial=True)
                continue
            ok = nonempty_established(P, f, x, name, need)
            ctx.check(ok, "C14.R8", inst, f.module.line(x), ctx.construct(f, text=f"partial {what} @ {stmt_text(P.enclosing_stmt(x), 60)}"),
                      f"`{what}` can be reached with `{name}` empty (no dominating emptiness test): IndexError would escape parsing, e.g. for a stray closing bracket")
    ctx.floor("C14.R8", n, 15, "partial operations on local sequences")


def _is_local_sequence(P: Project, f: FunctionInfo, name: str) -> bool:
    g = f
    while g is not None:
        for nm, v, _ in assignments(g.node):
            if nm == name and (isinstance(v, (ast.List, ast.ListComp)) or (isinstance(v, ast.Call) and dotted(v.func) in ("list", "collections.deque", "deque"))):
                return True
        for st in walk_no_nested(g.node):
            if isinstance(st, ast.AnnAssign) and isinstance(st.target, ast.Name) and st.target.id == name and norm(st.annotation).startswith(("list", "List")):
                return True
        g = g.parent
    return False


# ----------------------------------------------------------------------------- R9
def r9(ctx):
    """The token handed to exc_for_token is never None: an Optional `.token` attribute needs an `or Token()` fallback."""
    P = ctx.project
    cg, prev = parse_closure(P)
    n = 0
    for q in sorted(prev):
        f = P.functions[q]
        for c in walk_no_nested(f.node):
            if not (isinstance(c, ast.Call) and dotted(c.func) in ("exc_for_token",) and c.args):
                continue
            n += 1
            ctx.look()
            a = c.args[0]
            inst = f"{q.replace('formulaic.', '')}: exc_for_token receives a token, never None"
            ctx.check(not _may_be_none(a), "C14.R9", inst, f.module.line(c), ctx.construct(f, text=f"exc_for_token({norm(a)[:60]})"),
                      f"`{norm(a)[:100]}` can be None (Factor.token is optional — factors created by `.`/multistage have none): exc_for_token would raise "
                      f"AttributeError instead of the parse error")
    ctx.floor("C14.R9", n, 10, "exc_for_token call sites")


def _may_be_none(a: ast.AST) -> bool:
    if isinstance(a, ast.BoolOp) and isinstance(a.op, ast.Or):
        last = a.values[-1]
        return _may_be_none(last)
    if isinstance(a, ast.IfExp):
        return _may_be_none(a.body) or _may_be_none(a.orelse)
    if isinstance(a, ast.Constant):
        return a.value is None
    if isinstance(a, ast.Attribute) and a.attr == "token":
        base = norm(a.value)
        # Factor.token is Optional; OrderedOperator.token / loop tokens are real tokens
        return "factor" in base or ".factors[" in base
    return False



def r10(ctx):
    """The tokenizer never emits an empty token: every `yield token` is under a truthiness test of the token
    (an empty operator token would be indexed by the operator merger / resolver)."""
    P = ctx.project
    f = P.func("formulaic.parser.algos.tokenize.tokenize")
    ys = [n for n in ast.walk(f.node) if isinstance(n, ast.Yield) and isinstance(n.value, ast.Name) and n.value.id == "token"]
    ctx.floor("C14.R10", len(ys), 8, "`yield token` sites in tokenize")
    for y in ys:
        ctx.look()
        st = P.enclosing_stmt(y)
        # the condition under which the yield is reached (nested ifs and preceding early exits alike) must imply that the token
        # is truthy: every conjunct mentioning only `token` itself is collected, and one of them must be the bare truthiness test
        from ..util import reach_condition
        rc = reach_condition(P, st, mention="token")
        conj = rc.values if isinstance(rc, ast.BoolOp) and isinstance(rc.op, ast.And) else ([rc] if rc is not None else [])
        flat = []
        for c in conj:
            c = sym.as_test(c)
            while isinstance(c, ast.UnaryOp) and isinstance(c.op, ast.Not) and isinstance(c.operand, ast.UnaryOp) and isinstance(c.operand.op, ast.Not):
                c = c.operand.operand
            flat += list(c.values) if isinstance(c, ast.BoolOp) and isinstance(c.op, ast.And) else [c]
        ok = any(norm(c) == "token" for c in flat)
        ctx.check(ok, "C14.R10", "a token is only emitted when it has text", f.module.line(y), ctx.construct(f, text=f"yield token @ {stmt_text(P.parent(st), 50) if P.parent(st) is not None else ''}"),
                  "`yield token` is not guarded by `if token`: an empty token (e.g. from `%%` or `{}`) reaches the parser and `token.token[0]` raises IndexError")


def r11(ctx):
    """(= C01.R9 closer / C01.R7 nested-parser plumbing) brackets must match by kind; keyword parts of a structured formula are parsed with the
    caller's (possibly restricted) parser, so disabled operators stay rejected there too."""
    from .shared import relabel
    relabel(ctx, "C14.R11", lambda c: c01.closer_matches_opener(c, "C14.R11"), c01.r7)


def _r11_parts():
    from .shared import relabel
    from .shared import relabel_parts
    return relabel_parts("C14.R11", lambda c: c01.closer_matches_opener(c, "C14.R11"), c01.r7)


r11.parts = _r11_parts


def f1(ctx):
    """generic same-name parameter forwarding over this property's modules (see shared.generic_forwarding)."""
    from . import shared as _sh
    _sh.generic_forwarding(ctx, "C14.F1", _sh.PROPERTY_MODULES["C14"])


RULES = [("C14.R1", r1), ("C14.R2", r2), ("C14.R3", r3), ("C14.R4", r4), ("C14.R5", r5), ("C14.R6", r6), ("C14.R7", r7), ("C14.R8", r8), ("C14.R9", r9), ("C14.R10", r10), ("C14.R11", r11), ("C14.F1", f1)]
