"""C13 — scaling, polynomial and elementwise transforms (name ↔ function table; state discipline)."""
from __future__ import annotations

import ast
import re
from typing import Optional

from ..core import AnalysisError, FunctionInfo, Project, dotted, is_const, kwarg, norm, param_names, walk_no_nested
from ..util import canon, returns_of
from . import c04

EXPLANATION = (
    "Static rules: (R1) TABLE — in the preloaded TRANSFORMS namespace an entry named like a numpy elementwise function (log, "
    "log2, log10, log1p, exp, exp2, expm1, sqrt, abs) is bound to numpy.<same name>; an entry exp<k> / log<k> with no numpy "
    "counterpart is a function whose body is base-k exponentiation / logarithm with k as the BASE (k ** x, numpy.power(k, x); "
    "numpy.log(x)/numpy.log(k)), i.e. the inverse of its partner in the same table; (R2) STATE — scale/center/standardize/poly "
    "obey the replay rules of C04 (re-evaluated here for these four), center delegates to scale with scale=False and "
    "standardize with its own flags, both with the same state dict; the statistics are recorded from the training data in the "
    "documented form (mean over rows; root of the sum of squares of the centred data over n − ddof) and applied as "
    "subtract-then-divide; poly propagates nulls row-wise. Zero mean / unit variance / orthonormality are values and are NOT decided."
)
ASSUMPTIONS = ["numpy.<name> computes the function it is named after"]

NUMPY_ELEMENTWISE = {"log", "log2", "log10", "log1p", "exp", "exp2", "expm1", "sqrt", "abs", "sin", "cos", "tan", "floor", "ceil"}


def transforms_table(P: Project):
    m = P.module("formulaic.transforms")
    t = m.assigns.get("TRANSFORMS")
    if not isinstance(t, ast.Dict):
        raise AnalysisError("C13.R1: TRANSFORMS is no longer a dict literal")
    out = {}
    for k, v in zip(t.keys, t.values):
        if k is not None and isinstance(k, ast.Constant):
            out[k.value] = v
    return m, out


def _is_base_k_exp(lam: ast.AST, k: int) -> bool:
    if not isinstance(lam, ast.Lambda) or len(lam.args.args) != 1:
        return False
    x = lam.args.args[0].arg
    b = lam.body
    def is_k(e):
        # the base must be a FLOAT literal: numpy refuses integer bases with negative integer exponents and overflows int64 beyond 10**18
        return isinstance(e, ast.Constant) and isinstance(e.value, float) and e.value == float(k)
    if isinstance(b, ast.BinOp) and isinstance(b.op, ast.Pow) and is_k(b.left) and norm(b.right) == x:
        return True
    if isinstance(b, ast.Call) and (dotted(b.func) or "").endswith("power") and len(b.args) == 2 and is_k(b.args[0]) and norm(b.args[1]) == x:
        return True
    # exp(x * log(k))
    if isinstance(b, ast.Call) and (dotted(b.func) or "").endswith(".exp") and len(b.args) == 1 and isinstance(b.args[0], ast.BinOp) and isinstance(b.args[0].op, ast.Mult):
        parts = {norm(b.args[0].left), norm(b.args[0].right)}
        return x in parts and any(re.fullmatch(r"(numpy|np|math)\.log\(%s(\.0)?\)" % k, p) for p in parts)
    return False


def _is_base_k_log(lam: ast.AST, k: int) -> bool:
    if not isinstance(lam, ast.Lambda) or len(lam.args.args) != 1:
        return False
    x = lam.args.args[0].arg
    b = lam.body
    if isinstance(b, ast.BinOp) and isinstance(b.op, ast.Div):
        return re.fullmatch(r"(numpy|np|math)\.log\(%s\)" % x, norm(b.left)) is not None and re.fullmatch(r"(numpy|np|math)\.log\(%s(\.0)?\)" % k, norm(b.right)) is not None
    return False


def r1(ctx):
    P = ctx.project
    m, tab = transforms_table(P)
    n = 0
    for name, v in sorted(tab.items()):
        mm = re.fullmatch(r"(exp|log)(\d+)?", name)
        if name not in NUMPY_ELEMENTWISE and not mm:
            continue
        n += 1
        ctx.look()
        inst = f"TRANSFORMS[{name!r}] computes the function its name denotes"
        q = P.resolve_expr(m, v) if isinstance(v, (ast.Name, ast.Attribute)) else None
        if name in NUMPY_ELEMENTWISE:
            ctx.check(q == f"numpy.{name}", "C13.R1", inst, m.line(v), ctx.construct(m, text=f"TRANSFORMS[{name}]"),
                      f"`{name}` is bound to `{norm(v)[:60]}` instead of numpy.{name}")
            continue
        kind, k = mm.group(1), int(mm.group(2))
        ok = _is_base_k_exp(v, k) if kind == "exp" else _is_base_k_log(v, k)
        ctx.check(ok or q == f"numpy.{name}", "C13.R1", inst, m.line(v), ctx.construct(m, text=f"TRANSFORMS[{name}]"),
                  f"`{name}` is `{norm(v)[:70]}`; expected base-{k} {'exponentiation (k ** x)' if kind == 'exp' else 'logarithm'} — the inverse of "
                  f"`{'log' if kind == 'exp' else 'exp'}{k}` in the same table")
    ctx.floor("C13.R1", n, 6, "elementwise entries of TRANSFORMS")
    # partners exist
    for k in ("2", "10"):
        ctx.check(("exp" + k in tab) == ("log" + k in tab), "C13.R1", f"exp{k} and log{k} are both preloaded", "formulaic/transforms/__init__.py",
                  f"formulaic.transforms:partners {k}", "an inverse pair is incomplete")


def r2(ctx):
    P = ctx.project
    # replay discipline for the four transforms of this property
    for q in ("formulaic.transforms.scale.scale", "formulaic.transforms.scale.center", "formulaic.transforms.patsy_compat.standardize", "formulaic.transforms.poly.poly"):
        f = P.func(q)
        ctx.look()
        sl = c04.ReplaySlice(P, f, "_state")
        bad = [(st, k) for st, k in sl.state_stores() if not sl.idempotent(st)]
        ctx.check(not bad, "C13.R2", f"{f.name}: the recorded statistics are applied unchanged to new data", f.where, ctx.construct(f, text="replay writes"),
                  f"state is rewritten on replay: {[k for _, k in bad]}")
    sc = P.func("formulaic.transforms.scale.scale")
    t = norm(sc.node)
    checks = [
        ("the centre is the mean over rows of the training data", "_state['center'] = numpy.mean(data, axis=0)"),
        ("the recorded centre is subtracted", "data = data - _state['center']"),
        ("the scale is the root of the sum of squares over n − ddof", "_state['scale'] = numpy.sqrt(numpy.sum(data ** 2, axis=0) / (data.shape[0] - ddof))"),
        ("the recorded scale divides", "data = data / _state['scale']"),
        ("the recorded ddof is reused", "ddof = _state['ddof']"),
    ]
    for what, frag in checks:
        ctx.look()
        ctx.check(frag in t, "C13.R2", f"scale: {what}", sc.where, ctx.construct(sc, text=what), f"expected `{frag}`")
    ok = t.index("data = data - _state['center']") < t.index("_state['scale'] = numpy.sqrt") if all(x in t for x in ("data = data - _state['center']", "_state['scale'] = numpy.sqrt")) else False
    ctx.check(ok, "C13.R2", "scale: the data is centred before the scale is estimated", sc.where, ctx.construct(sc, text="centre before scale"),
              "the standard deviation must be computed from the centred data")
    ce = P.func("formulaic.transforms.scale.center")
    r = returns_of(ce.node)
    ctx.check(bool(r) and norm(r[0].value) == "scale(data, scale=False, _state=_state)", "C13.R2", "center = scale(..., scale=False) with the same state", ce.where,
              ctx.construct(ce, text="delegate"), f"center returns `{norm(r[0].value) if r else None}`")
    sd = P.func("formulaic.transforms.patsy_compat.standardize")
    r = returns_of(sd.node)
    ctx.check(bool(r) and norm(r[0].value) == "scale(x, center=center, scale=rescale, ddof=ddof, _state=_state)", "C13.R2",
              "standardize forwards its flags and state to scale", sd.where, ctx.construct(sd, text="delegate"), f"standardize returns `{norm(r[0].value) if r else None}`")
    po = P.func("formulaic.transforms.poly.poly")
    t = norm(po.node)
    for what, frag in (("rows with nulls yield nulls", "out.fill(numpy.nan)"), ("only non-null rows are fitted/evaluated", "nonnull_indices = numpy.flatnonzero(~numpy.isnan(x))"),
                       ("results are written back row-wise", "out[nonnull_indices, :] = P[:, 1:]"), ("the constant column is dropped", "P[:, 0] = 1"),
                       ("recorded recurrence coefficients are reused", "alpha = _state.get('alpha')"),
                       ("three-term recurrence, first order", "P[:, i] = (x - get_alpha(i - 1)) * P[:, i - 1]"),
                       ("three-term recurrence, second order", "P[:, i] -= get_beta(i - 1) * P[:, i - 2]"),
                       ("alpha_k = <x p_k, p_k> / <p_k, p_k>", "alpha[k] = numpy.sum(x * P[:, k] ** 2) / numpy.sum(P[:, k] ** 2)"),
                       ("norm_k = <p_k, p_k>", "norms2[k] = numpy.sum(P[:, k] ** 2)"),
                       ("beta_k = norm_k / norm_{k-1}", "return get_norm(k) / get_norm(k - 1)"),
                       ("every column is divided by the root of its own squared norm", "P /= numpy.array([numpy.sqrt(get_norm(k)) for k in range(0, degree + 1)])")):
        ctx.look()
        ctx.check(frag in t, "C13.R2", f"poly: {what}", po.where, ctx.construct(po, text=what), f"expected `{frag}`")



def r3(ctx):
    """Recorded statistics survive spec operations: update / subset / differentiate only replace what they name (formula, structure);
    the stateful wrapper forwards options per column."""
    P = ctx.project
    c04.wrapper_recursion(ctx, "C13.R3")
    MS = P.cls("formulaic.model_spec.ModelSpec")
    for name in ("subset", "differentiate"):
        m = MS.methods[name]
        for c in ast.walk(m.node):
            if isinstance(c, ast.Call) and norm(c.func) == "self.update":
                ctx.look()
                keys = sorted(k.arg or "**" for k in c.keywords)
                ok = set(keys) <= {"formula", "structure"}
                ctx.check(ok, "C13.R3", f"ModelSpec.{name} keeps the recorded transform / encoder state", m.module.line(c), ctx.construct(m, text="update keys"),
                          f"update(...) replaces {keys}: pruning or replacing `transform_state` loses the recorded statistics of nested transforms (they are re-fitted on new data)")
        bad = [x for x in ast.walk(m.node) if isinstance(x, ast.Attribute) and x.attr in ("transform_state", "encoder_state")]
        ctx.check(not bad, "C13.R3", f"ModelSpec.{name} does not touch the recorded state", m.where, ctx.construct(m, text="state untouched"),
                  f"`{norm(bad[0]) if bad else ''}` is read/rewritten by {name}")



def f1(ctx):
    """generic same-name parameter forwarding over this property's modules (see shared.generic_forwarding)."""
    from . import shared as _sh
    _sh.generic_forwarding(ctx, "C13.F1", _sh.PROPERTY_MODULES["C13"])


RULES = [("C13.R1", r1), ("C13.R2", r2), ("C13.R3", r3), ("C13.F1", f1)]
