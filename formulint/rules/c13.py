"""C13 — scaling, polynomial and elementwise transforms (name ↔ function table; state discipline)."""
from __future__ import annotations

import ast
import re
from typing import Optional

from ..core import at_default, AnalysisError, FunctionInfo, Project, dotted, is_const, kwarg, norm, param_names, walk_no_nested
from ..core import arg_for
from ..util import canon, returns_of
from .. import sym
from . import c04

EXPLANATION = (
    "Static rules: (R1) TABLE — in the preloaded TRANSFORMS namespace an entry named like a numpy elementwise function (log, "
    "log2, log10, log1p, exp, exp2, expm1, sqrt, abs) is bound to numpy.<same name>; an entry exp<k> / log<k> with no numpy "
    "counterpart is a function whose body is base-k exponentiation / logarithm with k as the BASE (k ** x, numpy.power(k, x); "
    "numpy.log(x)/numpy.log(k)), i.e. the inverse of its partner in the same table; (R2) STATE — scale/center/standardize/poly "
    "obey the replay rules of C04 (re-evaluated here for these four), center delegates to scale with scale=False and "
    "standardize with its own flags, both with the same state dict; the statistics are recorded from the training data in the "
    "documented form (mean over rows; root of the sum of squares of the centred data over n − ddof) and applied as "
    "subtract-then-divide; poly propagates nulls row-wise. Zero mean / unit variance / orthonormality are values and are NOT decided."
)
ASSUMPTIONS = ["numpy.<name> computes the function it is named after"]

NUMPY_ELEMENTWISE = {"log", "log2", "log10", "log1p", "exp", "exp2", "expm1", "sqrt", "abs", "sin", "cos", "tan", "floor", "ceil"}


def transforms_table(P: Project):
    m = P.module("formulaic.transforms")
    t = m.assigns.get("TRANSFORMS")
    if not isinstance(t, ast.Dict):
        raise AnalysisError("C13.R1: TRANSFORMS is no longer a dict literal")
    out = {}
    for k, v in zip(t.keys, t.values):
        if k is not None and isinstance(k, ast.Constant):
            out[k.value] = v
    return m, out


def _is_base_k_exp(lam: ast.AST, k: int) -> bool:
    if not isinstance(lam, ast.Lambda) or len(lam.args.args) != 1:
        return False
    x = lam.args.args[0].arg
    b = lam.body
    def is_k(e):
        # the base must be a FLOAT literal: numpy refuses integer bases with negative integer exponents and overflows int64 beyond 10**18
        return isinstance(e, ast.Constant) and isinstance(e.value, float) and e.value == float(k)
    if isinstance(b, ast.BinOp) and isinstance(b.op, ast.Pow) and is_k(b.left) and norm(b.right) == x:
        return True
    if isinstance(b, ast.Call) and (dotted(b.func) or "").endswith("power") and len(b.args) == 2 and is_k(b.args[0]) and norm(b.args[1]) == x:
        return True
    # exp(x * log(k))
    if isinstance(b, ast.Call) and (dotted(b.func) or "").endswith(".exp") and len(b.args) == 1 and isinstance(b.args[0], ast.BinOp) and isinstance(b.args[0].op, ast.Mult):
        parts = {norm(b.args[0].left), norm(b.args[0].right)}
        return x in parts and any(re.fullmatch(r"(numpy|np|math)\.log\(%s(\.0)?\)" % k, p) for p in parts)
    return False


def _is_base_k_log(lam: ast.AST, k: int) -> bool:
    if not isinstance(lam, ast.Lambda) or len(lam.args.args) != 1:
        return False
    x = lam.args.args[0].arg
    b = lam.body
    if isinstance(b, ast.BinOp) and isinstance(b.op, ast.Div):
        return re.fullmatch(r"(numpy|np|math)\.log\(%s\)" % x, norm(b.left)) is not None and re.fullmatch(r"(numpy|np|math)\.log\(%s(\.0)?\)" % k, norm(b.right)) is not None
    return False


def r1(ctx):
    P = ctx.project
    m, tab = transforms_table(P)
    n = 0
    for name, v in sorted(tab.items()):
        mm = re.fullmatch(r"(exp|log)(\d+)?", name)
        if name not in NUMPY_ELEMENTWISE and not mm:
            continue
        n += 1
        ctx.look()
        inst = f"TRANSFORMS[{name!r}] computes the function its name denotes"
        q = P.resolve_expr(m, v) if isinstance(v, (ast.Name, ast.Attribute)) else None
        if name in NUMPY_ELEMENTWISE:
            ctx.check(q == f"numpy.{name}", "C13.R1", inst, m.line(v), ctx.construct(m, text=f"TRANSFORMS[{name}]"),
                      f"`{name}` is bound to `{norm(v)[:60]}` instead of numpy.{name}")
            continue
        kind, k = mm.group(1), int(mm.group(2))
        ok = _is_base_k_exp(v, k) if kind == "exp" else _is_base_k_log(v, k)
        ctx.check(ok or q == f"numpy.{name}", "C13.R1", inst, m.line(v), ctx.construct(m, text=f"TRANSFORMS[{name}]"),
                  f"`{name}` is `{norm(v)[:70]}`; expected base-{k} {'exponentiation (k ** x)' if kind == 'exp' else 'logarithm'} — the inverse of "
                  f"`{'log' if kind == 'exp' else 'exp'}{k}` in the same table")
    ctx.floor("C13.R1", n, 6, "elementwise entries of TRANSFORMS")
    # partners exist
    for k in ("2", "10"):
        ctx.check(("exp" + k in tab) == ("log" + k in tab), "C13.R1", f"exp{k} and log{k} are both preloaded", "formulaic/transforms/__init__.py",
                  f"formulaic.transforms:partners {k}", "an inverse pair is incomplete")


def r2(ctx):
    P = ctx.project
    # replay discipline for the four transforms of this property
    for q in ("formulaic.transforms.scale.scale", "formulaic.transforms.scale.center", "formulaic.transforms.patsy_compat.standardize", "formulaic.transforms.poly.poly"):
        f = P.func(q)
        ctx.look()
        sl = c04.ReplaySlice(P, f, "_state")
        bad = [(st, k) for st, k in sl.state_stores() if not sl.idempotent(st)]
        ctx.check(not bad, "C13.R2", f"{f.name}: the recorded statistics are applied unchanged to new data", f.where, ctx.construct(f, text="replay writes"),
                  f"state is rewritten on replay: {[k for _, k in bad]}")
    sc = P.func("formulaic.transforms.scale.scale")
    pd, pc, ps, pf, pst = (param_names(sc.node) + [None] * 5)[:5]
    try:
        outs = sym.outcomes(sc.node)
    except sym.Unmodelled as e:
        raise AnalysisError(f"C13.R2: scale cannot be summarised: {e}")
    A = {"ddof": f"'ddof' in {pst}", "cin": f"'center' in {pst}", "cb": f"isinstance({pc}, bool)", "c": pc, "cnone": f"{pst}['center'] is None",
         "sin": f"'scale' in {pst}", "sb": f"isinstance({ps}, bool)", "s": ps, "snone": f"{pst}['scale'] is None"}

    def under(**kw):
        return sym.eval_under(outs, {A[k]: v for k, v in kw.items()}, kinds=("return",))

    def effect(res, pat, binds=None):
        for _, _, effs in res:
            frozen = {e.targets[0].id: e.value for e in effs if isinstance(e, ast.Assign) and len(e.targets) == 1 and isinstance(e.targets[0], ast.Name)}
            for e in effs:
                if frozen and not (isinstance(e, ast.Assign) and isinstance(e.targets[0], ast.Name)):
                    e = sym.subst(e, frozen)   # bindings frozen by a later store into the state are written out again
                b = sym.pm(pat, e, binds)
                if b is not None:
                    return b
        return None

    D = f"numpy.array({pd})"
    # the degrees of freedom in force: the argument when fitting, the recorded value on replay (dict.setdefault gives exactly that)
    DD_FIT = (pf, f"{pst}.setdefault('ddof', {pf})")
    DD_REPLAY = (f"{pst}['ddof']", f"{pst}.setdefault('ddof', {pf})", f"{pst}.get('ddof')")
    fit = under(ddof=False, cin=False, cb=True, c=True, cnone=False, sin=False, sb=True, s=True, snone=False)
    replay = under(ddof=True, cin=True, cnone=False, sin=True, snone=False)
    checks = [
        ("the centre is the mean over rows of the training data",
         len(fit) == 1 and effect(fit, f"{pst}['center'] = numpy.mean(ANY_d, axis=0)", {"ANY_d": D}) is not None,
         f"when fitting, {pst}['center'] must be numpy.mean({D}, axis=0)"),
        ("the recorded centre is subtracted",
         len(replay) == 1 and sym.pm_any([f"({D} - {pst}['center']) / {pst}['scale']"], replay[0][1]) is not None
         and len(under(ddof=True, cin=True, cnone=True, sin=True, snone=False)) == 1
         and sym.pm(f"{D} / {pst}['scale']", under(ddof=True, cin=True, cnone=True, sin=True, snone=False)[0][1]) is not None,
         f"on replay the result must be ({D} - {pst}['center']) / {pst}['scale'] (no centring when the recorded centre is None)"),
        ("the scale is the root of the sum of squares over n − ddof",
         len(fit) == 1 and (effect(fit, f"{pst}['scale'] = numpy.sqrt(numpy.sum(ANY_c ** 2, axis=0) / (ANY_c.shape[0] - ANY_dd))") or {}).get("ANY_dd") in DD_FIT,
         f"when fitting, {pst}['scale'] must be numpy.sqrt(numpy.sum(centred ** 2, axis=0) / (centred.shape[0] - {pf}))"),
        ("the recorded scale divides",
         len(replay) == 1 and isinstance(replay[0][1], ast.BinOp) and isinstance(replay[0][1].op, ast.Div) and norm(replay[0][1].right) == f"{pst}['scale']"
         and len(under(ddof=True, cin=True, cnone=False, sin=True, snone=True)) == 1
         and sym.pm(f"{D} - {pst}['center']", under(ddof=True, cin=True, cnone=False, sin=True, snone=True)[0][1]) is not None,
         "on replay the centred data must be divided by the recorded scale (and left alone when it is None)"),
        ("the recorded ddof is reused",
         (effect(under(ddof=True, cin=True, cnone=False, sin=False, sb=True, s=True, snone=False),
                 f"{pst}['scale'] = numpy.sqrt(numpy.sum(ANY_c ** 2, axis=0) / (ANY_c.shape[0] - ANY_dd))") or {}).get("ANY_dd") in DD_REPLAY,
         f"when {pst} already records ddof, the scale must be estimated with {pst}['ddof'], not with the argument"),
    ]
    for what, ok, msg in checks:
        ctx.look()
        ctx.check(bool(ok), "C13.R2", f"scale: {what}", sc.where, ctx.construct(sc, text=what), msg)
    b = effect(fit, f"{pst}['scale'] = numpy.sqrt(numpy.sum(ANY_c ** 2, axis=0) / (ANY_c.shape[0] - ANY_dd))")
    ctx.check(b is not None and b["ANY_c"] == f"{D} - {pst}['center']", "C13.R2", "scale: the data is centred before the scale is estimated", sc.where,
              ctx.construct(sc, text="centre before scale"),
              f"the standard deviation must be computed from the centred data; it is computed from `{(b or {}).get('ANY_c')}`")
    ce = P.func("formulaic.transforms.scale.center")
    c = _single_return(ce)
    cp = param_names(ce.node)
    ok = isinstance(c, ast.Call) and P.resolve_in(ce, c.func) == sc.qualname and \
        [norm(x) if x is not None else None for x in (arg_for(c, sc.node, pd), arg_for(c, sc.node, ps), arg_for(c, sc.node, pst))] == [cp[0], "False", cp[-1]] \
        and at_default(c, sc.node, pc) and at_default(c, sc.node, pf)
    ctx.check(ok, "C13.R2", "center = scale(..., scale=False) with the same state", ce.where,
              ctx.construct(ce, text="delegate"), f"center returns `{norm(c) if c is not None else None}`")
    sd = P.func("formulaic.transforms.patsy_compat.standardize")
    c = _single_return(sd)
    sp = param_names(sd.node)
    ok = isinstance(c, ast.Call) and P.resolve_in(sd, c.func) == sc.qualname and \
        [norm(x) if x is not None else None for x in (arg_for(c, sc.node, n) for n in (pd, pc, ps, pf, pst))] == [sp[0], "center", "rescale", "ddof", "_state"]
    ctx.check(ok, "C13.R2", "standardize forwards its flags and state to scale", sd.where, ctx.construct(sd, text="delegate"), f"standardize returns `{norm(c) if c is not None else None}`")
    po = P.func("formulaic.transforms.poly.poly")
    fnp = po.node

    # the recurrence helpers may be nested in poly or sit next to it as private module-level functions that are handed the
    # working arrays: the search covers poly and the private functions of its module that it (transitively) calls
    scope_nodes = [fnp]
    frontier = [fnp]
    while frontier:
        cur = frontier.pop()
        for c_ in ast.walk(cur):
            if isinstance(c_, ast.Call) and isinstance(c_.func, ast.Name) and c_.func.id.startswith("_"):
                g_ = P.functions.get(f"{po.module.name}.{c_.func.id}")
                if g_ is not None and g_.node not in scope_nodes:
                    scope_nodes.append(g_.node)
                    frontier.append(g_.node)

    def walk_scope():
        for r_ in scope_nodes:
            yield from ast.walk(r_)

    def has(*pats, binds=None):
        for pat in pats:
            for n in walk_scope():
                b = sym.pm(pat, n, binds)
                if b is not None:
                    return b
        return None

    ba = has("VAR_a[VAR_k] = numpy.sum(VAR_x * VAR_P[:, VAR_k] ** 2) / numpy.sum(VAR_P[:, VAR_k] ** 2)")
    bn = has("VAR_n[VAR_k] = numpy.sum(VAR_P[:, VAR_k] ** 2)")
    getters = {}
    arity = {}
    idx_pos = {}
    for n in walk_scope():
        if isinstance(n, ast.FunctionDef) and n is not fnp and len(n.args.args) >= 1:
            arity[n.name] = len(n.args.args)
            for pos_, a_ in enumerate(n.args.args):   # the index parameter: the one the returned entry is subscripted with
                k = a_.arg
                for r in returns_of(n):
                    if ba and sym.pm(f"{ba['VAR_a']}[{k}]", r.value) is not None:
                        getters["alpha"] = n.name
                        idx_pos[n.name] = pos_
                    if bn and sym.pm(f"{bn['VAR_n']}[{k}]", r.value) is not None:
                        getters["norm"] = n.name
                        idx_pos[n.name] = pos_
    G0 = getters.get("norm", "get_norm")

    def call_of(name):
        """`name(<index>` … with one metavariable per further parameter (a helper moved out of poly is handed the arrays)."""
        n_, at_ = arity.get(name, 1), idx_pos.get(name, 0)
        return lambda x: f"{name}(" + ", ".join(x if i == at_ else f"ANY_{name.strip('_')}{i}" for i in range(n_)) + ")"
    Gc = call_of(G0)
    for n in walk_scope():
        if isinstance(n, ast.FunctionDef) and n is not fnp and len(n.args.args) >= 1:
            for pos_, a_ in enumerate(n.args.args):
                k = a_.arg
                if any(sym.pm(f"{Gc(k)} / {Gc(k + ' - 1')}", r.value) is not None for r in returns_of(n)):
                    getters["beta"] = n.name
                    idx_pos[n.name] = pos_
    GAc, GBc = call_of(getters.get("alpha", "get_alpha")), call_of(getters.get("beta", "get_beta"))
    G = G0
    Pm = (ba or {}).get("VAR_P", "P")
    deg = param_names(fnp)[1]
    # the beta coefficient may be written at its only use instead of behind a getter: beta_{i-1} = norm_{i-1} / norm_{i-2}
    inline_beta = [f"{Pm}[:, VAR_i] -= {Gc('VAR_i - 1')} / {Gc('VAR_i - 2')} * {Pm}[:, VAR_i - 2]", f"{Pm}[:, VAR_i] -= ({Gc('VAR_i - 1')} / {Gc('VAR_i - 2')}) * {Pm}[:, VAR_i - 2]",
                   f"{Pm}[:, VAR_i] = {Pm}[:, VAR_i] - {Gc('VAR_i - 1')} / {Gc('VAR_i - 2')} * {Pm}[:, VAR_i - 2]"]
    poly_checks = [
        ("rows with nulls yield nulls", has("VAR_o.fill(numpy.nan)", "VAR_o = numpy.full(ANY_s, numpy.nan)", "VAR_o = numpy.full(ANY_s, fill_value=numpy.nan)"),
         "the output matrix must start filled with NaN"),
        ("only non-null rows are fitted/evaluated", has("VAR_i = numpy.flatnonzero(~numpy.isnan(VAR_x))", "VAR_i = numpy.flatnonzero(numpy.logical_not(numpy.isnan(VAR_x)))",
                                                          "VAR_i = numpy.where(~numpy.isnan(VAR_x))[0]"),
         "the non-null row indices must be numpy.flatnonzero(~numpy.isnan(x))"),
        ("results are written back row-wise", has(f"VAR_o[VAR_i, :] = {Pm}[:, 1:]"), f"expected out[nonnull_indices, :] = {Pm}[:, 1:]"),
        ("the constant column is dropped", has(f"{Pm}[:, 0] = 1", f"{Pm}[:, 0] = 1.0"), f"expected {Pm}[:, 0] = 1 (and only columns 1: are returned)"),
        ("recorded recurrence coefficients are reused", has("VAR_a = _state.get('alpha')", "VAR_a = _state['alpha'] if 'alpha' in _state else None"),
         "alpha must be read from _state"),
        ("three-term recurrence, first order", has(f"{Pm}[:, VAR_i] = (VAR_x - {GAc('VAR_i - 1')}) * {Pm}[:, VAR_i - 1]"),
         f"expected `{Pm}[:, i] = (x - {GAc('i - 1')}) * {Pm}[:, i - 1]`"),
        ("three-term recurrence, second order", has(f"{Pm}[:, VAR_i] -= {GBc('VAR_i - 1')} * {Pm}[:, VAR_i - 2]", f"{Pm}[:, VAR_i] = {Pm}[:, VAR_i] - {GBc('VAR_i - 1')} * {Pm}[:, VAR_i - 2]",
                                                    *inline_beta),
         f"expected `{Pm}[:, i] -= {GBc('i - 1')} * {Pm}[:, i - 2]`"),
        ("alpha_k = <x p_k, p_k> / <p_k, p_k>", ba if ba and "alpha" in getters else None, "expected `alpha[k] = numpy.sum(x * P[:, k] ** 2) / numpy.sum(P[:, k] ** 2)` in the getter that returns alpha[k]"),
        ("norm_k = <p_k, p_k>", bn if bn and "norm" in getters else None, "expected `norms2[k] = numpy.sum(P[:, k] ** 2)` in the getter that returns norms2[k]"),
        ("beta_k = norm_k / norm_{k-1}", getters.get("beta") or has(*inline_beta), f"expected a getter returning `{Gc('k')} / {Gc('k - 1')}` (or that ratio written in the recurrence itself)"),
        ("every column is divided by the root of its own squared norm",
         has(f"{Pm} /= numpy.array([numpy.sqrt({Gc('VAR_k')}) for VAR_k in range(0, {deg} + 1)])", f"{Pm} /= numpy.array([numpy.sqrt({Gc('VAR_k')}) for VAR_k in range({deg} + 1)])",
             f"{Pm} = {Pm} / numpy.array([numpy.sqrt({Gc('VAR_k')}) for VAR_k in range(0, {deg} + 1)])", f"{Pm} /= numpy.sqrt(numpy.array([{Gc('VAR_k')} for VAR_k in range(0, {deg} + 1)]))"),
         f"expected `{Pm} /= numpy.array([numpy.sqrt({Gc('k')}) for k in range(0, {deg} + 1)])`"),
    ]
    for what, ok, msg in poly_checks:
        ctx.look()
        ctx.check(ok is not None and ok is not False, "C13.R2", f"poly: {what}", po.where, ctx.construct(po, text=what), msg)


def _single_return(f):
    try:
        outs = [o for o in sym.outcomes(f.node) if o.kind == "return"]
    except sym.Unmodelled:
        return None
    return outs[0].value if len(outs) == 1 else None



def r3(ctx):
    """Recorded statistics survive spec operations: update / subset / differentiate only replace what they name (formula, structure);
    the stateful wrapper forwards options per column."""
    P = ctx.project
    c04.wrapper_recursion(ctx, "C13.R3")
    MS = P.cls("formulaic.model_spec.ModelSpec")
    for name in ("subset", "differentiate"):
        m = MS.methods[name]
        for c in ast.walk(m.node):
            if isinstance(c, ast.Call) and norm(c.func) == "self.update":
                ctx.look()
                keys = sorted(k.arg or "**" for k in c.keywords)
                ok = set(keys) <= {"formula", "structure"}
                ctx.check(ok, "C13.R3", f"ModelSpec.{name} keeps the recorded transform / encoder state", m.module.line(c), ctx.construct(m, text="update keys"),
                          f"update(...) replaces {keys}: pruning or replacing `transform_state` loses the recorded statistics of nested transforms (they are re-fitted on new data)")
        bad = [x for x in ast.walk(m.node) if isinstance(x, ast.Attribute) and x.attr in ("transform_state", "encoder_state")]
        ctx.check(not bad, "C13.R3", f"ModelSpec.{name} does not touch the recorded state", m.where, ctx.construct(m, text="state untouched"),
                  f"`{norm(bad[0]) if bad else ''}` is read/rewritten by {name}")



def f1(ctx):
    """generic same-name parameter forwarding over this property's modules (see shared.generic_forwarding)."""
    from . import shared as _sh
    _sh.generic_forwarding(ctx, "C13.F1", _sh.PROPERTY_MODULES["C13"])


RULES = [("C13.R1", r1), ("C13.R2", r2), ("C13.R3", r3), ("C13.F1", f1)]
