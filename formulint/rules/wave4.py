"""Rules added after the fourth seeding wave.  Each function takes (ctx, rule-label) so that the properties for which the
mechanism is a necessary condition can each file it under their own label."""
from __future__ import annotations

import ast
import re
from typing import List, Optional

from ..core import AnalysisError, FunctionInfo, Project, dotted, is_const, kwarg, norm, param_names, walk_no_nested
from .. import sym
from ..expect import contains, contains_any
from ..util import guards_of

MAT = "formulaic.materializers.base.FormulaMaterializer"


# ------------------------------------------------------------------ tokenizer: what may open a call-style Python fragment
def call_opening(ctx, rule: str):
    """`name(` / `python-token(` opens a Python fragment; after anything else (a number, a string, an operator, nothing)
    a bracket is a grouping bracket — `2(a + b)` must stay a missing-operator error."""
    P = ctx.project
    f = P.func("formulaic.parser.algos.tokenize.tokenize")
    n = 0
    for c in ast.walk(f.node):
        if isinstance(c, ast.Call) and isinstance(c.func, ast.Attribute) and c.func.attr == "append" and norm(c.func.value) == "quote_context":
            g = guards_of(P, c)
            opener = [t for t, pol in g if pol and t in ("char in '(['", "char in ('(', '[')", "char == '('", "char == '['")]
            inside = [t for t, pol in g if pol and t.startswith("quote_context[-1] in ")]
            if not opener or inside:
                continue
            n += 1
            ctx.look()
            kinds = [t for t, pol in g if "token.kind" in t]
            pols = [pol for t, pol in g if "token.kind" in t]
            ok = len(kinds) == 1 and pols == [True] and kinds[0] in (
                "token.kind in (Token.Kind.NAME, Token.Kind.PYTHON)", "token.kind in (Token.Kind.PYTHON, Token.Kind.NAME)",
                "token.kind in {Token.Kind.NAME, Token.Kind.PYTHON}", "token.kind in [Token.Kind.NAME, Token.Kind.PYTHON]")
            ctx.check(ok, rule, "a bracket opens a Python call fragment only directly after a name (or a fragment being continued)", f.module.line(c),
                      ctx.construct(f, text="call opening"),
                      f"the call-style context is opened under {g}: after a literal such as `2` or `'x'` the bracket must be a grouping bracket, so that `2(a + b)` "
                      f"is rejected as a missing operator instead of becoming the factor `2(a + b)`")
    ctx.floor(rule, n, 1, "call-style context openings in tokenize()")


# ------------------------------------------------------------------ capture_context: locals shadow globals
def captured_context_order(ctx, rule: str):
    P = ctx.project
    f = P.func("formulaic.utils.context.capture_context")
    ctx.look()
    calls = [c for c in ast.walk(f.node) if isinstance(c, ast.Call) and dotted(c.func) == "LayeredMapping"]
    ctx.floor(rule, len(calls), 1, "LayeredMapping constructions in capture_context")
    for c in calls:
        args = [norm(a) for a in c.args]
        ok = len(args) == 2 and args[0].endswith(".f_locals") and args[1].endswith(".f_globals") and args[0].split(".")[0] == args[1].split(".")[0]
        ctx.check(ok, rule, "names captured from the caller resolve as in the caller: locals before globals", f.module.line(c), ctx.construct(f, text="locals before globals"),
                  f"the captured context is LayeredMapping({', '.join(args)}): the first layer wins, so it must be the frame's f_locals — otherwise `I(k * x)` is computed "
                  f"with a module-level `k` although the call site binds `k` locally")
    fr = [c for c in ast.walk(f.node) if isinstance(c, ast.Call) and dotted(c.func) == "sys._getframe"]
    pn = param_names(f.node)[0]
    ok = len(fr) == 1 and len(fr[0].args) == 1 and norm(fr[0].args[0]) in (f"{pn} + 1", f"1 + {pn}")
    ctx.check(ok, rule, "frame offset 0 is the caller of capture_context", f.where, ctx.construct(f, text="frame offset"),
              f"sys._getframe is called with `{norm(fr[0].args[0]) if fr and fr[0].args else None}`; expected {pn} + 1")


# ------------------------------------------------------------------ find_nulls leaves never assume "cannot be null"
def find_nulls_no_shortcut(ctx, rule: str):
    P = ctx.project
    regs = P.registrations("formulaic.utils.null_handling.find_nulls")
    CANNOT = {"str", "int", "float", "None", "NoneType"}   # scalar registrations: a non-null scalar has no null rows
    n = 0
    for f in regs:
        from ..core import first_param_annotation
        ann = first_param_annotation(f)
        if ann in CANNOT or ann in ("dict", "list"):
            continue
        try:
            outs = [o for o in sym.outcomes(f.node) if o.kind == "return"]
        except sym.Unmodelled as e:
            raise AnalysisError(f"{rule}: {f.qualname} cannot be summarised: {e}")
        bad = []
        for o in outs:
            n += 1
            ctx.look()
            empty = o.value is not None and norm(o.value) in ("set()", "{}", "frozenset()", "set([])")
            by_dtype = [t for t in o.cond_text() if "dtype" in t or ".kind" in t]
            if empty and by_dtype:
                bad.append(by_dtype)
        ctx.check(not bad, rule, f"find_nulls[{ann}] has no data-independent 'no nulls' shortcut", f.where, ctx.construct(f, text=f"shortcut {ann}"),
                  f"returns the empty set under {bad[:1]}: whether a column holds nulls is decided from its dtype, not from its values — nullable extension dtypes "
                  f"(Int64, boolean) have integer / boolean kinds and do hold <NA>")
    ctx.floor(rule, n, 4, "returns of array-like find_nulls implementations")


# ------------------------------------------------------------------ ModelSpecs.get_model_matrix: when the parts are built jointly
def joint_generation_decision(ctx, rule: str):
    P = ctx.project
    f = P.func("formulaic.model_spec.ModelSpecs.get_model_matrix")
    ctx.look()
    # read off the path summaries (a `for … else`, a flag cleared before `break`, tuple or separate assignments: one summary)
    try:
        outs = sym.outcomes(f.node)
    except sym.Unmodelled as e:
        raise AnalysisError(f"{rule}: ModelSpecs.get_model_matrix cannot be summarised: {e}")
    lps = [l for l in sym.loops_of(outs) if "self._flatten()" in norm(l._sym_head)]
    ok, why = len(lps) == 1, "the loop over the parts was not found"
    if ok:
        lp = lps[0]
        sv = norm(lp._sym_orig.target)
        NM, IN_M, IN_P = f"{sv}.materializer", f"materializer in (None, {sv}.materializer)", f"materializer_params in (None, {sv}.materializer_params)"

        def bound(o, effs, name):
            v = o.env.get(name)
            for e in effs:   # a tuple assignment is kept as an effect
                if isinstance(e, ast.Assign) and len(e.targets) == 1 and isinstance(e.targets[0], ast.Tuple) and isinstance(e.value, ast.Tuple):
                    for t_, v_ in zip(e.targets[0].elts, e.value.elts):
                        if isinstance(t_, ast.Name) and t_.id == name:
                            v = v_
            return norm(v) if v is not None else None
        skip = sym.iteration_effects(outs, lp, {NM: False})
        diff_m = sym.iteration_effects(outs, lp, {NM: True, IN_M: False})
        diff_p = sym.iteration_effects(outs, lp, {NM: True, IN_M: True, IN_P: False})
        same = sym.iteration_effects(outs, lp, {NM: True, IN_M: True, IN_P: True})
        if not (skip and all(k in ("continue", "fall") and bound(o, effs, "materializer") in (None, "materializer") for k, effs, _e, o in skip)):
            ok, why = False, "a part without a nominated materializer is not simply skipped"
        elif not (diff_m and diff_p and all(k == "break" for k, *_ in diff_m + diff_p)):
            ok, why = False, "a differing materializer or differing parameters do not leave the loop"
        elif not (same and all(k in ("fall", "continue") and bound(o, effs, "materializer") == f"{sv}.materializer"
                               and bound(o, effs, "materializer_params") == f"{sv}.materializer_params or None" for k, effs, _e, o in same)):
            ok, why = False, "an agreeing part does not record its materializer and parameters for the comparison with the next part"
        else:
            after = [o for o in outs if not o.loops and o.kind == "return" and any(norm(c).startswith("loop_completed") for c, _ in o.conds)]
            done = [o for o in after if any(pol and norm(c).startswith("loop_completed") for c, pol in o.conds)]
            left = [o for o in after if any((not pol) and norm(c).startswith("loop_completed") for c, pol in o.conds)]
            if not (done and all(o.value is not None and ".get_model_matrix(self, drop_rows=drop_rows)" in norm(o.value) for o in done)):
                ok, why = False, "when no two parts disagree the parts are not handed to one materializer call"
            elif not (left and all(o.value is not None and norm(o.value).startswith("self._map(") for o in left)):
                ok, why = False, "after a disagreement the parts are not built one by one"
    ctx.check(ok, rule, "parts are built separately only when two parts NAME different materializers (parts without one never force it)", f.where,
              ctx.construct(f, text="joint generation decision"),
              f"the joint-generation loop changed: {why} — a part without a nominated materializer must be skipped, otherwise a fitted structure extended by a fresh part "
              f"is built part by part and every part keeps only its own null rows")


# ------------------------------------------------------------------ pandas _init: a record keeps the types of its values
def record_frame(ctx, rule: str):
    P = ctx.project
    f = P.func("formulaic.materializers.pandas.PandasMaterializer._init")
    ctx.look()
    ok, why = contains(P, f, """
        def _init(self):
            if isinstance(self.data, (dict, Mapping)):
                if all(numpy.isscalar(v) for v in self.data.values()):
                    self.data = pandas.DataFrame(self.data, index=[0])
                else:
                    self.data = pandas.DataFrame(self.data)
            ...
    """)
    ctx.check(ok, rule, "a single record (dict of scalars) becomes a one-row frame whose columns keep the types of their values", f.where,
              ctx.construct(f, text="record frame"),
              f"{why}: building the row through a Series (`pandas.Series(d).to_frame().T`) gives every column object dtype as soon as the record mixes numbers and text, "
              f"so numeric entries are dummy-coded")


# ------------------------------------------------------------------ map_dict: nested state written back, result in a fresh dict
def map_dict_discipline(ctx, rule: str, what: str = "both"):
    P = ctx.project
    from .shared import dict_mapper
    _mname, _mf, w = dict_mapper(P)   # today: map_dict / wrapped, nested in _encode_evaled_factor
    pn = param_names(w.node)
    vals, state = pn[0], pn[2]
    try:
        outs = sym.outcomes(w.node)
    except sym.Unmodelled as e:
        raise AnalysisError(f"{rule}: map_dict.wrapped cannot be summarised: {e}")
    lps = sym.loops_of(outs)
    if not lps:
        raise AnalysisError(f"{rule}: loop of map_dict.wrapped not found")
    lp = lps[0]
    tgt = lp._sym_orig.target
    k = norm(tgt.elts[0]) if isinstance(tgt, ast.Tuple) else "?"
    ctx.look()
    if what in ("both", "state"):
        its = sym.iteration_effects(outs, lp, {f"isinstance({k}, str)": False})
        stored = False
        for _kind, effs, env, _o in its:
            for e in effs:
                if sym.pm_any([f"{state}[{k}] = ANY_s", f"{state}.setdefault({k}, ANY_s)"], e) is not None:
                    stored = True
            # or: the nested state object IS an entry of the state mapping
        direct = any(sym.pm(f"{state}.setdefault({k}, ANY_d)", n) is not None for n in ast.walk(w.node))
        ctx.check(stored or direct, rule, "the encoder state of every sub-column of a dictionary-valued factor is recorded under its key", w.where,
                  ctx.construct(w, text="nested state written back"),
                  f"the state handed to the nested encoding is `{state}.get({k}, {{}})` and is never stored back as `{state}[{k}]`: the levels of the sub-columns are "
                  f"not recorded, and on reuse they are re-derived from the new data")
    if what in ("both", "fresh"):
        # the mapping that receives the encodings must be a new dict, not the caller's mapping
        inits = [n for n in ast.walk(w.node) if isinstance(n, ast.Assign) and len(n.targets) == 1 and isinstance(n.targets[0], ast.Name)]
        stores = [n for n in ast.walk(w.node) if isinstance(n, ast.Assign) and isinstance(n.targets[0], ast.Subscript) and isinstance(n.targets[0].value, ast.Name)
                  and norm(n.targets[0].value) != state]
        accs = {norm(n.targets[0].value) for n in stores}
        bad = []
        for a in sorted(accs):
            src = [i.value for i in inits if i.targets[0].id == a]
            if a == vals or any(isinstance(s_, ast.Name) and s_.id == vals for s_ in src) or not src:
                bad.append(a)
            elif not all(isinstance(s_, (ast.Dict, ast.DictComp)) or (isinstance(s_, ast.Call) and dotted(s_.func) == "dict" and not s_.args) for s_ in src):
                bad.append(a)
        comp = any(isinstance(n, ast.DictComp) for n in ast.walk(w.node))
        ctx.check((bool(accs) or comp) and not bad, rule, "the per-column encodings are collected in a fresh mapping (the caller's dictionary is not written)", w.where,
                  ctx.construct(w, text="fresh result mapping"),
                  f"encodings are stored into {bad or sorted(accs)}, which is (an alias of) the incoming `{vals}`: a dictionary-valued factor supplied through the context is "
                  f"overwritten with row-dropped / sparse columns and a second build starts from those")


# ------------------------------------------------------------------ stateful_eval: variables are read off the user's expression
def variables_before_instrumentation(ctx, rule: str):
    P = ctx.project
    f = P.func("formulaic.utils.stateful_transforms.stateful_eval")
    ctx.look()
    gv = [n for n in ast.walk(f.node) if isinstance(n, ast.Call) and dotted(n.func) == "get_expression_variables"]
    inj = [n for n in ast.walk(f.node) if isinstance(n, ast.Call) and norm(n.func).endswith(".keywords.append")]
    ctx.floor(rule, len(gv), 1, "get_expression_variables calls in stateful_eval")
    ctx.floor(rule, len(inj), 4, "keyword injections in stateful_eval")
    from ..util import doc_order
    _pos = doc_order(f.node)
    ok = all(_pos[id(g)] < min(_pos[id(i)] for i in inj) for g in gv)
    ctx.check(ok, rule, "the variables of a factor are collected from the expression as written, before the stateful calls are instrumented", f.module.line(gv[0]),
              ctx.construct(f, text="variables before instrumentation"),
              "get_expression_variables runs after `_context` / `_metadata` / `_state` / `_spec` keywords were injected into the tree: the reserved names "
              "(__FORMULAIC_STATE__ …) are reported as variables of the term")


# ------------------------------------------------------------------ Contrasts.apply: the pandas wrap relabels, it does not re-align
def contrast_wrap_is_positional(ctx, rule: str):
    P = ctx.project
    f = P.func("formulaic.transforms.contrasts.Contrasts.apply")
    n = 0
    for c in ast.walk(f.node):
        if isinstance(c, ast.Call) and dotted(c.func) == "pandas.DataFrame" and c.args and norm(c.args[0]) == "encoded":
            n += 1
            ctx.look()
            idx = kwarg(c, "index")
            ctx.check(idx is None, rule, "the coded columns are wrapped positionally (their rows are the rows of the indicator matrix, in order)", f.module.line(c),
                      ctx.construct(f, text="wrap encoded"),
                      f"`pandas.DataFrame(encoded, index={norm(idx) if idx is not None else ''})`: when `encoded` is itself a frame (treatment coding) or an array with a "
                      f"fresh 0..n-1 index (matrix-product codings), passing the indicator's index re-aligns rows by label and fills the rest with NaN")
    ctx.floor(rule, n, 1, "DataFrame wraps of the coded columns")


# ------------------------------------------------------------------ indexing `.args[0]` / `.args[-1]` of AST nodes is guarded
def ast_args_guarded(ctx, rule: str):
    P = ctx.project
    n = 0
    # the helper that walks down to the tokens bordering a gap (today a private function of parser.utils): found by what it does,
    # wherever in the module it lives and whatever it is called
    top = P.functions.get("formulaic.parser.utils.exc_for_missing_operator")
    if top is None:
        raise AnalysisError(f"{rule}: formulaic.parser.utils.exc_for_missing_operator not found")
    nodes = set(param_names(top.node)[:2])   # the two AST nodes (or tokens) bordering the gap
    fs = [top]
    for c in walk_no_nested(top.node):
        if isinstance(c, ast.Call) and any(isinstance(a, ast.Name) and a.id in nodes for a in list(c.args) + [k.value for k in c.keywords]):
            q = P.resolve_in(top, c.func)
            g = P.functions.get(q) if q else None
            if g is None and isinstance(c.func, ast.Name):
                g = P.functions.get("formulaic.parser.utils." + c.func.id)
            if g is not None and g not in fs:
                fs.append(g)
    for f in fs:
        for s_ in walk_no_nested(f.node):
            if isinstance(s_, ast.Subscript) and isinstance(s_.value, ast.Attribute) and s_.value.attr == "args" and isinstance(s_.slice, (ast.Constant, ast.UnaryOp)):
                n += 1
                ctx.look()
                base = norm(s_.value)
                g = guards_of(P, s_)
                ok = (base, True) in g or (f"len({base}) > 0", True) in g or (f"len({base}) == 0", False) in g
                ctx.check(ok, rule, "an operator node without arguments (the `.` wildcard) is handled when locating a missing-operator error", f.module.line(s_),
                          ctx.construct(f, text=f"guard {norm(s_)}"),
                          f"`{norm(s_)}` is evaluated without checking that `{base}` is non-empty: for `a .` the IndexError escapes instead of a FormulaSyntaxError")
    ctx.floor(rule, n, 2, "argument subscripts of AST nodes in parser.utils")


# ------------------------------------------------------------------ sanitize_variable_name(s)
def sanitizer_discipline(ctx, rule: str):
    P = ctx.project
    f = P.func("formulaic.utils.code.sanitize_variable_name")
    pn = param_names(f.node)
    ctx.look(2)
    ok, why = contains(P, f, f"""
        def sanitize_variable_name({pn[0]}, {pn[1]}, *, template="{{}}"):
            ...
            new_name = template.format(base_name)
            suffix = 0
            while new_name in {pn[1]}:
                suffix += 1
                new_name = template.format(f"{{base_name}}_{{suffix}}")
            if {pn[0]} in {pn[1]}:
                {pn[1]}[new_name] = {pn[1]}[{pn[0]}]
            return new_name
    """)
    ctx.check(ok, rule, "a sanitised name never shadows a name that already exists in the environment (deterministic numeric suffix)", f.where,
              ctx.construct(f, text="collision suffix"),
              f"{why}: the suffix loop must run for every candidate (also when the quoted name itself is not in the environment — it may be a column that is missing from "
              f"new data) and must be a running counter, not a hash")
    lp = [n for n in ast.walk(f.node) if isinstance(n, ast.While)]
    for w in lp:
        g = guards_of(P, w)
        ctx.check(not g, rule, "the collision check is unconditional", f.module.line(w), ctx.construct(f, text="collision unconditional"),
                  f"the suffix loop only runs under {g}")
    sv = P.func("formulaic.utils.code.sanitize_variable_names")
    subs = []
    for c in ast.walk(sv.node):
        if isinstance(c, ast.Call) and isinstance(c.func, ast.Attribute) and c.func.attr == "append" and len(c.args) == 1 and isinstance(c.args[0], (ast.JoinedStr, ast.Name)):
            js = c.args[0]
            if isinstance(js, ast.Name):
                js = ast.JoinedStr(values=[ast.FormattedValue(value=js, conversion=-1, format_spec=None)])
            names = [v for v in js.values if isinstance(v, ast.FormattedValue) and isinstance(v.value, ast.Name)]
            if len(names) == 1 and any(isinstance(n, ast.Assign) and isinstance(n.targets[0], ast.Name) and n.targets[0].id == names[0].value.id
                                       and isinstance(n.value, ast.Call) and dotted(n.value.func) == "sanitize_variable_name" for n in ast.walk(sv.node)):
                subs.append((c, js))
    ctx.floor(rule, len(subs), 1, "substitutions of a sanitised name in sanitize_variable_names")
    for c, js in subs:
        first, last = js.values[0], js.values[-1]
        ok = isinstance(first, ast.Constant) and str(first.value).endswith(" ") and isinstance(last, ast.Constant) and str(last.value).startswith(" ")
        ctx.check(ok, rule, "a substituted name is separated from its neighbours by spaces (it may directly abut a keyword: `x if`a b`else y`)", sv.module.line(c),
                  ctx.construct(sv, text="padded substitution"),
                  f"`{norm(c)}` inserts the sanitised name without surrounding spaces: ``f(u if`a b`else v)`` fuses into `u if_formulaic_a_belse v` and fails to parse")


# ------------------------------------------------------------------ ModelSpecs.required_variables: fresh accumulator
def fresh_union(ctx, rule: str):
    P = ctx.project
    f = P.func("formulaic.model_spec.ModelSpecs.required_variables")
    ctx.look()
    muts = []
    for n in ast.walk(f.node):
        if isinstance(n, ast.Call) and isinstance(n.func, ast.Attribute) and n.func.attr in ("update", "add", "__ior__") and isinstance(n.func.value, ast.Name):
            muts.append((n, n.func.value.id))
        if isinstance(n, ast.AugAssign) and isinstance(n.op, ast.BitOr) and isinstance(n.target, ast.Name):
            muts.append((n, n.target.id))
    fresh = {}
    for n in ast.walk(f.node):
        if isinstance(n, (ast.Assign, ast.AnnAssign)):
            t = n.targets[0] if isinstance(n, ast.Assign) else n.target
            if isinstance(t, ast.Name) and n.value is not None:
                fresh.setdefault(t.id, []).append(norm(n.value) in ("set()", "set([])") or isinstance(n.value, (ast.Set, ast.SetComp)) or
                                                  (isinstance(n.value, ast.Call) and dotted(n.value.func) == "set"))
    ok = bool(muts) and all(all(fresh.get(v, [False])) for _n, v in muts) or (not muts and any(isinstance(n, ast.Call) and norm(n.func).endswith("union") for n in ast.walk(f.node)))
    ctx.check(ok, rule, "the union over the parts is accumulated in a set of its own", f.where, ctx.construct(f, text="fresh accumulator"),
              f"the accumulator that is updated in place ({sorted({v for _n, v in muts})}) is not a new set: merging into the first part's (cached) variable set changes what "
              f"that part reports afterwards")


# ------------------------------------------------------------------ SimpleFormula._reorder coerces the ordering before comparing identities
def ordering_coerced(ctx, rule: str):
    P = ctx.project
    f = P.func("formulaic.formula.SimpleFormula._reorder")
    ctx.look()
    cmps = [n for n in ast.walk(f.node) if isinstance(n, ast.Compare) and len(n.ops) == 1 and isinstance(n.ops[0], (ast.Is, ast.IsNot, ast.Eq))
            and "OrderingMethod." in norm(n.comparators[0]) and isinstance(n.left, ast.Name)]
    ctx.floor(rule, len(cmps), 1, "ordering dispatch comparisons in _reorder")
    from ..util import assignments
    for c in cmps:
        v = c.left.id
        defs = [val for nm, val, _ in assignments(f.node) if nm == v]
        ok = bool(defs) and all(isinstance(d, ast.Call) and dotted(d.func) == "OrderingMethod" for d in defs)
        ctx.check(ok, rule, "the ordering in force is coerced to an OrderingMethod before it is dispatched on", f.module.line(c), ctx.construct(f, text="ordering coerced"),
                  f"`{norm(c)}` compares by identity, but `{v}` is {[norm(d)[:60] for d in defs] or 'the raw argument'}: a string ordering ('degree', assigned to "
                  f"`formula.ordering` or passed to `_reorder`) matches no branch and the terms are silently left unsorted")


# ------------------------------------------------------------------ the empty matrix has the retained row count
def empty_matrix_rows(ctx, rule: str):
    P = ctx.project
    n = 0
    for c in P.subclasses(MAT):
        m = c.methods.get("_combine_columns")
        if m is None:
            continue
        for call in ast.walk(m.node):
            if isinstance(call, ast.Call) and (dotted(call.func) or "").endswith(("numpy.empty", "numpy.zeros")) and call.args and isinstance(call.args[0], ast.Tuple) \
                    and len(call.args[0].elts) == 2 and is_const(call.args[0].elts[1], 0):
                n += 1
                ctx.look()
                rows = norm(call.args[0].elts[0])
                ok = rows in ("self.nrows - len(drop_rows)", "self.nrows - len(set(drop_rows))")
                ctx.check(ok, rule, f"{c.qualname.split('.')[-1]}: a part without columns has as many rows as every other part", m.module.line(call),
                          ctx.construct(m, text="empty matrix rows"),
                          f"the column-less matrix has `{rows}` rows; expected self.nrows - len(drop_rows) (an index that was only trimmed for one output type keeps the "
                          f"dropped rows for the others)")
    ctx.floor(rule, n, 1, "column-less special cases")


# ------------------------------------------------------------------ which property files which mechanism
# ------------------------------------------------------------------ a term may not appear under two numerical scalings
def scaling_conflict_guard(ctx, rule: str):
    """check_terms: every term's non-literal factor tuple is remembered, and meeting it again is an error — for one-factor terms
    as much as for products (`2:a + a` must be rejected whichever comes first)."""
    P = ctx.project
    gt = P.func("formulaic.parser.parser.DefaultFormulaParser.get_terms_from_ast")
    cands = [g for q, g in P.functions.items() if q.startswith(gt.qualname + ".<locals>.") or q == gt.qualname]
    from ..util import atom_mapper, reach_condition, truth_table
    n = 0
    for g in cands:
        for lp in walk_no_nested(g.node):
            if not isinstance(lp, ast.For):
                continue
            adds = [st for st in ast.walk(lp) if isinstance(st, ast.Expr) and sym.pm("VAR_seen.add(ANY_h)", st.value) is not None]
            for ad in adds:
                b = sym.pm("VAR_seen.add(ANY_h)", ad.value)
                seen, h = b["VAR_seen"], b["ANY_h"]
                raises = [r for r in ast.walk(lp) if isinstance(r, ast.Raise)]
                conds = [(r, reach_condition(P, r, mention=seen)) for r in raises]
                conds = [(r, c) for r, c in conds if c is not None]
                if not conds:
                    continue
                n += 1
                ctx.look()
                ok = any(truth_table(c, atom_mapper({f"{h} in {seen}": 0}), 1) == (False, True) for _r, c in conds)
                rc_add = reach_condition(P, ad)
                ok_add = rc_add is None or truth_table(rc_add, atom_mapper({f"{h} in {seen}": 0}), 1) in ((True, False), (True, True))
                ctx.check(ok and ok_add, rule, "a term met again under another numerical scaling is rejected, whatever its number of factors", g.module.line(ad),
                          ctx.construct(g, text="scaling conflict"),
                          f"the duplicate test is `{[norm(c)[:90] for _r, c in conds]}`; it must be exactly `{h} in {seen}` for every term (and every term must be "
                          f"remembered): otherwise `2:a + a` is accepted with both terms while `a + 2:a` is rejected")
    ctx.floor(rule, n, 1, "duplicate-term guards in check_terms")


# ------------------------------------------------------------------ poly() is total in its degree
def poly_degree_total(ctx, rule: str):
    """`poly` is called with degree = (number of levels − 1) by the polynomial contrasts: one level gives degree 0, which must yield
    the empty basis, not an error.  No `raise` of poly may depend on `degree`."""
    P = ctx.project
    f = P.func("formulaic.transforms.poly.poly")
    from ..util import reach_condition
    deg = param_names(f.node)[1]
    ctx.look()
    bad = []
    for r in walk_no_nested(f.node):
        if isinstance(r, ast.Raise):
            rc = reach_condition(P, r, mention=deg)
            if rc is not None:
                bad.append(norm(rc)[:80])
    ctx.check(not bad, rule, "poly accepts every degree, including 0 (a one-level polynomial contrast has no columns)", f.where, ctx.construct(f, text="degree is not rejected"),
              f"poly raises under `{bad}`: contr.poly for a single level asks for degree 0 and must get the n×0 basis")


# ------------------------------------------------------------------ memoised views of a formula's terms are dropped by EVERY mutator
def derived_memo_invalidated(ctx, rule: str):
    """If SimpleFormula keeps a memo of something derived from its terms (an attribute that a method fills when it finds it None),
    every method that stores into or deletes from the term list must reset it — deletion included, which does not re-order."""
    P = ctx.project
    SF = P.cls("formulaic.formula.SimpleFormula")
    memos = set()
    for name, m in SF.methods.items():
        if name == "__init__":
            continue
        tested = {norm(c.left) for c in ast.walk(m.node) if isinstance(c, ast.Compare) and len(c.ops) == 1 and isinstance(c.ops[0], (ast.Is, ast.IsNot))
                  and norm(c.comparators[0]) == "None" and norm(c.left).startswith("self.")}
        filled = {norm(t) for st in walk_no_nested(m.node) if isinstance(st, (ast.Assign, ast.AnnAssign)) and getattr(st, "value", None) is not None
                  for t in (st.targets if isinstance(st, ast.Assign) else [st.target]) if norm(t).startswith("self.") and not is_const(st.value, None)}
        memos |= (tested & filled)
    memos = {m for m in memos if m not in ("self.__terms", "self.ordering")}
    if not memos:
        ctx.ok(rule, "SimpleFormula keeps no memo derived from its terms", SF.where, "nothing to invalidate")
        return

    def resets(m, attr, depth=0) -> bool:
        for st in walk_no_nested(m.node):
            if isinstance(st, (ast.Assign, ast.AnnAssign)) and getattr(st, "value", None) is not None and is_const(st.value, None) and \
                    any(norm(t) == attr for t in (st.targets if isinstance(st, ast.Assign) else [st.target])):
                return True
            if depth < 2 and isinstance(st, ast.Expr) and isinstance(st.value, ast.Call) and isinstance(st.value.func, ast.Attribute) and dotted(st.value.func.value) == "self" \
                    and st.value.func.attr in SF.methods and resets(SF.methods[st.value.func.attr], attr, depth + 1):
                return True
        return False
    for name, m in SF.methods.items():
        mutates = any((isinstance(st, (ast.Assign, ast.AugAssign)) and any("self.__terms" in norm(t) for t in (st.targets if isinstance(st, ast.Assign) else [st.target])))
                      or (isinstance(st, ast.Delete) and any("self.__terms" in norm(t) for t in st.targets))
                      or (isinstance(st, ast.Expr) and isinstance(st.value, ast.Call) and isinstance(st.value.func, ast.Attribute) and norm(st.value.func.value) == "self.__terms"
                          and st.value.func.attr in ("insert", "append", "extend", "pop", "remove", "clear", "sort", "reverse", "__setitem__", "__delitem__"))
                      for st in walk_no_nested(m.node))
        if not mutates or name == "__init__":
            continue
        for attr in sorted(memos):
            ctx.look()
            ctx.check(resets(m, attr), rule, f"SimpleFormula.{name} drops the memo {attr}", m.where, ctx.construct(m, text=f"invalidate {attr}"),
                      f"`{name}` changes the term list but leaves `{attr}` as it was: the memoised value (e.g. the required variables) still describes the terms "
                      f"before the change")


# ------------------------------------------------------------------ re.sub: user text is never the replacement TEMPLATE
def regex_replacement_literal(ctx, rule: str):
    """In the parser and the name sanitiser, text that comes from the formula (a quoted name, an alias) may be inserted by re.sub
    only through a callable replacement (or after escaping): as a replacement TEMPLATE its backslashes and group references are
    interpreted (backslash-t becomes a TAB, backslash-u raises re.error out of the parser)."""
    P = ctx.project
    n = 0
    for q, f in sorted(P.functions.items()):
        if isinstance(f.node, ast.Lambda) or not (f.module.name.startswith("formulaic.parser") or f.module.name in ("formulaic.utils.code", "formulaic.utils.stateful_transforms")):
            continue
        env = None
        for c in walk_no_nested(f.node):
            if not (isinstance(c, ast.Call) and isinstance(c.func, ast.Attribute) and c.func.attr in ("sub", "subn")):
                continue
            is_mod = norm(c.func.value) == "re"
            repl = (c.args[1] if len(c.args) > 1 else kwarg(c, "repl")) if is_mod else (c.args[0] if c.args else kwarg(c, "repl"))
            if repl is None:
                continue
            n += 1
            ctx.look()
            if isinstance(repl, ast.Name):
                if env is None:
                    from ..util import single_assignment_env
                    env = single_assignment_env(f.node)
                repl = env.get(repl.id, repl)
            safe = isinstance(repl, ast.Lambda) or (isinstance(repl, ast.Constant) and isinstance(repl.value, str) and "\\" not in repl.value) or \
                (isinstance(repl, ast.Name) and (P.resolve_in(f, repl) or "") in P.functions) or \
                (isinstance(repl, ast.Call) and (dotted(repl.func) or "").endswith(("re.escape", "functools.partial"))) or \
                (isinstance(repl, ast.Attribute))
            ctx.check(safe, rule, "text taken from the formula is not used as a regular-expression replacement template", f.module.line(c),
                      ctx.construct(f, text=f"replacement of {norm(c.func)}"),
                      f"`{norm(c)[:110]}` passes `{norm(repl)[:60]}` as the replacement template: a back-quoted name containing a backslash is rewritten "
                      f"(backslash-t becomes a TAB) or makes re.sub raise re.error instead of a formula error; use a callable replacement")
    if n == 0:
        ctx.ok(rule, "no regular-expression substitution in the parser / sanitiser", "formulaic/parser", "nothing to check")


def coding_matrices_are_float(ctx, rule: str):
    """Coding / coefficient matrices hold fractions (scaled Helmert, polynomial, difference codings) and are filled and divided in
    place: a constructor that pins an integer or boolean dtype truncates those entries — in whichever of the dense / sparse arms it
    sits, so the two output kinds disagree."""
    P = ctx.project
    CTORS = {"lil_matrix", "csc_matrix", "csr_matrix", "dok_matrix", "coo_matrix", "zeros", "ones", "empty", "eye", "identity", "full", "array", "diags"}
    INTS = {"int", "bool", "numpy.int64", "numpy.int32", "numpy.int_", "numpy.intp", "numpy.bool_", "numpy.uint8", "numpy.int8", "numpy.int16", "'int'", "'int64'", "'bool'", "'i8'", "'i4'"}
    n = 0
    for q, f in sorted(P.functions.items()):
        if isinstance(f.node, ast.Lambda) or not q.startswith("formulaic.transforms.contrasts.") or not any(
                k in f.node.name for k in ("coding_matrix", "coefficient_matrix")):
            continue
        for c in walk_no_nested(f.node):
            if isinstance(c, ast.Call) and (dotted(c.func) or getattr(c.func, "attr", "")).split(".")[-1] in CTORS:
                n += 1
                ctx.look()
                dt = kwarg(c, "dtype")
                ctx.check(dt is None or norm(dt) not in INTS, rule, f"{q.replace('formulaic.transforms.contrasts.', '')}: the matrix built by `{norm(c.func)}` can hold fractions",
                          f.module.line(c), ctx.construct(f, c),
                          f"`{norm(c)[:80]}` pins dtype `{norm(dt) if dt is not None else ''}`: fractional entries (e.g. the scaled Helmert columns) are truncated in this arm only, "
                          f"so sparse and dense outputs differ")
    ctx.floor(rule, n, 8, "matrix constructors in the coding-matrix builders")


def resolver_flags_through_setter(ctx, rule: str):
    """The operator resolver memoises its operator table per instance; the feature flags it was built under are changed only through
    its own setter, which drops the memo.  A parser that is re-configured after it has parsed once must therefore reach that setter, and
    nobody assigns the resolver's flags from outside."""
    P = ctx.project
    PAR = "formulaic.parser.parser"
    R = P.cls(f"{PAR}.DefaultOperatorResolver")
    D = P.cls(f"{PAR}.DefaultFormulaParser")
    rs = R.methods["set_feature_flags"]
    ctx.look(3)
    drops = any((isinstance(st, ast.Delete) and any("operator_table" in norm(t) for t in st.targets)) or
                (isinstance(st, ast.Expr) and isinstance(st.value, ast.Call) and isinstance(st.value.func, ast.Attribute) and st.value.func.attr == "pop"
                 and st.value.args and is_const(st.value.args[0], "operator_table")) for st in ast.walk(rs.node))
    memo = any(isinstance(d, (ast.Name, ast.Attribute)) and norm(d).split(".")[-1] == "cached_property" for m in R.methods.values() for d in m.node.decorator_list)
    ctx.check(drops or not memo, rule, "DefaultOperatorResolver.set_feature_flags drops the memoised operator table", rs.where, ctx.construct(rs, text="drop operator_table"),
              "the operator table is cached per resolver; changing the flags without dropping it keeps parsing with the operators of the previous flags")
    ds = D.methods["set_feature_flags"]

    def reaches(m, depth=0) -> bool:
        for c in ast.walk(m.node):
            if isinstance(c, ast.Call) and isinstance(c.func, ast.Attribute):
                if c.func.attr == "set_feature_flags" and norm(c.func.value) == "self.operator_resolver" and c.args and norm(c.args[0]) == "self.feature_flags":
                    return True
                if depth < 2 and norm(c.func.value) == "self" and c.func.attr in D.methods and c.func.attr != m.node.name and reaches(D.methods[c.func.attr], depth + 1):
                    return True
        return False
    ctx.check(reaches(ds), rule, "DefaultFormulaParser.set_feature_flags re-configures its operator resolver through the resolver's setter", ds.where,
              ctx.construct(ds, text="resolver setter reached"),
              "after set_feature_flags the resolver must be told through operator_resolver.set_feature_flags(self.feature_flags): a parser that has already parsed "
              "once otherwise keeps the operator table of its previous flags, so the same formula parses differently depending on the parser's history")
    outside = [(f, st) for q, f in P.functions.items() if q.startswith("formulaic.") and not isinstance(f.node, ast.Lambda)
               for st in walk_no_nested(f.node) if isinstance(st, (ast.Assign, ast.AnnAssign, ast.AugAssign))
               for t in (st.targets if isinstance(st, ast.Assign) else [st.target])
               if isinstance(t, ast.Attribute) and t.attr == "feature_flags" and norm(t.value) != "self"]
    for f, st in outside:
        ctx.fail(rule, f"{f.qualname.replace('formulaic.', '')}: the flags of another object are assigned directly", f.module.line(st), ctx.construct(f, st),
                 f"`{norm(st)[:90]}` bypasses the setter that invalidates the memoised operator table")
    ctx.ok(rule, "feature flags of a resolver are only changed through its setter", R.where)


_ATTACH = {
    "C01": [("W1", call_opening), ("W2", ordering_coerced), ("W3", scaling_conflict_guard)],
    "C02": [("W1", captured_context_order)],
    "C04": [("W1", lambda c, r: map_dict_discipline(c, r, "state"))],
    "C05": [("W1", record_frame), ("W2", contrast_wrap_is_positional), ("W3", joint_generation_decision), ("W4", empty_matrix_rows), ("W5", coding_matrices_are_float)],
    "C06": [("W1", find_nulls_no_shortcut), ("W2", empty_matrix_rows)],
    "C07": [("W1", joint_generation_decision), ("W2", find_nulls_no_shortcut), ("W3", empty_matrix_rows)],
    "C08": [("W1", record_frame)],
    "C09": [("W1", lambda c, r: map_dict_discipline(c, r, "state"))],
    "C10": [("W1", variables_before_instrumentation)],
    "C11": [("W1", contrast_wrap_is_positional), ("W2", poly_degree_total), ("W3", coding_matrices_are_float)],
    "C14": [("W1", ast_args_guarded), ("W2", call_opening), ("W3", regex_replacement_literal), ("W4", resolver_flags_through_setter)],
    "C15": [("W1", call_opening), ("W2", sanitizer_discipline), ("W3", regex_replacement_literal)],
    "C17": [("W1", sanitizer_discipline), ("W2", fresh_union), ("W3", variables_before_instrumentation), ("W4", captured_context_order),
            ("W5", derived_memo_invalidated)],
    "C18": [("W1", lambda c, r: map_dict_discipline(c, r, "fresh")), ("W2", fresh_union), ("W3", resolver_flags_through_setter)],
    "C19": [("W1", ordering_coerced), ("W2", derived_memo_invalidated)],
}


def _shared(modname: str, fname: str):
    """A rule function of another property module, filed under this property's label."""
    def run(ctx, label):
        import importlib
        from .shared import relabel
        mod = importlib.import_module(f"formulint.rules.{modname}")
        relabel(ctx, label, getattr(mod, fname))
    return run


# mechanisms that several properties stand on (the seeding waves showed mutants of them being filed under any of these properties)
_SHARED = {
    "C02": [("X1", "c06", "r3"), ("X2", "c08", "r3"), ("X3", "c06", "r2"), ("X4", "c09", "r1"), ("X5", "c18", "r8"), ("X6", "c17", "r1")],
    "C03": [("X1", "c02", "r7"), ("X2", "c02", "r6"), ("X3", "c18", "r8")],
    "C04": [("X1", "c02", "r7"), ("X2", "c05", "r3"), ("X3", "c03", "r6"), ("X4", "c09", "r2"), ("X5", "c09", "r1")],
    "C05": [("X1", "c02", "r2"), ("X2", "c04", "r3"), ("X3", "c18", "r8")],
    "C06": [("X1", "c18", "r8"), ("X2", "c05", "r5")],
    "C07": [("X1", "c06", "r5"), ("X2", "c18", "r2"), ("X3", "c18", "r1"), ("X4", "c18", "r8"), ("X5", "c18", "r3")],
    "C08": [("X1", "c02", "r6"), ("X2", "c18", "r8"), ("X3", "c09", "r1")],
    "C09": [("X1", "c13", "r3"), ("X3", "c18", "r8")],
    "C10": [("X1", "c03", "r6"), ("X2", "c03", "r1"), ("X3", "c09", "r2"), ("X4", "c18", "r8"), ("X5", "c09", "r1")],
    "C11": [("X1", "c08", "r3"), ("X2", "c08", "r4"), ("X3", "c09", "r3"), ("X4", "c02", "r7"), ("X5", "c09", "r1")],
    "C13": [("X1", "c18", "r4"), ("X2", "c18", "r8"), ("X3", "c04", "r4")],
    "C17": [("X1", "c10", "r3"), ("X2", "c18", "r4")],
    "C18": [("X1", "c03", "r3"), ("X2", "c02", "r2"), ("X3", "c08", "r2")],
    "C20": [("X1", "c13", "r3"), ("X2", "c02", "r2"), ("X3", "c02", "r7")],
}
for _p, _lst in _SHARED.items():
    _ATTACH.setdefault(_p, [])
    for _sfx, _m, _f in _lst:
        _ATTACH[_p].append((_sfx, _shared(_m, _f)))


def rules_for(prop: str):
    out = []
    for suffix, fn in _ATTACH.get(prop, []):
        label = f"{prop}.{suffix}"
        out.append((label, (lambda f, l: (lambda ctx: f(ctx, l)))(fn, label)))
    return out
